#!/bin/sh
# usage: tools/seed_keep.sh <name> <caught|missed|out-of-scope> "<needs>" "<what the check printed / why>"
N=$1; ID=$(echo $N | cut -c1-3); D=/verif/seeded/$N
mkdir -p $D; cp /tmp/wt/$N-out/patch.diff /tmp/wt/$N-out/demo.py $D/; cp /tmp/wt/$N-out/notes.md $D/agent_notes.md 2>/dev/null
python3 - "$@" <<'PY'
import json, sys, os
n, verdict, needs, ran = sys.argv[1:5]
d = '/verif/seeded/' + n
log = '/tmp/wt/%s.check.log' % n
out = [l.strip()[:300] for l in open(log) if l.startswith(('VIOLATION', 'INCONCLUSIVE', 'KNOWN')) or 'holds within' in l][:6] if os.path.exists(log) else []
json.dump(dict(seed=n, property=n[:3], breaks=open(d + '/agent_notes.md').read()[:1500] if os.path.exists(d + '/agent_notes.md') else '',
               needs_to_manifest=needs, confirmed=dict(pinned_tests_with_change='107 passed', demo_without_change='exit 0', demo_with_change='exit 1',
               how='tools/seed_try.sh %s (worktree at /repo HEAD; then git -C /repo apply, ./check, git -C /repo checkout -- .)' % n),
               check_result=verdict, check_output=out, what_was_run=ran), open(d + '/meta.json', 'w'), indent=1)
PY
