"""plain data types shared by the symbolic driver and the native replay side (no z3)"""


class Obligation:
    def __init__(self, name, fn, bounds, labels=(), max_paths=200000, path_timeout=120,
                 classify=None, describe=None, outside='', optional_labels=()):
        self.name = name
        self.fn = fn
        self.bounds = bounds              # dict, repeated in the evidence
        self.labels = tuple(labels)       # coverage labels that must be reached (vacuity guard)
        self.optional_labels = tuple(optional_labels)
        self.max_paths = max_paths
        self.path_timeout = path_timeout
        self.classify = classify          # (label, inputs) -> class key of a violation
        self.describe = describe
        self.outside = outside
