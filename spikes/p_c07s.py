import sys, time
sys.path.insert(0, __import__('os').path.dirname(__import__('os').path.abspath(__file__))); sys.path.insert(0, '/repo')
from sx import instr, core
from sx.values import *
from sx.core import choose, check, cover
instr.install()
from mesonbuild.options import *
from mesonbuild.mesonlib import MesonException
import z3

VALS = ['v1', 'v2', 'v3', 'v4', 'v5', 'v6', 'v7', 'v8']
def harness():
    name = 'optimization'; subp = 'subp'
    store = OptionStore(False)
    store.add_system_option('prefix', UserStringOption('prefix', 'p', '/usr'))
    store.add_system_option(name, UserComboOption(name, 'x', 'dflt', choices=['dflt'] + VALS))
    P = [bool(sym_bool('p%d' % i)) for i in range(8)]
    k = OptionKey(name); ks = OptionKey(name, subproject=subp)
    top_defaults = {}; sub_defaults = {}; machine = {}; cmd = {}; spcall = {}
    if P[0]: top_defaults[k] = VALS[0]          # 1 parent default_options opt
    if P[1]: sub_defaults[k] = VALS[1]          # 2 subproject's own default_options opt
    if P[2]: machine[k] = VALS[2]               # 3 machine file opt
    if P[3]: cmd[k] = VALS[3]                   # 4 command line opt
    if P[4]: top_defaults[ks] = VALS[4]         # 5 parent default_options subp:opt
    if P[5]: spcall[k] = VALS[5]                # 6 subproject(default_options:) opt
    if P[6]: machine[ks] = VALS[6]              # 7 machine file subp:opt
    if P[7]: cmd[ks] = VALS[7]                  # 8 command line subp:opt
    store.initialize_from_top_level_project_call(top_defaults, cmd, machine)
    store.initialize_from_subproject_call(subp, spcall, sub_defaults, cmd, machine)
    exp = 'dflt'
    for i in range(8):
        if P[i]: exp = VALS[i]
    got = store.get_value_for(name, subp)
    check(got == exp, 'subproject value: present=%s expected %s got %s' % (''.join('1' if p else '0' for p in P), exp, got))
    # top-level: cmd > machine > default
    expt = 'dflt'
    for i in (0, 2, 3):
        if P[i]: expt = VALS[i]
    gott = store.get_value_for(name)
    check(gott == expt, 'top value: present=%s expected %s got %s' % (''.join('1' if p else '0' for p in P), expt, gott))
    cover('done')
if __name__ == '__main__':
    st = core.explore(harness, max_paths=2000)
    print('paths', st['paths'], 'viol', len(st['violations']), 'errors', len(st['errors']), st['labels'], 'time %.1f' % st['time'])
    for e in st['errors'][:3]: print('   ', e[:2])
    for v in st['violations'][:40]: print('   V', v[0])
