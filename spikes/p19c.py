import typing as T
from mesonbuild.utils.universal import Version, Range

Comp = T.Union[int, str]

def okc(c) -> bool:
    if isinstance(c, int):
        return c >= 0
    return 0 < len(c) <= 3 and all(('a' <= ch <= 'z') or ('A' <= ch <= 'Z') for ch in c)

def mkv(v: T.Tuple[Comp, ...]) -> Version:
    x = Version('')
    x._v = v
    return x

def trichotomy(a: T.Tuple[Comp, ...], b: T.Tuple[Comp, ...]) -> bool:
    """
    pre: len(a) <= 3 and len(b) <= 3
    pre: all(okc(c) for c in a) and all(okc(c) for c in b)
    post: _
    """
    A, B = mkv(a), mkv(b)
    lt, eq, gt = A < B, A == B, A > B
    return (int(lt) + int(eq) + int(gt)) == 1 and (A <= B) == (lt or eq) and (A >= B) == (gt or eq) and (lt == (B > A))

def transitive(a: T.Tuple[Comp, ...], b: T.Tuple[Comp, ...], c: T.Tuple[Comp, ...]) -> bool:
    """
    pre: len(a) <= 2 and len(b) <= 2 and len(c) <= 2
    pre: all(okc(x) for x in a) and all(okc(x) for x in b) and all(okc(x) for x in c)
    post: _
    """
    A, B, C = mkv(a), mkv(b), mkv(c)
    if A < B and B < C:
        return A < C
    if A <= B and B <= C:
        return A <= C
    return True
