import sys, time
sys.path.insert(0, __import__('os').path.dirname(__import__('os').path.abspath(__file__))); sys.path.insert(0, '/repo')
from sx import instr, core
from sx.values import *
from sx.core import choose, check, cover
instr.install()
from mesonbuild import mparser, mlog
from mesonbuild.mesonlib import MesonException
import z3
mlog.warning = lambda *a, **k: None
import p_c02  # for stubbed exception constructors
mparser.ParseException.__init__ = p_c02.mparser.ParseException.__init__

def harness(n):
    def h():
        text = sym_str(n, 'c', 1, 126)
        try:
            toks = list(mparser.Lexer(text).lex('f'))
        except mparser.ParseException as e:
            cover('reject'); return
        # tiling
        pos = 0
        for t in toks:
            check(t.bytespan[0] == pos, 'contiguous')
            pos = t.bytespan[1]
        check(pos == n, 'covers')
        cover('accept')
    return h
if __name__ == '__main__':
    for n in (1, 2, 3, 4):
        st = core.explore(harness(n), max_paths=100000)
        print(n, 'paths', st['paths'], 'checks', st['checks'], 'viol', len(st['violations']), 'errors', len(st['errors']), st['labels'], 'time %.1f' % st['time'], st.get('truncated'), flush=True)
        for e in st['errors'][:3]: print('   ', e[:2])
        for v in st['violations'][:3]: print('   V', v[0], v[1])
