"""symx: import-time AST instrumentation + symbolic-aware shims."""
import ast, sys, builtins, importlib.abc, importlib.machinery, re as _re, functools
from . import core
from .core import Unsupported
from . import terms as T
from .values import (OpaqueStr, SymBool, SymInt, SymStr, SymEnum, is_sym, mkbool, mkint, mkstr, chars_of, decide, zor, bt_any,
                     sym_int_of_str, sym_str_of_int, concretize_int, mkbool_any, it)
from .rx import SymPattern, ReShim

RE_SHIM = ReShim()

# ------------------------------------------------------------------ containers
def _eq(a, b):
    r = (a == b)
    return r

SET_ORDER = [None]


class SymSet:
    """insertion-ordered set without hashing; equality may fork"""
    def __init__(self, items=()):
        self._items = []
        for x in items: self.add(x)
    def __contains__(self, x):
        return decide(bt_any(self._contains(x)))
    def _contains(self, x):
        alts = []
        for y in self._items:
            r = _eq(x, y)
            if r is True: return True
            if r is False or r is NotImplemented: continue
            alts.append(r.t if isinstance(r, SymBool) else r)
        return zor(alts)
    def add(self, x):
        if x not in self: self._items.append(x)
    def discard(self, x):
        for i, y in enumerate(self._items):
            if bool(_eq(x, y)):
                del self._items[i]; return
    def remove(self, x):
        n = len(self._items); self.discard(x)
        if len(self._items) == n: raise KeyError(x)
    def update(self, *others):
        for o in others:
            for x in o: self.add(x)
    def pop(self): return self._items.pop()
    def clear(self): self._items.clear()
    def copy(self): return SymSet(self._items)
    def __iter__(self):
        items = list(self._items)
        if SET_ORDER[0] is not None and len(items) > 1: items = SET_ORDER[0](items)      # the iteration order of a set is the environment's choice: a harness may make it adversarial
        return iter(items)
    def __len__(self): return len(self._items)
    def __bool__(self): return bool(self._items)
    def union(self, *o):
        r = self.copy(); r.update(*o); return r
    __or__ = lambda self, o: self.union(o)
    def __ior__(self, o): self.update(o); return self
    def difference(self, *o):
        r = SymSet()
        for x in self._items:
            if not any(sx_in(x, oo) for oo in o): r.add(x)
        return r
    __sub__ = lambda self, o: self.difference(o)
    def intersection(self, *o):
        r = SymSet()
        for x in self._items:
            if all(sx_in(x, oo) for oo in o): r.add(x)
        return r
    __and__ = lambda self, o: self.intersection(o)
    def issubset(self, o): return all(sx_in(x, o) for x in self._items)
    def __eq__(self, o):
        if not isinstance(o, (SymSet, set, frozenset)): return NotImplemented
        return len(self) == len(o) and self.issubset(o)
    def __hash__(self): raise Unsupported('hash(SymSet)')
    def __repr__(self): return 'SymSet(%r)' % (self._items,)

class SymDict:
    def __init__(self, items=()):
        self._k = []; self._v = []
        for k, v in (items.items() if hasattr(items, 'items') else items): self[k] = v
    def _find(self, k):
        for i, y in enumerate(self._k):
            if bool(_eq(k, y)): return i
        return -1
    def __contains__(self, k): return self._find(k) >= 0
    def __getitem__(self, k):
        i = self._find(k)
        if i < 0: raise KeyError(k)
        return self._v[i]
    def __setitem__(self, k, v):
        i = self._find(k)
        if i < 0: self._k.append(k); self._v.append(v)
        else: self._v[i] = v
    def __delitem__(self, k):
        i = self._find(k)
        if i < 0: raise KeyError(k)
        del self._k[i]; del self._v[i]
    def get(self, k, d=None):
        i = self._find(k)
        return d if i < 0 else self._v[i]
    def pop(self, k, *d):
        i = self._find(k)
        if i < 0:
            if d: return d[0]
            raise KeyError(k)
        v = self._v[i]; del self._k[i]; del self._v[i]; return v
    def keys(self): return list(self._k)
    def values(self): return list(self._v)
    def items(self): return list(zip(self._k, self._v))
    def __iter__(self): return iter(list(self._k))
    def __len__(self): return len(self._k)
    def __bool__(self): return bool(self._k)
    def update(self, o):
        for k, v in (o.items() if hasattr(o, 'items') else o): self[k] = v
    def setdefault(self, k, d=None):
        i = self._find(k)
        if i < 0: self[k] = d; return d
        return self._v[i]
    def copy(self): return SymDict(self.items())

# ------------------------------------------------------------------ symbolic keys in native dicts
class SymKey:
    """a symbolic value stored as a key of a native dict (e.g. a memoisation cache of the code under test): identity hash, equality decided
    symbolically; dicts holding such keys are looked up by scanning (see sx_getitem / sx_in / sx_meth)"""
    __slots__ = ('v',)
    def __init__(self, v): self.v = v
    def __hash__(self): return id(self)
    def __eq__(self, o): return self is o
    def __repr__(self): return 'SymKey(%r)' % (self.v,)
    def __getattr__(self, name): raise Unsupported('a symbolic dictionary key was used as a value (.%s)' % name)

SYMKEY_DICTS = {}     # id(dict) -> dict, for dicts that hold SymKey entries (cleared by the engine at the start of each path)


def _kv(y):
    return y.v if isinstance(y, SymKey) else y


def _keyeq(a, b):
    a, b = _kv(a), _kv(b)
    if isinstance(a, tuple) and isinstance(b, tuple):
        return len(a) == len(b) and all(_keyeq(x, y) for x, y in zip(a, b))
    r = (a == b)
    if r is NotImplemented: return False
    return bool(r)


def _scan(o, k):
    """the stored key equal to k (forking on symbolic equality), or a marker"""
    for y in list(o):
        if _keyeq(k, y): return y
    return _MISSING

_MISSING = object()


def _needs_scan(o, k):
    return type(o) is dict and (_has_sym(k) or id(o) in SYMKEY_DICTS)


def sx_setitem(o, k, v):
    if type(o) is dict and (_has_sym(k) or id(o) in SYMKEY_DICTS):
        y = _scan(o, k)
        if y is not _MISSING: o[y] = v; return
        if _has_sym(k):
            o[SymKey(k)] = v; SYMKEY_DICTS[id(o)] = o; return
    o[k] = v


# ------------------------------------------------------------------ shims
def _anysym(args):
    for a in args:
        if isinstance(a, (SymBool, SymInt, SymStr, SymEnum)): return True
    return False

def _isinst(x, T):
    if isinstance(T, tuple):
        return any(_isinst(x, t) for t in T)
    if hasattr(x, '__sx_isinstance__'): return x.__sx_isinstance__(T)
    if isinstance(x, SymInt): return T is int or T is object
    if isinstance(x, SymBool): return T is bool or T is int or T is object
    if isinstance(x, SymStr): return T is str or T is object
    if isinstance(x, SymSet): return T is set or T is SymSet or T is object
    if isinstance(x, SymDict): return T is dict or T is SymDict or T is object
    return isinstance(x, T)

def _type(x):
    if isinstance(x, SymInt): return int
    if isinstance(x, SymBool): return bool
    if isinstance(x, SymStr): return str
    if isinstance(x, SymSet): return set
    return type(x)

def _str(*a):
    if not a: return ''
    x = a[0]
    if isinstance(x, (SymStr, OpaqueStr)): return x
    if hasattr(x, '__sx_str__'): return x.__sx_str__()
    if isinstance(x, SymInt): return sym_str_of_int(x)
    if isinstance(x, SymBool): return 'True' if x else 'False'
    if isinstance(x, (str, int, float, bytes, type(None), list, tuple, dict)) and len(a) == 1:
        if isinstance(x, (list, tuple, dict)):
            return _repr(x)
        return str(x)
    if len(a) == 1:
        f = type(x).__str__
        if f is object.__str__:
            return _repr(x)
        return f(x)
    return str(*a)

PRECISE_REPR = [False]      # a harness that depends on repr() of strings (e.g. a digest over str(list)) switches the exact ASCII model on


def _repr_symstr(x):
    """CPython's repr() of a str for code points 1..126"""
    from .values import ceq, c_in, cin_range
    cs = x.c
    has_sq = any(decide(ceq(c, 39)) for c in cs)
    has_dq = any(decide(ceq(c, 34)) for c in cs) if has_sq else False
    q = 34 if (has_sq and not has_dq) else 39
    out = [q]
    for c in cs:
        if decide(ceq(c, 92)): out += [92, 92]
        elif decide(ceq(c, q)): out += [92, q]
        elif decide(ceq(c, 10)): out += [92, 110]
        elif decide(ceq(c, 13)): out += [92, 114]
        elif decide(ceq(c, 9)): out += [92, 116]
        elif decide(zor([cin_range(c, 0, 31), ceq(c, 127)])):
            v = concretize_int(mkint(c), 40)
            out += [ord(ch) for ch in '\\x%02x' % v]
        else: out.append(c)
    out.append(q)
    return mkstr(out)


def _repr(x):
    if isinstance(x, SymStr):
        if PRECISE_REPR[0]: return _repr_symstr(x)
        # repr of a symbolic string is normally used for messages only: not modelled, opaque
        return OpaqueStr('repr of a symbolic string')
    if isinstance(x, OpaqueStr): return x
    if isinstance(x, SymInt): return sym_str_of_int(x)
    if isinstance(x, SymBool): return 'True' if x else 'False'
    if isinstance(x, list): return '[' + _join(', ', [_repr(i) for i in x]) + ']'
    if isinstance(x, tuple): return '(' + _join(', ', [_repr(i) for i in x]) + (',)' if len(x) == 1 else ')')
    if isinstance(x, dict): return '{' + _join(', ', [_repr(k) + ': ' + _repr(v) for k, v in x.items()]) + '}'
    if isinstance(x, (str, int, float, bytes, type(None), type)): return repr(x)
    f = type(x).__repr__
    if f is object.__repr__: return repr(x)
    try:
        return f(x)          # an instrumented __repr__ may legitimately return a symbolic / opaque string
    except TypeError:
        return OpaqueStr('repr of %s' % type(x).__name__)

def _join(sep, items):
    items = list(items)
    out = ''
    for n, i in enumerate(items):
        if n: out = out + sep
        if isinstance(i, OpaqueStr): out = out + i; continue
        if not isinstance(i, (str, SymStr)): raise TypeError('sequence item %d: expected str instance, %s found' % (n, type(i).__name__))
        out = out + i
    return out

def _int(*a, **k):
    if not a: return 0
    x = a[0]
    base = a[1] if len(a) > 1 else k.get('base', None)
    if hasattr(x, '__sx_int__'): return x.__sx_int__(base)
    if isinstance(x, SymStr): return sym_int_of_str(x, 10 if base is None else base)
    if isinstance(x, SymInt): return x
    if isinstance(x, SymBool): return mkint(it(x))
    return int(*a, **k)

def _bool(*a):
    if not a: return False
    x = a[0]
    if isinstance(x, SymBool): return x
    if isinstance(x, SymInt): return mkbool(T.bnot(T.ieq(x.t, 0)))
    return bool(x)

def _set(*a):
    return SymSet(*a)

def _frozenset(*a):
    if a and any(is_sym(x) for x in a[0]): return SymSet(*a)
    return frozenset(*a)

def _ord(x):
    if isinstance(x, SymStr):
        if len(x) != 1: raise TypeError('ord() expected a character')
        return mkint(x.c[0])
    return ord(x)

def _chr(x):
    if isinstance(x, SymInt): return SymStr([x.t])
    return chr(x)

class HashKey:
    """model of hash() on a value with symbolic parts: an injective function of the value (no collisions),
    so two keys are equal iff the hashed values are equal"""
    __slots__ = ('v',)
    def __init__(self, v): self.v = v
    def __eq__(self, o):
        if isinstance(o, HashKey): return _deep_eq(self.v, o.v)
        if isinstance(o, int): return False
        return NotImplemented
    def __ne__(self, o):
        from .values import sym_not
        return sym_not(self.__eq__(o))
    def __hash__(self): raise Unsupported('hash of a symbolic hash')

def _deep_eq(a, b):
    from .values import sym_and
    if isinstance(a, (tuple, list)) and isinstance(b, (tuple, list)):
        if type(a) is not type(b) or len(a) != len(b): return False
        return sym_and(*[_deep_eq(x, y) for x, y in zip(a, b)])
    r = (a == b)
    return False if r is NotImplemented else r

def _has_sym(x):
    if is_sym(x): return True
    if isinstance(x, (tuple, list, frozenset)): return any(_has_sym(y) for y in x)
    return False

def _hash(x):
    if _has_sym(x): return HashKey(x)
    return hash(x)

def _max(*a, **k):
    return builtins.max(*a, **k)

class SymStringIO:
    """io.StringIO over a symbolic string (read side only)"""
    def __init__(self, s=''):
        self.s = s; self.pos = 0
    def read(self, n=-1):
        if n is None or n < 0: n = len(self.s) - self.pos
        r = self.s[self.pos:self.pos + n]; self.pos += len(r)
        return r
    def readline(self):
        i = self.pos
        while i < len(self.s):
            i += 1
            if decide(bt_any(self.s[i - 1] == '\n')): break
        r = self.s[self.pos:i]; self.pos = i
        return r
    def __iter__(self):
        while self.pos < len(self.s): yield self.readline()
    def close(self): pass

def _stringio(*a, **k):
    import io
    if a and isinstance(a[0], SymStr): return SymStringIO(a[0])
    return io.StringIO(*a, **k)

def _bytes(*a, **k):
    if a and isinstance(a[0], SymStr): return SymBytes(a[0])
    if a and isinstance(a[0], OpaqueStr): raise Unsupported('bytes() of an unmodelled string')
    return bytes(*a, **k)

_CALLS = {'bytes': _bytes, 'StringIO': _stringio, 'isinstance': _isinst, 'type': None, 'str': _str, 'int': _int, 'bool': _bool, 'set': _set,
          'frozenset': _frozenset, 'ord': _ord, 'chr': _chr, 'hash': _hash, 'repr': _repr}

def sx_call(name, /, *a, **k):
    if name == 'type':
        return _type(a[0]) if len(a) == 1 else type(*a, **k)
    f = _CALLS.get(name)
    if f is not None:
        return f(*a, **k)
    return getattr(builtins, name)(*a, **k)

def sx_in(x, c):
    if hasattr(x, '__sx_in__'): return x.__sx_in__(c)
    if _needs_scan(c, x): return _scan(c, x) is not _MISSING
    if hasattr(c, '__sx_contains__'): return c.__sx_contains__(x)
    if isinstance(c, (SymSet, SymDict)):
        return x in c
    if isinstance(c, SymStr):
        return x in c
    if isinstance(c, str):
        if isinstance(x, SymStr):
            return decide(bt_any(SymStr(chars_of(c))._contains(x)))
        return x in c
    if is_sym(x):
        if isinstance(c, (set, frozenset, dict, list, tuple)) or type(c).__name__ in ('dict_keys', 'KeysView', 'mappingproxy'):
            alts = []
            for y in c:
                r = (x == y)
                if r is True: return True
                if isinstance(r, SymBool): alts.append(r.t)
            return decide(zor(alts))
    return x in c

def sx_getitem(o, k):
    if hasattr(k, '__sx_key__'): return k.__sx_key__(o)
    if _needs_scan(o, k):
        y = _scan(o, k)
        if y is _MISSING: raise KeyError(k)
        return o[y]
    if isinstance(k, (SymStr, SymInt, SymBool, SymEnum)):
        if isinstance(o, dict) or type(o).__name__ == 'mappingproxy':
            for y in o:
                if bool(k == y): return o[y]
            raise KeyError(k)
        if isinstance(o, (list, tuple, str)) and isinstance(k, SymInt):
            return o[concretize_int(k)]
    return o[k]

def sx_fmt(v, conv, spec):
    if hasattr(v, '__sx_fmt__'): return v.__sx_fmt__(conv, spec)
    if conv == 114: v = _repr(v)
    elif conv == 115: v = _str(v)
    elif conv == 97: v = ascii(v)
    if isinstance(v, OpaqueStr): return v
    if spec == '':
        if isinstance(v, (SymStr, str)): return v
        if isinstance(v, (SymInt, SymBool)): return _str(v)
        if isinstance(v, (str, int, float, bytes, type(None))): return format(v, '')
        return _str(v)
    if is_sym(v) or is_sym(spec):
        raise Unsupported('format spec %r on symbolic value' % (spec,))
    return format(v, spec)

def sx_fstr(*parts):
    out = ''
    for p in parts:
        out = out + p
    return out

def sx_mod(fmt, args):
    tup = args if isinstance(args, tuple) else (args,)
    if not _anysym(tup):
        return fmt % args
    out = ''; i = 0; n = 0
    for m in _re.finditer(r'%([sdr%])', fmt):
        out = out + fmt[i:m.start()]
        if m.group(1) == '%': out = out + '%'
        else:
            a = tup[n]; n += 1
            out = out + (_repr(a) if m.group(1) == 'r' else _str(a))
        i = m.end()
    if '%' in _re.sub(r'%[sdr%]', '', fmt): raise Unsupported('format %r' % fmt)
    return out + fmt[i:]

_STR_METHS = {'join', 'startswith', 'endswith', 'replace', 'split', 'rsplit', 'find', 'rfind', 'index', 'count',
              'strip', 'lstrip', 'rstrip', 'partition', 'format'}

def _format(fmt, *a, **k):
    """str.format with symbolic arguments: {} {n} {name} with (possibly nested) format specs"""
    out = ''; i = 0; n = len(fmt); auto = 0

    def lookup(field):
        nonlocal auto
        if field == '':
            v = a[auto]; auto += 1; return v
        if field.isdigit(): return a[int(field)]
        if field in k: return k[field]
        raise Unsupported('format field %r' % field)
    while i < n:
        ch = fmt[i]
        if ch == '{':
            if i + 1 < n and fmt[i + 1] == '{': out = out + '{'; i += 2; continue
            depth = 1; j = i + 1
            while j < n and depth:
                if fmt[j] == '{': depth += 1
                elif fmt[j] == '}': depth -= 1
                j += 1
            body = fmt[i + 1:j - 1]
            field, _, spec = body.partition(':')
            if '!' in field: raise Unsupported('format conversion')
            if '{' in spec:
                spec = _format(spec, *a, **k)
                if not isinstance(spec, str): raise Unsupported('symbolic format spec')
            out = out + _format_one(lookup(field), spec)
            i = j; continue
        if ch == '}':
            if i + 1 < n and fmt[i + 1] == '}': out = out + '}'; i += 2; continue
            raise ValueError("Single '}' encountered in format string")
        out = out + ch; i += 1
    return out


def _format_one(v, spec):
    if isinstance(v, OpaqueStr): return v
    if not is_sym(v): return format(v, spec)
    if isinstance(v, (SymStr,)) and spec == '': return v
    if isinstance(v, SymEnum): return format(v.concretize(), spec)
    if isinstance(v, (SymInt, SymBool)):
        m = _re.fullmatch(r'#?0?(\d*)([dxobX]?)', spec)
        if m and (m.group(1) in ('', '0')) and m.group(2) in ('', 'd'):
            return _str(v)
        return format(concretize_int(v, 300), spec)      # non-decimal or padded: fork over the (small) domain
    raise Unsupported('format spec %r on %s' % (spec, type(v).__name__))


def sx_meth(recv, name, /, *a, **k):
    if isinstance(recv, str) and name in _STR_METHS:
        flat = a[0] if (name == 'join' and a) else a
        if name == 'join':
            flat = list(flat)
            if _anysym(flat): return _join(recv, flat)
            return recv.join(flat)
        if _anysym(a) or any(isinstance(x, tuple) and _anysym(x) for x in a):
            if name == 'format': return _format(recv, *a, **k)
            return getattr(SymStr(chars_of(recv)), name)(*a, **k)
    elif type(recv) is dict and not a and name in ('keys', 'items') and id(recv) in SYMKEY_DICTS:
        # hand the symbolic keys out as values again (a list: every use in the analysed code iterates, sorts or tests membership)
        return [_kv(y) for y in recv] if name == 'keys' else [(_kv(y), v) for y, v in recv.items()]
    elif type(recv) is dict and a and name in ('get', 'pop', '__contains__', '__getitem__', 'setdefault') and _needs_scan(recv, a[0]):
        y = _scan(recv, a[0])
        if y is not _MISSING: return getattr(recv, name)(y, *a[1:])
        if name == 'get': return a[1] if len(a) > 1 else None
        if name == 'pop':
            if len(a) > 1: return a[1]
            raise KeyError(a[0])
        if name == '__contains__': return False
        if name == 'setdefault':
            d = a[1] if len(a) > 1 else None
            sx_setitem(recv, a[0], d); return d
        raise KeyError(a[0])
    elif isinstance(recv, dict) and a and is_sym(a[0]) and name in ('get', 'pop', '__contains__', '__getitem__'):
        for y in recv:
            if bool(a[0] == y):
                return getattr(recv, name)(y, *a[1:])
        if name == 'get': return a[1] if len(a) > 1 else None
        if name == 'pop' and len(a) > 1: return a[1]
        if name == '__contains__': return False
        raise KeyError(a[0])
    elif isinstance(recv, (set, frozenset)) and _anysym(a):
        raise Unsupported('native set .%s with symbolic argument' % name)
    elif recv is _re:
        return getattr(RE_SHIM, name)(*a, **k)
    elif recv is _codecs and name == 'decode' and a and isinstance(a[0], SymBytes):
        if len(a) > 1 and a[1] == 'unicode_escape': return unicode_escape_decode(a[0].s)
        return a[0].s
    elif (recv is _os_path or recv is _os) and _anysym(a):
        f = _PATH_SHIMS.get(name)
        if f is None: raise Unsupported('os.path.%s on a symbolic string' % name)
        return f(*a, **k)
    return getattr(recv, name)(*a, **k)

import os as _os, os.path as _os_path, codecs as _codecs
from .values import SymBytes, unicode_escape_decode

def _p_isabs(s): return s.startswith('/')
def _p_split(p):
    i = p.rfind('/') + 1
    head, tail = p[:i], p[i:]
    if head:
        stripped = head.rstrip('/')
        if len(stripped): head = stripped
    return head, tail
def _p_basename(p): return p[p.rfind('/') + 1:]
def _p_dirname(p): return _p_split(p)[0]
def _p_join(a, *ps):
    path = a
    for b in ps:
        if bool(b.startswith('/')) if len(b) else False: path = b
        elif not len(path) or bool(path.endswith('/')): path = path + b
        else: path = path + '/' + b
    return path
def _p_fspath(p): return p
def _p_normpath(path):
    if not len(path): return '.'
    initial = 0
    if bool(path.startswith('/')):
        initial = 1
        if bool(path.startswith('//')) and not bool(path.startswith('///')): initial = 2
    comps = path.split('/')
    new = []
    for comp in comps:
        if not len(comp) or bool(comp == '.'): continue
        if bool(comp != '..') or (not initial and not new) or (new and bool(new[-1] == '..')):
            new.append(comp)
        elif new:
            new.pop()
    out = ''
    for n, c in enumerate(new): out = out + ('/' if n else '') + c
    if initial: out = '/' * initial + out
    return out if len(out) else '.'
def _p_splitdrive(p): return ('', p)
def _p_splitext(p):
    i = p.rfind('.'); j = p.rfind('/')
    if i > j:
        k = j + 1
        while k < i:
            if bool(p[k] != '.'): return p[:i], p[i:]
            k += 1
    return p, ''
_PATH_SHIMS = dict(splitdrive=_p_splitdrive, splitext=_p_splitext, isabs=_p_isabs, split=_p_split, basename=_p_basename, dirname=_p_dirname, join=_p_join, fspath=_p_fspath, normpath=_p_normpath)

def sx_set(*items):
    if _anysym(items): return SymSet(items)
    return set(items)

_MEMOS = []
_PLAIN = (str, int, bool, float, bytes, type(None), type)


def _plain(x, depth=0):
    import enum
    if type(x) in _PLAIN or isinstance(x, (enum.Enum, type)): return True
    if type(x) in (tuple, frozenset) and depth < 3: return all(_plain(y, depth + 1) for y in x)
    return False


def sx_memo(fn):
    import functools
    cache = {}
    _MEMOS.append(cache)

    @functools.wraps(fn)
    def w(*a, **k):
        if not (all(_plain(x) for x in a) and all(_plain(v) for v in k.values())): return fn(*a, **k)
        key = (a, tuple(sorted(k.items())))
        try: hit = key in cache
        except TypeError: return fn(*a, **k)
        if hit: return cache[key]
        r = fn(*a, **k); cache[key] = r
        return r
    w.__wrapped__ = fn
    w.cache_clear = cache.clear
    w.cache_info = lambda: None
    return w


def clear_memos():
    for c in _MEMOS: c.clear()


def sx_strmeth(name):
    real = getattr(str, name)
    if name in ('maketrans',):
        return real
    def f(s, *a, **k):
        if isinstance(s, SymStr): return getattr(s, name)(*a, **k)
        return real(s, *a, **k)
    f.__name__ = name
    return f


SHIMS = dict(sx__strmeth=sx_strmeth, sx__memo=sx_memo, sx__setitem=sx_setitem, sx__call=sx_call, sx__in=sx_in, sx__getitem=sx_getitem, sx__fmt=sx_fmt, sx__fstr=sx_fstr,
             sx__mod=sx_mod, sx__meth=sx_meth, sx__set=sx_set, sx__re=RE_SHIM)

WRAP_CALLS = {'bytes', 'StringIO', 'isinstance', 'int', 'str', 'bool', 'hash', 'repr', 'type', 'set', 'frozenset', 'ord', 'chr'}

# ------------------------------------------------------------------ transformer
class Tr(ast.NodeTransformer):
    def __init__(self):
        self.cls = []
        self.scope = []
        self.ntmp = 0
    def generic_visit(self, node):
        # never rewrite inside annotations (they are stringified and pattern-matched by dataclasses)
        saved = {}
        for f in ('annotation', 'returns'):
            if hasattr(node, f):
                saved[f] = getattr(node, f); setattr(node, f, None)
        super().generic_visit(node)
        for f, v in saved.items(): setattr(node, f, v)
        return node
    def visit_ClassDef(self, node):
        self.cls.append(node.name); self.scope.append('class'); self.generic_visit(node); self.scope.pop(); self.cls.pop(); return node
    def mangle(self, attr):
        if self.cls and attr.startswith('__') and not attr.endswith('__'):
            return '_' + self.cls[-1].lstrip('_') + attr
        return attr
    def _strip_cache(self, node):
        keep = []
        for d in node.decorator_list:
            t = d.func if isinstance(d, ast.Call) else d
            nm = t.attr if isinstance(t, ast.Attribute) else (t.id if isinstance(t, ast.Name) else '')
            if nm in ('lru_cache', 'cache'):
                # functools.lru_cache / cache hash their arguments in C (a symbolic argument cannot go there) - replaced by a memo with the same meaning on
                # plain concrete arguments (the same OBJECT comes back on a hit, as with the real cache) that calls through when an argument is symbolic
                keep.append(ast.copy_location(ast.Name('sx__memo', ast.Load()), d)); continue
            keep.append(d)
        node.decorator_list = keep
    def visit_FunctionDef(self, node):
        self._strip_cache(node); self.scope.append('func'); self.generic_visit(node); self.scope.pop(); return node
    visit_AsyncFunctionDef = visit_FunctionDef
    def visit_Import(self, node):
        out = []
        for a in node.names:
            if a.name == 're':
                out.append(ast.copy_location(ast.Assign([ast.Name(a.asname or 're', ast.Store())], ast.Name('sx__re', ast.Load())), node))
            else:
                out.append(ast.copy_location(ast.Import([a]), node))
        return out
    def visit_Call(self, node):
        self.generic_visit(node)
        starred = any(isinstance(a, ast.Starred) for a in node.args)
        if isinstance(node.func, ast.Name) and node.func.id in WRAP_CALLS:
            return ast.copy_location(ast.Call(ast.Name('sx__call', ast.Load()), [ast.Constant(node.func.id)] + node.args, node.keywords), node)
        if isinstance(node.func, ast.Attribute) and not (isinstance(node.func.value, ast.Call) and isinstance(node.func.value.func, ast.Name) and node.func.value.func.id == 'super'):
            return ast.copy_location(ast.Call(ast.Name('sx__meth', ast.Load()), [node.func.value, ast.Constant(self.mangle(node.func.attr))] + node.args, node.keywords), node)
        return node
    def visit_Attribute(self, node):
        self.generic_visit(node)
        if isinstance(node.ctx, ast.Load) and isinstance(node.value, ast.Name) and node.value.id == 'str' and not node.attr.startswith('_'):
            # str.lower / str.strip ... used as a FUNCTION (key=str.lower): dispatch on the receiver, a symbolic string cannot go through the C descriptor
            return ast.copy_location(ast.Call(ast.Name('sx__strmeth', ast.Load()), [ast.Constant(node.attr)], []), node)
        return node
    def visit_Compare(self, node):
        self.generic_visit(node)
        if len(node.ops) == 1 and isinstance(node.ops[0], (ast.In, ast.NotIn)):
            call = ast.Call(ast.Name('sx__in', ast.Load()), [node.left, node.comparators[0]], [])
            if isinstance(node.ops[0], ast.NotIn):
                call = ast.UnaryOp(ast.Not(), call)
            return ast.copy_location(call, node)
        return node
    def visit_Subscript(self, node):
        self.generic_visit(node)
        if isinstance(node.ctx, ast.Load) and not isinstance(node.slice, ast.Slice):
            return ast.copy_location(ast.Call(ast.Name('sx__getitem', ast.Load()), [node.value, node.slice], []), node)
        return node
    def visit_Assign(self, node):
        self.generic_visit(node)
        def is_sub(t): return isinstance(t, ast.Subscript) and not isinstance(t.slice, (ast.Slice, ast.Tuple))
        if len(node.targets) == 1 and is_sub(node.targets[0]):
            t = node.targets[0]
            call = ast.Call(ast.Name('sx__setitem', ast.Load()), [t.value, t.slice, node.value], [])
            return ast.copy_location(ast.Expr(call), node)
        if len(node.targets) > 1 and any(is_sub(t) for t in node.targets) and self.scope and self.scope[-1] == 'func':
            # a = d[k] = v  ->  tmp = v; a = tmp; d[k] = tmp   (value evaluated once, targets assigned left to right)
            self.ntmp += 1
            tmp = 'sx__tmp%d' % self.ntmp
            out = [ast.Assign([ast.Name(tmp, ast.Store())], node.value)]
            for t in node.targets:
                if is_sub(t):
                    out.append(ast.Expr(ast.Call(ast.Name('sx__setitem', ast.Load()), [t.value, t.slice, ast.Name(tmp, ast.Load())], [])))
                else:
                    out.append(ast.Assign([t], ast.Name(tmp, ast.Load())))
            return [ast.copy_location(x, node) for x in out]
        return node

    def visit_Set(self, node):
        self.generic_visit(node)
        if any(isinstance(e, ast.Starred) for e in node.elts): return node
        if all(isinstance(e, ast.Constant) for e in node.elts): return node
        return ast.copy_location(ast.Call(ast.Name('sx__set', ast.Load()), node.elts, []), node)
    def visit_JoinedStr(self, node):
        self.generic_visit(node)
        parts = []
        for v in node.values:
            if isinstance(v, ast.Constant):
                parts.append(v)
            else:
                spec = v.format_spec if v.format_spec is not None else ast.Constant('')
                if isinstance(spec, ast.Call) and isinstance(spec.func, ast.Name) and spec.func.id == 'sx__fstr':
                    pass
                parts.append(ast.Call(ast.Name('sx__fmt', ast.Load()), [v.value, ast.Constant(v.conversion), spec], []))
        return ast.copy_location(ast.Call(ast.Name('sx__fstr', ast.Load()), parts, []), node)
    def visit_BinOp(self, node):
        self.generic_visit(node)
        if isinstance(node.op, ast.Mod) and isinstance(node.left, ast.Constant) and isinstance(node.left.value, str):
            return ast.copy_location(ast.Call(ast.Name('sx__mod', ast.Load()), [node.left, node.right], []), node)
        return node

def _postprocess(module):
    for k, v in list(module.__dict__.items()):
        if isinstance(v, _re.Pattern):
            module.__dict__[k] = SymPattern(v)
        elif isinstance(v, type) and getattr(v, '__module__', None) == module.__name__:
            for ck, cv in list(vars(v).items()):
                if isinstance(cv, _re.Pattern):
                    try: setattr(v, ck, SymPattern(cv))
                    except (AttributeError, TypeError): pass

class Loader(importlib.machinery.SourceFileLoader):
    def source_to_code(self, data, path, *, _optimize=-1):
        tree = ast.parse(data, path)
        tree = Tr().visit(tree)
        ast.fix_missing_locations(tree)
        return compile(tree, path, 'exec', dont_inherit=True, optimize=_optimize)
    def get_code(self, fullname):
        path = self.get_filename(fullname)
        return self.source_to_code(self.get_data(path), path)
    def exec_module(self, module):
        module.__dict__.update(SHIMS)
        super().exec_module(module)
        _postprocess(module)

class Finder(importlib.abc.MetaPathFinder):
    def __init__(self, prefixes, exact=()):
        self.prefixes = tuple(prefixes); self.exact = set(exact)
    def find_spec(self, fullname, path, target=None):
        if not (fullname in self.exact or fullname.startswith(self.prefixes)):
            return None
        spec = importlib.machinery.PathFinder.find_spec(fullname, path)
        if spec is None or not isinstance(spec.loader, importlib.machinery.SourceFileLoader):
            return spec
        spec.loader = Loader(spec.loader.name, spec.loader.path)
        return spec

def install(prefixes=('mesonbuild.',), exact=('mesonbuild',)):
    for name in list(sys.modules):
        if name in exact or name.startswith(tuple(prefixes)):
            del sys.modules[name]      # make sure the instrumented version is the one that gets used
    sys.meta_path.insert(0, Finder(prefixes, exact))
