import sys, time
sys.path.insert(0, __import__('os').path.dirname(__import__('os').path.abspath(__file__))); sys.path.insert(0, '/repo')
from sx import instr, core
from sx.values import *
from sx.core import choose, check, cover
instr.install()
from mesonbuild.mtest import TAPParser, TestResult
import z3
from p_c18 import casevar

def run(name, mk, maxp=3000):
    def h():
        lines = [mk()]
        ev = list(TAPParser().parse(iter(lines)))
    st = core.explore(h, max_paths=maxp)
    print(name, 'paths', st['paths'], 'checks', st['checks'], 'errors', len(st['errors']), 'time %.1f' % st['time'], 'trunc', st.get('truncated'), flush=True)
    for e in st['errors'][:2]: print('   ', e[:2])

run('blank', lambda: '')
run('bail', lambda: 'Bail out! x')
run('junk1', lambda: sym_str(1, 'j', 32, 126))
run('junk2', lambda: sym_str(2, 'j', 32, 126))
run('ok', lambda: 'ok')
run('ok n', lambda: 'ok ' + sym_str_of_int(sym_int('n', 0, 99), 2))
run('ok name', lambda: 'ok ' + sym_str(1, 'nm', 33, 126))
run('ok skip', lambda: 'ok # ' + casevar('skip'))
run('plan', lambda: '1..' + sym_str_of_int(sym_int('n', 0, 99), 2))
run('version', lambda: 'TAP version ' + sym_str_of_int(sym_int('n', 0, 99), 2))
