"""C15 - introspection files describe the generated build (tests, install plan and options projections)."""
import types, os
from symx.api import *

PROPERTY = 'C15'
LEVEL = 'other'
FILES = ['mesonbuild/mintro.py', 'mesonbuild/backend/backends.py', 'mesonbuild/backend/ninjabackend.py', 'mesonbuild/utils/core.py', 'mesonbuild/minstall.py', 'mesonbuild/options.py']
ENCODED = ['build.Executable / StaticLibrary.__init__ (classification of install_dir), BuildTarget.install_dir_names', 'Backend.generate_subdir_install', 'mintro.get_test_list', 'Backend.create_test_serialisation (on stub targets; called twice, as setup does: once for mtest, once for mintro)', 'EnvironmentVariables.set/prepend/get_env',
           'mintro.list_install_plan', 'mintro.list_installed', 'minstall.get_destdir_path / Installer.should_install (the consumer side)', 'mintro._list_buildoptions',
           'OptionStore.get_value_for', 'targets-vs-ninja: Interpreter.run + NinjaBackend.generate + mintro.list_targets / list_installed / Backend.get_introspection_data on generated projects without a compiled language (harness/proj.py)']
EXPLANATION = ('Relational checks between what the introspection writers emit and what the consumers use, on symbolic data: (tests) the real create_test_serialisation runs twice on the same '
               'Test objects - first as the data mtest loads, then as the data mintro lists - with symbolic argument strings, environment values, priorities, timeouts and a symbolic '
               '"links a shared library" bit; the JSON entry of the second pass must equal command, arguments, environment, suites, timeout, parallel flag and dependencies of the first. '
               '(install) list_install_plan / list_installed over a stub InstallData with symbolic install paths, names, tags: every entry has the destination the Installer '
               'computes and the tag it selects on, and nothing else is listed. (options) every reported value equals OptionStore.get_value_for.')
ASSUMPTIONS = ['backend.create_install_data() and Build.get_tests() are stubs returning symbolic entries ("whatever the backend produced")', 'targets are stub Executable / SharedLibrary objects',
               'native, non-Windows host']
OUT = 'intro-targets.json for COMPILED targets (needs a compiler; custom / alias / run targets are decided against build.ninja; the install entry of an executable / static library made of one object file is decided by install-build-target), option files in intro-buildsystem_files.json, intro-dependencies.json, benchmarks go through the same code as tests'
MANIFEST = dict(
    text='Bounded symbolic relational check of three projections (tests, install plan, build options) between the introspection writers and their consumers, incl. the real Backend.generate_*_install name/path pairs and subproject option values. '
         'intro-targets.json / intro-installed.json are compared with the build.ninja of the same configuration for generated projects without a compiled language; compiled targets are outside.',
    note='Partial claim. Trusted: symx engine, z3. Bounds: 1-2 tests with 0-2 arguments of <=2 characters, 1 environment variable, install paths <=2 characters.')

MT = BK = B = ML = MI = O = MC = None


def setup():
    global MT, BK, B, ML, MI, O, MC
    from mesonbuild import mintro as mt, build as b, mesonlib as ml, minstall as mi, options as o
    from mesonbuild.backend import backends as bk
    from mesonbuild.mesonlib import MachineChoice
    from harness.common import quiet_mlog
    quiet_mlog()
    MT, BK, B, ML, MI, O, MC = mt, bk, b, ml, mi, o, MachineChoice
    if 'symx.instr' in __import__('sys').modules:
        from symx import instr
        mi.path_has_root = instr._p_isabs


def mk_backend():
    be = object.__new__(BK.Backend)
    machine = types.SimpleNamespace(is_windows=lambda: False, is_cygwin=lambda: False, is_darwin=lambda: False)
    be.environment = types.SimpleNamespace(get_build_dir=lambda: '/bld', is_cross_build=lambda m=None: False, get_exe_wrapper=lambda: None,
                                           machines={MC.HOST: machine, MC.BUILD: machine}, need_exe_wrapper=lambda: False,
                                           coredata=types.SimpleNamespace(version='1.0'))
    be.get_exe_interpreter = lambda cmd, m: []
    be.get_target_filename = lambda t: t.filename
    be.build_to_src = '../src'
    return be


def mk_exe(name, links_shlib):
    e = object.__new__(B.Executable)
    e.filename = name; e.name = name; e.for_machine = MC.HOST
    lib = object.__new__(B.SharedLibrary)
    lib.get_builddir = lambda: 'lib'
    e.get_all_link_deps = lambda: [lib] if links_shlib else []
    e.get_id = lambda: name + '@exe'
    return e


def mk_test(i):
    links = decide(sym_bool('links_shared_library%d' % i))
    exe = mk_exe('t%d' % i, links)
    args = [sym_str(choose(3, 'arglen%d.%d' % (i, j)), 'arg%d.%d' % (i, j), 32, 126) for j in range(choose(3, 'nargs%d' % i))]
    env = ML.EnvironmentVariables()
    if choose(2, 'has_env%d' % i):
        env.set('V', [sym_str(1, 'envval%d' % i, 32, 126)])
    if choose(2, 'has_ldpath%d' % i):
        env.prepend('LD_LIBRARY_PATH', ['/opt'], ':')
    t = types.SimpleNamespace(priority=sym_int('priority%d' % i, -2, 2), cmd_args=args, env=env, depends=[], workdir=None,
                              is_parallel=sym_bool('is_parallel%d' % i), expected_fail=False, expected_exitcode=None, timeout=sym_int('timeout%d' % i, 0, 99),
                              protocol=BK.TestProtocol.EXITCODE, suite=['p:' + sym_str(1, 'suite%d' % i, alphabet='ab')], project_name='p', verbose=False)
    t.get_exe = lambda: exe
    t.get_name = lambda: 'test%d' % i
    return t


def ob_tests(n):
    def h():
        be = mk_backend()
        tests = [mk_test(i) for i in range(n)]
        first = be.create_test_serialisation(tests)       # what backend.generate() pickles for mtest
        first_env = [ts.env.get_env({}) for ts in first]  # pickled at this point: later mutation of shared state must not matter
        first_cmd = [list(ts.fname) + list(ts.cmd_args) for ts in first]
        second = be.create_test_serialisation(tests)      # what mintro.list_tests() serialises again for intro-tests.json
        js = MT.get_test_list(second)
        check(len(js) == len(first) == n, 'every test is listed once')
        for idx, (ts, j) in enumerate(zip(first, js)):
            check(j['name'] == ts.name, 'same order (by priority) and names')
            used_cmd = first_cmd[idx]                         # SingleTestRunner: self.cmd + self.test.cmd_args
            check(len(j['cmd']) == len(used_cmd), 'command: argument count')
            if len(j['cmd']) == len(used_cmd):
                for a, b in zip(j['cmd'], used_cmd): check(eq(a, b), 'command and arguments are what meson test runs')
            used_env = first_env[idx]
            check(sorted(j['env'].keys()) == sorted(used_env.keys()), 'environment: same variables')
            for k in used_env:
                if k in j['env']: check(len(j['env'][k]) == len(used_env[k]) and decide(bt_any(eq(j['env'][k], used_env[k]))) if len(j['env'][k]) == len(used_env[k]) else False,
                                        'environment values are what meson test uses')
            check(eq(j['timeout'], ts.timeout) and eq(j['priority'], ts.priority), 'timeout and priority')
            check(eq(j['is_parallel'], ts.is_parallel), 'is_parallel')
            check(len(j['suite']) == len(ts.suite) and all(decide(bt_any(eq(a, b))) for a, b in zip(j['suite'], ts.suite)), 'suites')
            check(j['depends'] == ts.depends, 'dependencies')
        cover('done')
    return h


def ob_install():
    def h():
        prefix = '/usr'
        ipath = sym_str(choose(2, 'plen') + 1, 'install_path', alphabet='/ab')
        if len(ipath): assume(sym_not(mkbool(bt_any(ipath.endswith('/')))))
        fname = '/src/' + sym_str(1, 'basename', alphabet='ab') + '.x'
        tag = [None, 'runtime', 'devel', ''][choose(4, 'tag')]
        subp = ['', 'sub'][choose(2, 'subproject')]
        kind = ['data', 'man', 'headers'][choose(3, 'kind')]
        entry = BK.InstallDataBase(fname, ipath, ipath, None, subp, tag)
        idata = types.SimpleNamespace(build_dir='/bld', prefix=prefix, targets=[], data=[], man=[], headers=[], install_subdirs=[], symlinks=[], emptydir=[])
        getattr(idata, kind).append(entry)
        be = types.SimpleNamespace(create_install_data=lambda: idata)
        plan = MT.list_install_plan(None, None, be)
        inst = MT.list_installed(None, None, be)
        # consumer side: where the Installer writes this entry (DESTDIR empty)
        dest = MI.get_destdir_path('', prefix, ipath)
        if kind == 'headers': dest = dest + '/' + fname[5:]
        listed = [(k, getattr(p, 'v', p), e) for k, d in plan.items() for p, e in d.items()]      # .v: a symbolic key stored by the engine in a native dict
        check(len(listed) == 1 and len(inst) == 1, 'exactly the installed entries are listed, nothing else')
        k, p, e = listed[0]
        check(k == kind and decide(bt_any(eq(p, fname))), 'listed under its kind and source path')
        got = list(inst.values())[0]
        check(len(got) == len(dest) and decide(bt_any(eq(got, dest))) if len(got) == len(dest) else False, 'intro-installed destination is where meson install writes')
        exp_plan = ipath + ('/' + fname[5:] if kind == 'headers' else '')
        check(len(e['destination']) == len(exp_plan) and decide(bt_any(eq(e['destination'], exp_plan))) if len(e['destination']) == len(exp_plan) else False,
              'install-plan destination names the installed file')
        # tag: the Installer selects on d.tag; the plan must report the same tag (None and '' both mean "untagged": --tags never selects them)
        ins = object.__new__(MI.Installer); ins.skip_subprojects = []
        for want in ('runtime', 'devel'):
            ins.tags = [want]
            check(ins.should_install(entry) == (e['tag'] == want), 'the listed tag is the one meson install --tags selects on')
        check(e['subproject'] == (subp or None), 'subproject')
        cover(kind)
    return h


def ob_install_many():
    """several installed files whose install-plan sections interleave (data / configure / python ...): every one is listed exactly once"""
    def h():
        n = 3
        sections = [None, 'configure', 'python']
        entries = []
        for i in range(n):
            dt = sections[choose(3, 'data_type%d' % i)]
            e = BK.InstallDataBase('/src/f%d' % i, 'share/' + sym_str(1, 'name%d' % i, alphabet='ab'), 'share/x%d' % i, None, '', None, dt)
            entries.append(e)
        idata = types.SimpleNamespace(build_dir='/bld', prefix='/usr', targets=[], data=entries, man=[], headers=[], install_subdirs=[], symlinks=[], emptydir=[])
        be = types.SimpleNamespace(create_install_data=lambda: idata)
        plan = MT.list_install_plan(None, None, be)
        inst = MT.list_installed(None, None, be)
        listed = {}
        for sect, d in plan.items():
            for p, ent in d.items():
                p = getattr(p, 'v', p)
                check(p not in listed, 'an installed file is listed once'); listed[p] = (sect, ent)
        for e in entries:
            check(e.path in listed, 'every installed data file appears in the install plan')
            if e.path in listed:
                check(listed[e.path][0] == (e.data_type or 'data'), 'under the section of its data type')
                check(listed[e.path][1]['destination'] == e.install_path_name, 'with its destination')
            check(e.path in inst, 'and in intro-installed')
        check(len(listed) == n, 'nothing that is not installed is listed')
        cover('done')
    return h


def ob_install_generators():
    """the real Backend.generate_{header,man,data,subdir}_install build both the real destination (what meson install uses) and its symbolic name
    (what intro-install_plan.json shows): resolving the placeholders of the name must give the real destination, for every spelling of the directories"""
    def h():
        prefix = '/usr'
        roots = {'{prefix}': prefix, '{includedir}': 'include', '{mandir}': 'share/man', '{datadir}': 'share'}
        be = object.__new__(BK.Backend)
        be.environment = types.SimpleNamespace(get_build_dir=lambda: '/bld', get_source_dir=lambda: '/src', get_prefix=lambda: prefix,
                                               get_includedir=lambda: 'include', get_mandir=lambda: 'share/man')
        kind = choose(5, 'kind')
        d = types.SimpleNamespace(headers=[], man=[], data=[], install_subdirs=[], targets=[], symlinks=[], emptydir=[], build_dir='/bld', prefix=prefix)
        DA = 'ab/'
        if kind == 0:
            how = choose(3, 'how')
            custom = sym_str(1 + choose(2, 'cl'), 'custom', alphabet=DA) if how == 2 else None
            sub = sym_str(1 + choose(2, 'sl'), 'subdir', alphabet=DA) if how == 1 else None
            hd = types.SimpleNamespace(get_custom_install_dir=lambda: custom, get_install_subdir=lambda: sub, get_sources=lambda: [ML.File(False, 'inc', 'h.h')],
                                       get_custom_install_mode=lambda: None, subproject='', install_tag='devel', follow_symlinks=None)
            be.build = types.SimpleNamespace(get_headers=lambda: [hd])
            be.generate_header_install(d); got = d.headers; key = 'headers'
        elif kind == 1:
            loc = [None, 'fr'][choose(2, 'locale')]
            custom = sym_str(1 + choose(2, 'cl'), 'custom', alphabet=DA) if choose(2, 'hascustom') else None
            src = ML.File(False, 'man', 'foo.fr.1' if loc else 'foo.1')
            mn = types.SimpleNamespace(get_sources=lambda: [src], get_custom_install_dir=lambda: custom, locale=loc, get_custom_install_mode=lambda: None, subproject='', install_tag=None)
            be.build = types.SimpleNamespace(get_man=lambda: [mn])
            be.generate_man_install(d); got = d.man; key = 'man'
        elif kind == 2:
            tail = sym_str(1 + choose(2, 'dl'), 'dir', alphabet=DA)
            named = choose(2, 'placeholder')
            idir = ('share/' + tail) if named else tail
            iname = ('{datadir}/' + tail) if named else tail
            ren = sym_str(1 + choose(2, 'rl'), 'rename', alphabet=DA)
            de = B.Data([ML.File(False, 'data', 'f.txt')], idir, iname, None, '', rename=[ren], install_tag='t')
            be.build = types.SimpleNamespace(get_data=lambda: [de])
            be.generate_data_install(d); got = d.data; key = 'data'
        elif kind == 3:
            isub = sym_str(1 + choose(3, 'il'), 'installable_subdir', alphabet=DA)
            tail = sym_str(1 + choose(2, 'dl'), 'dir', alphabet=DA)
            named = choose(2, 'placeholder')            # install_dir: get_option('datadir') / ... gives a name with a placeholder that differs from the path
            idir = ('share/' + tail) if named else tail
            iname = ('{datadir}/' + tail) if named else tail
            strip = choose(2, 'strip_directory') == 1
            sd = types.SimpleNamespace(from_source_dir=True, source_subdir='sub', installable_subdir=isub, install_dir=idir, install_dir_name=iname, strip_directory=strip,
                                       install_tag='t', install_mode=None, exclude=(set(), set()), subproject='', follow_symlinks=None)
            be.build = types.SimpleNamespace(get_install_subdirs=lambda: [sd])
            be.generate_subdir_install(d); got = d.install_subdirs; key = 'install_subdirs'
            # what install_subdir() documents: the directory is installed INTO install_dir under its own (last) name - however the name was spelled,
            # 'x', 'x/' and 'a/x/' all end in x - unless strip_directory, which installs the contents directly into install_dir
            comps = [x for x in isub.split('/') if len(x)]
            if len(got) == 1 and len(comps) and not decide(bt_any(isub.startswith('/'))):
                base = idir if decide(bt_any(idir.startswith('/'))) else prefix + '/' + idir          # os.path.join: an absolute install_dir stands for itself
                want = [x for x in base.split('/') if len(x)] + ([] if strip else [comps[-1]])
                have = [x for x in got[0].install_path.split('/') if len(x)]
                check(len(have) == len(want) and all(len(x) == len(y) and decide(bt_any(eq(x, y))) for x, y in zip(have, want)),
                      'install_subdir(): the destination is install_dir plus the last name of the directory (however spelled) unless strip_directory')
                cover('subdir-named')
        if kind == 4:
            # a build target / custom target: TargetInstallData derives the name from the directory when none is given
            outdir = sym_str(1 + choose(3, 'ol'), 'outdir', alphabet=DA)
            named = choose(2, 'placeholder')
            t = BK.TargetInstallData('sub/prog', ('lib/' + outdir) if named else outdir, ('{libdir}/' + outdir) if named else None, False, {}, set(), '', None, '', 'linux', tag='runtime')
            roots['{libdir}'] = 'lib'
            d.targets.append(t); got = [t]; key = 'targets'
        check(len(got) == 1, 'one install entry per declared file / directory')
        if len(got) != 1: return
        plan = MT.list_install_plan(None, None, types.SimpleNamespace(create_install_data=lambda: d))
        ents = [e for sect, dd in plan.items() for p, e in dd.items()]
        check(len(ents) == 1, 'listed once in the install plan')
        name = ents[0]['destination']
        for ph, val in roots.items():
            if isinstance(name, str) and name.startswith(ph): name = val + name[len(ph):]
            elif not isinstance(name, str) and len(name) >= len(ph) and decide(bt_any(name.startswith(ph))): name = val + name[len(ph):]
        real = (got[0].outdir + '/prog') if key == 'targets' else got[0].install_path
        if key == 'headers': real = real + '/' + 'h.h' if not decide(bt_any(real.endswith('/'))) else real + 'h.h'
        a = MI.get_destdir_path('', prefix, name); b = MI.get_destdir_path('', prefix, real)
        # compare up to duplicate slashes (os.path.join keeps what it is given)
        na = [x for x in a.split('/') if len(x)]; nb_ = [x for x in b.split('/') if len(x)]
        check(len(na) == len(nb_) and all(len(x) == len(y) and decide(bt_any(eq(x, y))) for x, y in zip(na, nb_)),
              'the install-plan destination, placeholders resolved, is the directory / file meson install writes')
        cover(key)
    return h


class OptDir(str):
    """what get_option('bindir') gives the interpreter: a string that remembers the option it came from"""
    def __new__(cls, val, optname):
        o = str.__new__(cls, val); o.optname = optname
        return o


def ob_install_build_target():
    """an executable / static library built by the real constructor (BuildTarget.__init__ decides whether its install directory is a custom one) with install_dir
    absent | '' (straight into the prefix) | a plain string | a directory option | false, through the real Backend.generate_target_install and
    mintro.list_install_plan: it is installed unless install_dir is false, into the directory given (the type's default when absent), and the install plan -
    placeholders resolved - names that same place"""
    def h():
        import harness.c01 as C1
        from mesonbuild.mesonlib import MachineChoice, File
        if C1.ENV is None: C1.setup()
        env = C1.ENV
        prefix = env.get_prefix()
        exe = choose(2, 'kind (executable | static library)') == 0
        CH = [None, '', 'custom/d', OptDir('libexec', '{libexecdir}'), False]
        idir = CH[choose(len(CH), 'install_dir')]
        kw = {'install': True, 'build_by_default': True, 'native': MachineChoice.HOST}
        if idir is not None: kw['install_dir'] = [idir]
        cls = B.Executable if exe else B.StaticLibrary
        t = cls('prog', 'sub', MachineChoice.HOST, [], None, [File(True, 'sub', 'a.o')], env, {}, B.BuildProject('p', '1', '', MachineChoice.HOST, MachineChoice.HOST), kw)
        for a in ('import_filename', 'debug_filename'):          # no linker was detected for a target made of one object file: no import library, no debug file
            if not hasattr(t, a): setattr(t, a, None)
        be = object.__new__(BK.Backend)
        be.environment = env
        be.build = types.SimpleNamespace(get_targets=lambda: {t.get_id(): t})
        be.get_target_option = lambda tt, k: False
        be.get_target_filename = lambda tt: 'sub/' + tt.get_filename()
        be.get_aix_so_archive_name = lambda tt, f: None
        d = types.SimpleNamespace(headers=[], man=[], data=[], install_subdirs=[], targets=[], symlinks=[], emptydir=[], build_dir='/bld', prefix=prefix)
        be.generate_target_install(d)
        if idir is False:
            check(len(d.targets) == 0, 'install_dir : false installs nothing'); cover('nothing'); return
        check(len(d.targets) == 1, 'the target is installed once')
        if len(d.targets) != 1: return
        default = env.get_bindir() if exe else env.get_static_lib_dir()
        want = default if idir is None else str(idir)
        check(d.targets[0].outdir == want, 'it goes to the directory given, the default of its type when none is')
        plan = MT.list_install_plan(None, None, types.SimpleNamespace(create_install_data=lambda: d))
        ents = [e for sect, dd in plan.items() for p, e in dd.items()]
        check(len(ents) == 1, 'listed once in the install plan')
        if len(ents) != 1: return
        name = ents[0]['destination']
        roots = {'{prefix}': prefix, '{bindir}': env.get_bindir(), '{libdir_static}': env.get_static_lib_dir(), '{libexecdir}': 'libexec', '{libdir}': env.get_libdir()}
        for ph, val in roots.items():
            if name.startswith(ph): name = val + name[len(ph):]
        check(MI.get_destdir_path('', prefix, name) == MI.get_destdir_path('', prefix, os.path.join(want, t.get_filename())),
              'the install-plan destination, placeholders resolved, is where meson install puts the target')
        cover('installed')
    return h


def ob_install_targets():
    """custom targets with 1-3 outputs and either ONE install_dir or one PER OUTPUT (false = do not install; a plain string; a directory option such as
    get_option('bindir')), through the real Backend.generate_target_install and mintro.list_install_plan: every installed output is listed once, and its
    install-plan destination - placeholders resolved - is the directory meson install really uses for THAT output"""
    def h():
        from mesonbuild.mesonlib import MachineChoice
        prefix = '/usr'
        roots = {'{prefix}': prefix, '{bindir}': 'bin', '{datadir}': 'share'}
        nout = 1 + choose(3, 'outputs')
        per_output = nout > 1 and choose(2, 'one install_dir per output') == 1
        CH = [False, 'custom/d', OptDir('bin', '{bindir}'), OptDir('share', '{datadir}')]
        dirs = [CH[choose(4, 'install_dir%d' % i)] for i in range(nout if per_output else 1)]
        t = object.__new__(B.CustomTarget)
        t.name = 'gen'; t.subproject = ''; t.install = True; t.install_dir = list(dirs); t.outputs = ['o%d.x' % i for i in range(nout)]
        t.install_tag = ['t'] * nout; t.install_mode = None; t.build_by_default = True; t.for_machine = MachineChoice.HOST; t.has_custom_install_dir = True
        be = object.__new__(BK.Backend)
        machine = types.SimpleNamespace(system='linux')

        class Machines:
            def __getitem__(self, k): return machine
        be.environment = types.SimpleNamespace(get_build_dir=lambda: '/bld', get_source_dir=lambda: '/src', get_prefix=lambda: prefix, machines=Machines())
        be.build = types.SimpleNamespace(get_targets=lambda: {'gen@cus': t})
        be.get_target_dir = lambda tt: 'sub'
        d = types.SimpleNamespace(headers=[], man=[], data=[], install_subdirs=[], targets=[], symlinks=[], emptydir=[], build_dir='/bld', prefix=prefix)
        be.generate_target_install(d)
        want = {}
        for i in range(nout):
            dd = dirs[i] if per_output else dirs[0]
            if dd is not False: want['sub/o%d.x' % i] = str(dd)
        check(sorted(x.fname for x in d.targets) == sorted(want), 'exactly the outputs whose install_dir is not false are installed, each once')
        for x in d.targets:
            if x.fname in want: check(x.outdir == want[x.fname], 'each output goes to its own install_dir')
        plan = MT.list_install_plan(None, None, types.SimpleNamespace(create_install_data=lambda: d))
        ents = {p: e for sect, dd in plan.items() for p, e in dd.items()}
        check(len(ents) == len(want), 'every installed output is listed once in the install plan')
        for fname, outdir in want.items():
            e = ents.get('/bld/' + fname)
            check(e is not None, 'listed under its build path')
            if e is None: continue
            name = e['destination']
            for ph, val in roots.items():
                if name.startswith(ph): name = val + name[len(ph):]
            check(MI.get_destdir_path('', prefix, name) == MI.get_destdir_path('', prefix, outdir + '/' + fname.rsplit('/', 1)[-1]),
                  'the install-plan destination of an output, placeholders resolved, is where meson install puts that output')
        cover('installed' if want else 'nothing')
    return h


def ob_buildsystem_files():
    """intro-buildsystem_files.json: the real Interpreter runs a build definition whose subdir() / subproject() calls are guarded by SYMBOLIC conditions (one
    subdir nested in another); what Interpreter.get_build_def_files() -> Build.def_files -> mintro.list_buildsystem_files reports is exactly the set of
    build-definition files that were read on that path - each once"""
    def h():
        import os
        import harness.c01 as c01
        if c01.ENV is None: c01.setup()
        tag = 'q%d' % os.getpid()
        names = {k: k + tag for k in ('sa', 'sb', 'sp')}
        c01.write_tree_file(names['sa'] + '/meson.build', "x = 1\n")
        c01.write_tree_file(names['sb'] + '/meson.build', "if B2\n  subdir('inner')\nendif\n")
        c01.write_tree_file(names['sb'] + '/inner/meson.build', "y = 2\n")
        c01.write_tree_file('subprojects/' + names['sp'] + '/meson.build', "project('%s')\nz = 3\n" % names['sp'])
        P = {'B%d' % i: sym_bool('B%d' % i) for i in range(4)}
        text = ("project('p')\nif B0\n  subdir('%s')\nendif\nif B1\n  subdir('%s')\nendif\nif B3\n  sp = subproject('%s')\nendif\n" % (names['sa'], names['sb'], names['sp']))
        root = os.path.join(c01.ENV.get_source_dir(), 'meson.build')
        with open(root, 'w') as f: f.write(text)          # the interpreter loads the root file itself (that is where it is registered)
        try:
            it = c01.Interpreter(c01.B.Build(c01.ENV), backend=None, user_defined_options=c01.OPTS)
            for k, v in P.items(): it.variables[k] = it._holderify(v)
            it.run()
        finally:
            with open(root, 'w') as f: f.write("project('p')\n")
        b = types.SimpleNamespace(environment=c01.ENV, def_files=it.get_build_def_files())
        got = MT.list_buildsystem_files(None, b, None)
        src = c01.ENV.get_source_dir()
        rel = [os.path.relpath(g, src) for g in got]
        exp = ['meson.build']
        if decide(bt_any(P['B0'])): exp.append(names['sa'] + '/meson.build')
        if decide(bt_any(P['B1'])):
            exp.append(names['sb'] + '/meson.build')
            if decide(bt_any(P['B2'])): exp.append(names['sb'] + '/inner/meson.build')
        if decide(bt_any(P['B3'])): exp.append('subprojects/' + names['sp'] + '/meson.build')
        check(len(rel) == len(set(rel)), 'no build-definition file is listed twice')
        check(set(rel) == set(exp), 'exactly the build-definition files that were read are listed')
        cover('done')
    return h


def ob_targets_vs_ninja(dim, full=False):
    """intro-targets.json / intro-installed.json against the build.ninja of the SAME configuration (real Interpreter, real NinjaBackend.generate, real
    mintro.list_targets / list_installed on a generated project without a compiled language - harness/proj.py): every target's `filename` entries are exactly
    the outputs its build statement produces, its sources + generated sources are exactly the explicit inputs that statement consumes, and exactly the installed
    outputs are listed with the destination install uses"""
    def h():
        from harness import proj as PJ
        pr, c, g = PJ.run_project(dim, full)
        by_name = {}
        for e in c.targets:
            check(e['name'] not in by_name, 'every target is listed once'); by_name[e['name']] = e
        ab = lambda rel: os.path.normpath(os.path.join(c.bld, rel))
        for t in ('A', 'B', 'C'):
            check(t in by_name, 'every custom target is listed')
            if t not in by_name: continue
            e = by_name[t]
            st = g.stmts[g.producer[pr.outs[t][0]]]
            check(sorted(os.path.normpath(f) for f in e['filename']) == sorted(ab(o) for o in st['outs']), 'filename = the outputs build.ninja produces for the target')
            check([os.path.normpath(f) for f in e['filename']] == [ab(o) for o in pr.outs[t]], 'filename = the declared outputs, in order')
            ts = e['target_sources']
            listed = sorted(os.path.normpath(x) for blk in ts for x in list(blk['sources']) + list(blk['generated_sources']))
            check(listed == sorted(ab(i) for i in st['ins']), 'sources + generated sources = the inputs the statement consumes')
        for nm, flag in (('al', pr.alias), ('rt', pr.run_needs), ('al2', pr.alias2)):
            check((nm in by_name) == (flag is not None), 'alias / run targets are listed iff defined')
            if nm in by_name:
                for f in by_name[nm]['filename']: check(os.path.relpath(f, c.bld) in g.producer, 'the name listed for an alias / run target is a statement of build.ninja')
        inst = {os.path.normpath(k): v for k, v in c.installed.items()}
        prefix = c.it.environment.coredata.optstore.get_value_for('prefix')
        plan_data = c.install_plan.get('data', {})
        tree = os.path.normpath(os.path.join(c.src, 'tree'))
        check((tree in inst) == (pr.subdir_dest is not None), 'an installed directory is listed iff install_subdir() was called')
        if pr.subdir_dest is not None and tree in inst:
            check(os.path.normpath(inst[tree]) == os.path.join(prefix, pr.subdir_dest), 'install_subdir(): the directory lands in install_dir under its own name (however the name was spelled) unless strip_directory')
            pl = {os.path.normpath(k): e for k, e in c.install_plan.get('install_subdirs', {}).items()}
            check(tree in pl and os.path.normpath(pl[tree]['destination'].replace('{prefix}', prefix).replace('{datadir}', os.path.join(prefix, 'share'))) == os.path.join(prefix, pr.subdir_dest), 'the install plan names the same destination for the directory')
            cover('subdir')
        inst.pop(tree, None)
        data_inst = {k: v for k, v in inst.items() if k.startswith(os.path.normpath(c.src) + os.sep)}
        check(sorted(os.path.normpath(k) for k in plan_data) == sorted(data_inst), 'the install plan lists exactly the data files that are installed')
        for k, e in plan_data.items():
            dest = e['destination'].replace('{prefix}', prefix).replace('{datadir}', os.path.join(prefix, 'share'))
            if not os.path.isabs(dest): dest = os.path.join(prefix, dest)
            check(os.path.normpath(dest) == os.path.normpath(data_inst.get(os.path.normpath(k), '')), 'the destination the install plan names for a data file is where install puts it')
        exp_data = {os.path.normpath(os.path.join(c.src, 'd/one.dat')): os.path.join(prefix, 'share/kept', 'd/one.dat' if pr.preserve else 'one.dat'),
                    os.path.normpath(os.path.join(c.src, 'two.dat')): os.path.join(prefix, 'share/kept', 'two.dat')}
        check({k: os.path.normpath(v) for k, v in data_inst.items()} == exp_data, 'install_data(preserve_path:) keeps or drops the sub-directory as declared')
        inst = {k: v for k, v in inst.items() if k not in data_inst}
        exp_inst = {ab(o): os.path.join(prefix, d) for o, d in zip(pr.outs['C'], pr.c_dest) if d is not None} if pr.installed_c else {}
        check(inst == exp_inst, 'exactly the installed outputs are listed, with the destination install uses')
        if 'C' in by_name:
            check(by_name['C']['installed'] == pr.installed_c, 'the installed flag of a target')
            if pr.installed_c:
                check(list(by_name['C'].get('install_filename', [])) == [None if d is None else os.path.join(prefix, d) for d in pr.c_dest], 'install_filename names, output by output, where install puts it')
        cover('done')
        if pr.installed_c: cover('installed')
        if pr.b_generated: cover('generator')
    return h


def ob_options():
    def h():
        st = O.OptionStore(False)
        st.init_builtins()
        K = O.OptionKey
        iv = sym_int('int_value', -5, 5)
        st.add_project_option(K('pint', subproject=''), O.UserIntegerOption('pint', 'd', 0, min_value=-5, max_value=5))
        st.add_project_option(K('pbool', subproject=''), O.UserBooleanOption('pbool', 'd', False))
        st.set_option(K('pint', subproject=''), iv)
        st.set_option(K('pbool', subproject=''), sym_bool('bool_value'))
        st.set_option(K('buildtype'), ['plain', 'debug', 'release'][choose(3, 'combo')])
        st.set_option(K('werror'), sym_bool('werror'))
        # a subproject: a builtin option with a per-subproject override (or not), and a yielding project option
        st.add_project_option(K('yb', subproject=''), O.UserBooleanOption('yb', 'd', decide(sym_bool('parent_yb'))))
        st.initialize_from_top_level_project_call({}, {}, {})
        st.add_project_option(K('yb', subproject='sub'), O.UserBooleanOption('yb', 'd', decide(sym_bool('sub_yb_default')), yielding=True))
        st.initialize_from_subproject_call('sub', {}, {}, {}, {})
        if decide(sym_bool('sub_override')):
            st.set_from_configure_command({K('warning_level', subproject='sub'): ['0', '2', '3'][choose(3, 'sub_warning_level')]})
        cd = types.SimpleNamespace(optstore=st)
        lst = MT._list_buildoptions(cd, ['sub'])
        seen = {}
        for o in lst:
            seen[o['name']] = o
        for name, key in (('sub:warning_level', K('warning_level', subproject='sub')), ('sub:yb', K('yb', subproject='sub')), ('yb', K('yb', subproject='')), ('warning_level', K('warning_level'))):
            check(name in seen, 'subproject options are reported')
            if name in seen: check(eq(seen[name]['value'], st.get_value_for(key)), 'the reported value is the one get_option() returns in that (sub)project')
        for name, key in (('pint', K('pint', subproject='')), ('pbool', K('pbool', subproject='')), ('debug', K('debug')), ('optimization', K('optimization')), ('werror', K('werror')), ('prefix', K('prefix')), ('buildtype', K('buildtype'))):
            check(name in seen, 'every option is reported')
            if name in seen: check(eq(seen[name]['value'], st.get_value_for(key)), 'the reported value is the one get_option() returns')
        check(len(seen) == len(lst), 'each option is reported once')
        cover('done')
    return h


def obligations(tier):
    q = tier == 'quick'
    out = []
    for n in (1, 2):       # tests[3] is > 5*10^6 paths (measured: truncated after 33 min) - not part of the registered tiers
        out.append(Obligation('tests[%d]' % n, ob_tests(n), dict(tests=n, args='0-2 of <=2 chars over ASCII 32..126', env='V / LD_LIBRARY_PATH present or not', shared_library='symbolic'),
                              labels=('done',), max_paths=5000000))
    out.append(Obligation('install-plan', ob_install(), dict(kinds='data | man | headers', install_path='1-2 chars over /ab', tag='None|runtime|devel|""', subproject='""|sub'),
                          labels=('data', 'man', 'headers')))
    out.append(Obligation('install-plan/interleaved', ob_install_many(), dict(entries=3, sections='data | configure | python in any order'), labels=('done',)))
    out.append(Obligation('install-generators', ob_install_generators(), dict(kinds='headers | man | data | install_subdir | build target', directories='1-3 chars over ab/ (trailing slash, absolute, nested)',
                          placeholders='{prefix} {includedir} {mandir} {datadir}', strip_directory='both'), labels=('headers', 'man', 'data', 'install_subdirs', 'targets', 'subdir-named'), max_paths=3000000))
    out.append(Obligation('buildoptions', ob_options(), dict(options='project int/bool, system combo, builtin bool; symbolic values'), labels=('done',)))
    out.append(Obligation('install-targets', ob_install_targets(), dict(real='Backend.generate_target_install, CustomTarget.install_dir_names, mintro.list_install_plan', outputs='1-3', install_dir="one for all | one per output; false | plain string | get_option('bindir') | get_option('datadir')"), labels=('installed', 'nothing')))
    out.append(Obligation('install-build-target', ob_install_build_target(), dict(real='build.Executable / StaticLibrary constructors (from an object file, no compiler), Backend.generate_target_install, mintro.list_install_plan', install_dir="absent | '' | plain string | directory option | false"), labels=('installed', 'nothing')))
    for dim in ('inputs', 'consumers'):
        out.append(Obligation('targets-vs-ninja[%s]' % dim, ob_targets_vs_ninja(dim, tier != 'quick'), dict(real='Interpreter.run + NinjaBackend.generate + mintro.list_targets / list_installed on a generated project without a compiled language',
                              targets='3 custom targets (1-2 outputs) consuming a source file / a whole target / one indexed output / a configure_file output / a generator list; alias / run target; subdirectory; outputs of one target that differ only in case, each with its own install_dir; install_subdir of a name with and without a trailing slash, with and without strip_directory',
                              symbolic='build_by_default x2, build_always_stale, install, the index into a multi-output target', varies=dim), labels=('done', 'installed') + (('generator', 'subdir') if dim == 'inputs' else ()), max_paths=2000000, path_timeout=300))
    out.append(Obligation('buildsystem-files', ob_buildsystem_files(), dict(real='Interpreter (subdir, subproject), get_build_def_files, mintro.list_buildsystem_files', guards='4 symbolic conditions: two subdirs (one with a nested subdir), one subproject'), labels=('done',)))
    return out
