import sys, time
sys.path.insert(0, __import__('os').path.dirname(__import__('os').path.abspath(__file__))); sys.path.insert(0, '/repo')
from sx import instr, core
from sx.values import *
from sx.core import choose, check, cover
instr.install()
from mesonbuild.utils.universal import Version
import z3

def ref_tokens(s):
    """maximal digit runs (as SymInt) and maximal ASCII letter runs (as strings)"""
    out = []; i = 0; cs = chars_of(s); n = len(cs)
    while i < n:
        if decide(c_isdigit(cs[i])):
            j = i
            while j < n and decide(c_isdigit(cs[j])): j += 1
            out.append(('n', sym_int_of_str(mkstr(cs[i:j])))); i = j
        elif decide(c_isalpha(cs[i])):
            j = i
            while j < n and decide(c_isalpha(cs[j])): j += 1
            out.append(('a', mkstr(cs[i:j]))); i = j
        else: i += 1
    return out

def ref_cmp(ta, tb):
    for (ka, va), (kb, vb) in zip(ta, tb):
        if ka != kb: return 1 if ka == 'n' else -1
        if bool(va < vb): return -1
        if bool(va > vb): return 1
    return (len(ta) > len(tb)) - (len(ta) < len(tb))

def harness(la, lb):
    def h():
        a = sym_str(la, 'a', 32, 126); b = sym_str(lb, 'b', 32, 126)
        A, B = Version(a), Version(b)
        got = -1 if bool(A < B) else (1 if bool(A > B) else 0)
        exp = ref_cmp(ref_tokens(a), ref_tokens(b))
        check(got == exp, 'order')
        check(bool(A == B) == (exp == 0), 'eq')
        cover('done')
    return h
if __name__ == '__main__':
    tot = 0; t0 = time.time(); nv = 0
    for la in range(0, 4):
        for lb in range(0, 4):
            st = core.explore(harness(la, lb), max_paths=40000)
            tot += st['paths']; nv += len(st['violations'])
            if st['violations'] or st['errors']:
                print(la, lb, st['violations'][:2], st['errors'][:2])
    print('paths', tot, 'viol', nv, 'time %.1f' % (time.time() - t0))
