import sys, time
sys.path.insert(0, __import__('os').path.dirname(__import__('os').path.abspath(__file__))); sys.path.insert(0, '/repo')
import p_c01
from p_c01 import *
from mesonbuild.ast.visitor import AstVisitor

def run2(code, nums, strs):
    ast = mparser.Parser(code, 'meson.build').parse()
    class V(AstVisitor):
        def visit_NumberNode(self, node):
            if node.value in nums: node.value = nums[node.value]
        def visit_StringNode(self, node):
            if node.value in strs: node.value = strs[node.value]
    ast.accept(V())
    it = Interpreter(build.Build(ENV), ast=ast, backend=None, user_defined_options=OPTS)
    it.run()
    return it

PROGS = [
 ("x = 'S1' + 'S2'\ny = x.to_upper()\nz = x.startswith('S1')\nw = 'S1' == 'S2'\n", lambda s1, s2, a, b: {'x': s1 + s2, 'z': True, 'w': s1 == s2}),
 ("l = ['S1', 'S2']\nx = 'S1' in l\ny = l[-1]\nn = l.length()\nj = '-'.join(l)\n", lambda s1, s2, a, b: {'x': True, 'y': s2, 'n': 2, 'j': s1 + '-' + s2}),
 ("d = {'S1': 1001}\nx = d.get('S2', 1002)\nk = d.keys()\n", lambda s1, s2, a, b: {}),
 ("t = 0\nforeach i : [1001, 1002, 3]\n if i == 1002\n  continue\n endif\n t += i\nendforeach\n", lambda s1, s2, a, b: {}),
 ("x = 1001 < 1002 ? 'S1' : 'S2'\ny = '@0@/@1@'.format('S1', 1001)\nz = f'a@x@b'\n", lambda s1, s2, a, b: {}),
 ("x = 1001.to_string()\ny = 'S1'.to_int()\n", lambda s1, s2, a, b: {}),
 ("a = [1001]\nb = a\nb += [1002]\nx = a.length()\ny = b.length()\n", lambda s1, s2, a, b: {'x': 1, 'y': 2}),
]
def harness(pi):
    def h():
        s1 = sym_str(1, 's1', alphabet='ab1'); s2 = sym_str(1, 's2', alphabet='ab1')
        a = sym_int('a', -9, 9); b = sym_int('b', -9, 9)
        code, expf = PROGS[pi]
        try:
            it = run2("project('p')\n" + code, {1001: a, 1002: b}, {'S1': s1, 'S2': s2})
        except MesonException as e:
            cover('meson-error'); return
        exp = expf(s1, s2, a, b)
        for k, v in exp.items():
            got = it.variables[k].held_object
            check(got == v, 'var ' + k)
        cover('ok')
    return h
if __name__ == '__main__':
    for pi in range(len(PROGS)):
        try:
            st = core.explore(harness(pi), max_paths=3000)
        except Exception as e:
            import traceback; traceback.print_exc(limit=6); continue
        print(pi, 'paths', st['paths'], 'viol', len(st['violations']), 'errors', len(st['errors']), st['labels'], 'time %.1f' % st['time'], st.get('truncated'), flush=True)
        for e in st['errors'][:3]: print('   ', e[:2])
        seen = set()
        for v in st['violations']:
            if v[0] in seen: continue
            seen.add(v[0]); print('   V', v[0], str(v[1]).replace('\n', ' ')[:300])
