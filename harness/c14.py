"""C14 - template substitution replaces exactly the placeholders."""
from symx.api import *

PROPERTY = 'C14'
LEVEL = 'other'
FILES = ['mesonbuild/utils/universal.py']
ENCODED = ['universal.get_variable_regex (regex interpreted from CPython\'s parse tree: look-ahead/behind, named groups, callback replacement)', 'do_replacement_meson',
           'do_replacement_cmake (index scanner)', 'do_define_meson', 'do_define_cmake', 'do_conf_str_meson', '_dump_c_header']
EXPLANATION = ('Symbolic execution of the real template scanners on one symbolic template line (every character symbolic over an alphabet containing @, backslash, $, '
               'braces, name characters, space, CR, LF) with symbolic configuration data (names, string values that may look like placeholders, integers, booleans); on '
               'every path the output, the set of missing names and the raised exception class are compared with an independent left-to-right reference scanner '
               'whose rules come from docs/markdown/Configuration.md and are pinned by test cases/common/14 configure file (config6.h.in).')
ASSUMPTIONS = ['template line length as stated; placeholders are local (the only long-range state is the backslash run)',
               'cmake formats: values contain no placeholder characters (what CMake does with such values is not specified by the property); nested ${${x}} is outside the reference',
               'configuration data with 1-2 entries; names of 1-2 characters', '#mesondefine with a string value: the defined text is itself subject to @VAR@ substitution (pinned behaviour)']
OUT = 'file encodings and newline handling of do_conf_file (I/O), configure_file() argument processing, lines longer than the bound, nested cmake ${${}}'
MANIFEST = dict(
    text='Bounded symbolic decision: for ALL template lines up to the stated length over the placeholder alphabet and all configuration data of the stated shape, output / missing '
         'names / error class equal an independent reference scanner; no rescan of substituted values in the meson format; header dump = exactly the keys, once, sorted; #mesondefine / #cmakedefine[01] lines through the real dispatchers with symbolic indentation and spacing; nested ${..@X@..} forms.',
    note='Trusted: symx engine (incl. its regex interpreter, validated natively on sampled paths), z3, the reference scanners. Bounds: line <=5 (quick) / 7 (thorough) characters, '
         'define lines with symbolic spacing, <=2 data entries.')

U = ME = None


def setup():
    global U, ME
    import mesonbuild.utils.universal as u
    from harness.common import quiet_mlog
    u.mlog = quiet_mlog()
    U, ME = u, u.MesonException


class CD:
    """stand-in for build.ConfigurationData: name -> (value, description)"""
    def __init__(self, pairs):
        if concrete():
            self.values = dict(pairs)
        else:
            from symx.instr import SymDict
            self.values = SymDict(pairs)
    def __contains__(self, k): return k in self.values
    def get(self, k): return self.values[k]
    def keys(self): return self.values.keys()


def isname(ch):
    return decide(bt_any((ch == '-') | (ch == '_'))) or decide(c_isalnum(chars_of(ch)[0])) if not isinstance(ch, str) else (ch.isalnum() and ch.isascii() or ch in '-_')


def nm(ch):
    c = chars_of(ch)[0]
    return decide(zor([c_isalnum(c), ceq(c, 45), ceq(c, 95)]))


def is_(ch, lit):
    return decide(bt_any(ch == lit))


def render(v):
    if isinstance(v, (bool, SymBool)): return 'True' if decide(bt_any(v)) else 'False'
    if isinstance(v, (int, SymInt)): return sym_str_of_int(v) if isinstance(v, SymInt) else str(v)
    return v


def lookup(conf_pairs, name):
    for k, v in conf_pairs:
        if len(k) == len(name) and decide(bt_any(k == name)): return True, v
    return False, None


def ref_meson(line, pairs):
    out = ''; i = 0; n = len(line); missing = []
    def scan(j):
        k = j
        while k < n and nm(line[k]): k += 1
        return k
    while i < n:
        ch = line[i]
        if is_(ch, '\\'):
            j = i
            while j < n and is_(line[j], '\\'): j += 1
            run = j - i
            if j < n and is_(line[j], '@'):
                out = out + '\\' * (run // 2)
                i += 2 * (run // 2)
                if run % 2:
                    k = scan(j + 1)
                    if k > j + 1 and k + 1 < n and is_(line[k], '\\') and is_(line[k + 1], '@'):
                        out = out + '@' + line[j + 1:k] + '@'; i = k + 2
                    else:
                        out = out + '\\'; i += 1
                continue
            out = out + line[i:j]; i = j; continue
        if is_(ch, '@') and not (i > 0 and is_(line[i - 1], '\\')):
            k = scan(i + 1)
            if k > i + 1 and k < n and is_(line[k], '@'):
                name = line[i + 1:k]
                found, v = lookup(pairs, name)
                if found: out = out + render(v)
                else: missing.append(name)
                i = k + 1; continue
        out = out + ch; i += 1
    return out, missing


def mk_conf(tag=''):
    key = sym_str(1, tag + 'k', alphabet='ab')
    vk = choose(3, tag + 'vkind')
    if vk == 0: val = sym_str(2, tag + 'v', alphabet='@ax\\')
    elif vk == 1: val = sym_int(tag + 'vi', -99, 99)
    else: val = sym_bool(tag + 'vb')
    return [(key, (val, None))]


def same_missing(got, exp, what):
    # got: set-like of names, exp: list (with duplicates)
    for e in exp:
        check(any(decide(bt_any(e == g)) for g in got if len(g) == len(e)), what + ': every undefined name is reported')
    for g in got:
        check(any(decide(bt_any(e == g)) for e in exp if len(g) == len(e)), what + ': only undefined names are reported')


def ob_meson(n, alphabet):
    def h():
        line = sym_str(n, 'l', alphabet=alphabet)
        pairs = mk_conf()
        conf = CD(pairs)
        rx = U.get_variable_regex('meson')
        got, miss = U.do_replacement_meson(rx, line, conf)
        exp, emiss = ref_meson(line, [(k, v[0]) for k, v in pairs])
        check(len(got) == len(exp), 'meson format: output length')
        if len(got) == len(exp): check(eq(got, exp), 'meson format: output text')
        same_missing(list(miss), emiss, 'meson format')
        cover('subst' if len(exp) != len(line) or not decide(bt_any(eq(exp, line))) else 'copy')
    return h


def ob_mesondefine():
    def h():
        ws = lambda t: [' ', '', '\t', '  '][choose(4, t)]
        name = sym_str(1 + choose(2, 'nl'), 'name', alphabet='ab_1')
        extra = ['', '', ' x', ' 1 2'][choose(4, 'extra')]
        eol = ['\n', '\r\n', ''][choose(3, 'eol')]
        line = ws('w0') + '#mesondefine' + [' ', '\t', '  '][choose(3, 'w1')] + name + extra + ws('w2') + eol
        key = sym_str(len(name), 'k', alphabet='ab_1')
        vk = choose(4, 'vkind')
        if vk == 0: val = sym_str(2, 'v', alphabet='@a ')
        elif vk == 1: val = sym_int('vi', -99, 99)
        elif vk == 2: val = sym_bool('vb')
        else: val = ''
        conf = CD([(key, (val, None))])
        rx = U.get_variable_regex('meson')
        try:
            got = U.do_define_meson(rx, line, conf)
        except ME:
            check(extra != '', 'MesonException only when #mesondefine does not have exactly two tokens'); cover('rejected'); return
        check(extra == '', 'a #mesondefine line with more than two tokens is rejected')
        if not decide(bt_any(key == name)):
            exp = '/* #undef ' + name + ' */\n'; cover('undef')
        elif vk in (0, 3):
            body = ('#define ' + name + ' ' + val).strip() if False else None
            txt = '#define ' + name + ' ' + val
            txt = txt.strip() + '\n'
            exp, _ = ref_meson(txt, [(key, val)]); cover('string')
        elif vk == 2:
            exp = ('#define ' + name + '\n') if decide(bt_any(val)) else ('#undef ' + name + '\n'); cover('bool')
        else:
            exp = '#define ' + name + ' ' + render(val) + '\n'; cover('int')
        check(len(got) == len(exp), 'mesondefine: output length')
        if len(got) == len(exp): check(eq(got, exp), 'mesondefine: output text')
    return h


VALID = 'abcdefghijklmnopqrstuvwxyzABCDEFGHIJKLMNOPQRSTUVWXYZ0123456789_/.+-'


def okname(s):
    return all(decide(c_in(c, VALID)) for c in chars_of(s))


class Outside(Exception):
    pass


def ref_cmake(line, pairs, at_only):
    """left-to-right; -> (text, missing) or raises ME-equivalent ValueError; Outside for nested forms"""
    out = ''; i = 0; n = len(line); missing = []
    while i < n:
        ch = line[i]
        if is_(ch, '@'):
            j = i + 1
            while j < n and not is_(line[j], '@'): j += 1
            if j < n and j > i + 1 and okname(line[i + 1:j]):
                name = line[i + 1:j]
                found, v = lookup(pairs, name)
                if found: out = out + render_cmake(v)
                else: missing.append(name)
                i = j + 1; continue
        elif not at_only and is_(ch, '$') and i + 1 < n and is_(line[i + 1], '{'):
            # ${...}: the text up to the MATCHING brace is itself expanded first (nested ${..} and @..@), the result is the variable name
            j = i + 2; depth = 1
            while depth > 0:
                if j >= n: raise ValueError('incomplete variable')
                if j + 1 < n and is_(line[j], '$') and is_(line[j + 1], '{'): depth += 1; j += 2; continue
                if is_(line[j], '}'): depth -= 1; j += 1; continue
                if is_(line[j], '@') or is_(line[j], '\n'): j += 1; continue
                if not decide(c_in(chars_of(line[j])[0], VALID)): raise ValueError('invalid character')
                j += 1
            name, inner_missing = ref_cmake(line[i + 2:j - 1], pairs, at_only)
            missing.extend(inner_missing)
            if not okname(name) and len(name): raise ValueError('invalid character in the expanded name')
            found, v = lookup(pairs, name)
            if found: out = out + render_cmake(v)
            else: missing.append(name)
            i = j; continue
        out = out + ch; i += 1
    return out, missing


def render_cmake(v):
    if isinstance(v, (bool, SymBool)): return '1' if decide(bt_any(v)) else '0'
    if isinstance(v, (int, SymInt)): return sym_str_of_int(v) if isinstance(v, SymInt) else str(v)
    return v


def ob_cmake(n, at_only):
    def h():
        line = sym_str(n, 'l', alphabet='@${}aB .\xe9')          # e-acute: a letter for Unicode-aware classes, not a cmake name character
        key = sym_str(1, 'k', alphabet='aB')
        vk = choose(4, 'vkind')
        val = [None, None, None, ''][vk]
        if vk == 0: val = sym_str(1 + choose(2, 'vlen'), 'v', alphabet='xy')
        elif vk == 1: val = sym_int('vi', -9, 9)
        elif vk == 2: val = sym_bool('vb')
        conf = CD([(key, (val, None))])
        try:
            exp, emiss = ref_cmake(line, [(key, val)], at_only); rej = False
        except Outside:
            cover('outside-reference'); return
        except ValueError:
            rej = True
        try:
            got, miss = U.do_replacement_cmake(line, at_only, conf)
        except ME:
            check(rej, 'MesonException only for an invalid or incomplete ${...}'); cover('rejected'); return
        check(not rej, 'an invalid or incomplete ${...} is rejected')
        if rej: return
        check(len(got) == len(exp), 'cmake format: output length')
        if len(got) == len(exp): check(eq(got, exp), 'cmake format: output text')
        same_missing(list(miss), emiss, 'cmake format')
        cover('done')
    return h


def classify_cmakedefine(label, inputs):
    d = {n: v for k, n, v in inputs}
    if label.startswith('cmakedefine: output') and d.get('extra') == 4 and d.get('is01') == 0 and d.get('name') in ('1', '2') and d.get('k') == d.get('name'):
        return 'a bare token equal to a data key on a #cmakedefine line is replaced by the value'
    return label


def ob_cmakedefine(at_only):
    """#cmakedefine / #cmakedefine01 lines through the real dispatcher do_conf_str_cmake: whatever the indentation and the whitespace after '#'"""
    def h():
        ws0 = ['', ' ', '\t', '  '][choose(4, 'w0')]
        ws1 = ['', ' ', '\t'][choose(3, 'w1')]
        is01 = choose(2, 'is01') == 1
        name = sym_str(1 + choose(2, 'nl'), 'name', alphabet='ab_1')
        ek = choose(5, 'extra')
        ph = ('@' + name + '@') if at_only else ('${' + name + '}')
        extra = [[], ['x'], [ph], ['x', ph, 'y'], ['1', '2']][ek]
        eol = ['\n', '\r\n', ''][choose(3, 'eol')]
        line = ws0 + '#' + ws1 + 'cmakedefine' + ('01' if is01 else '') + [' ', '\t', '  '][choose(3, 'w2')] + name
        for e in extra: line = line + ' ' + e
        line = line + ['', ' '][choose(2, 'w3')] + eol
        key = sym_str(len(name), 'k', alphabet='ab_1')
        vk = choose(4, 'vkind')
        if vk == 0: val = sym_str(choose(3, 'vl'), 'v', alphabet='x0 ')
        elif vk == 1: val = sym_int('vi', -9, 9)
        elif vk == 2: val = sym_bool('vb')
        else: val = ''
        conf = CD([(key, (val, None))])
        res, miss, useless = U.do_conf_str_cmake('src', [line], conf, at_only)
        check(len(res) == 1, 'one output line per input line')
        got = res[0]
        defined = decide(bt_any(key == name))
        if vk in (0, 3): truthy = len(val) > 0
        elif vk == 1: truthy = decide(bt_any(val != 0))
        else: truthy = decide(bt_any(val))
        if is01:
            exp = '#define ' + name + ' ' + ('1' if (defined and truthy) else '0') + '\n'; cover('01')
        elif not defined or not truthy:
            exp = '/* #undef ' + name + ' */\n'; cover('undef')
        else:
            txt = '#define ' + name
            for e in extra: txt = txt + ' ' + e
            exp, _ = ref_cmake(txt + '\n', [(key, val)], at_only); cover('define')
        check(len(got) == len(exp), 'cmakedefine: output length')
        if len(got) == len(exp): check(eq(got, exp), 'cmakedefine: output text')
    return h


class Rec:
    def __init__(self): self.parts = []
    def write(self, s): self.parts.append(s)
    def text(self):
        o = ''
        for p in self.parts: o = o + p
        return o


def ob_header(n):
    def h():
        keys = [sym_str(1, 'k%d' % i, alphabet='abcXY_') for i in range(n)]
        for i in range(n):
            for j in range(i): assume(sym_not(keys[i] == keys[j]))
        pairs = []
        for i, k in enumerate(keys):
            vk = choose(3, 'vk%d' % i)
            v = sym_str(1, 'v%d' % i, alphabet='ab1') if vk == 0 else (sym_int('i%d' % i, -9, 9) if vk == 1 else sym_bool('b%d' % i))
            pairs.append((k, (v, None)))
        conf = CD(pairs)
        o = Rec()
        U._dump_c_header(o, conf, 'c', None)
        text = o.text()
        body = text[len(U.CONF_C_PRELUDE.format('#pragma once')):]
        # reference: sorted keys, one define/undef each
        ks = list(pairs)
        for i in range(len(ks)):
            for j in range(len(ks) - 1 - i):
                if decide(bt_any(ks[j + 1][0] < ks[j][0])): ks[j], ks[j + 1] = ks[j + 1], ks[j]
        exp = ''
        for k, (v, _) in ks:
            if isinstance(v, (bool, SymBool)):
                exp = exp + ('#define ' + k + '\n\n' if decide(bt_any(v)) else '#undef ' + k + '\n\n')
            else:
                exp = exp + '#define ' + k + ' ' + render(v) + '\n\n'
        check(len(body) == len(exp), 'header: length')
        if len(body) == len(exp): check(eq(body, exp), 'header defines exactly the keys, once each, sorted')
        cover('done')
    return h


def ob_two_templates():
    """"reports every undefined name" across TWO templates processed one after the other (two configure_file() calls of one configuration), in each of the three
    formats: what is reported for the second template is exactly ITS undefined names - nothing remembered from the first -, also when a #mesondefine /
    #cmakedefine value of the first one spells a placeholder"""
    def h():
        fmt = ['meson', 'cmake', 'cmake@'][choose(3, 'format')]
        u = sym_str(1, 'undefined_name', alphabet='XYZ')
        k = 'K'
        ph = (lambda n: '@' + n + '@') if fmt != 'cmake' else (lambda n: '${' + n + '}')
        first = [['a ' + ph(u) + '\n'], ['#mesondefine D\n' if fmt == 'meson' else '#cmakedefine D ' + ph(u) + '\n', 'b\n'], ['plain\n']][choose(3, 'first template')]
        conf1 = CD([(k, ('v', None)), ('D', (ph(u) if fmt == 'meson' else 'x', None))])
        U.do_conf_str('t1', list(first), conf1, fmt)
        second_undef = choose(2, 'second template has an undefined name of its own') == 1
        w = sym_str(1, 'second_name', alphabet='WX')
        second = ['c ' + ph(k) + '\n'] + (['d ' + ph(w) + '\n'] if second_undef else [])
        res, miss, useless = U.do_conf_str('t2', list(second), CD([(k, ('v', None))]), fmt)
        exp = [w] if second_undef else []
        got = list(miss)
        check(len(got) == len(exp) and all(decide(bt_any(eq(a, b))) for a, b in zip(got, exp)), 'the second template reports exactly its own undefined names')
        check(len(res) == len(second) and decide(bt_any(eq(res[0], 'c v\n'))), 'the second template is substituted as if it were the only one')
        cover('done')
    return h


def _directive_lines(text, fmt):
    """what a C preprocessor / nasm sees of a generated header: comments removed (C: /* ... */; nasm: from ';' to the end of the line), blank lines dropped"""
    cs = chars_of(text); out = []; cur = []; i = 0; n = len(cs); in_c = False
    while i < n:
        c = cs[i]
        if fmt == 'c':
            if in_c:
                if i + 1 < n and decide(ceq(c, 42)) and decide(ceq(cs[i + 1], 47)): in_c = False; i += 2; continue
                i += 1; continue
            if i + 1 < n and decide(ceq(c, 47)) and decide(ceq(cs[i + 1], 42)): in_c = True; i += 2; continue
        else:
            if decide(ceq(c, 59)):
                while i < n and not decide(ceq(cs[i], 10)): i += 1
                continue
        if decide(ceq(c, 10)):
            if cur: out.append(mkstr(cur))
            cur = []
        else:
            cur.append(c)
        i += 1
    check(not in_c, 'header: every comment is closed')
    if cur: out.append(mkstr(cur))
    return out


def ob_header_desc(full):
    """the header generated WITHOUT a template, in both formats, with optional descriptions (0-3 characters incl. line breaks) and an optional include guard:
    after comment removal exactly one directive per key remains, in sorted order - a description never becomes live text"""
    def h():
        fmt = ['c', 'nasm'][choose(2, 'fmt')]
        macro = [None, 'GUARD_H'][choose(2, 'macro')] if fmt == 'c' else None
        n = 1 + choose(2, 'n')
        keys = [sym_str(1, 'k%d' % i, alphabet='abX_') for i in range(n)]
        for i in range(n):
            for j in range(i): assume(sym_not(keys[i] == keys[j]))
        pairs = []
        for i, k in enumerate(keys):
            vk = choose(3, 'vk%d' % i)
            v = sym_str(1, 'v%d' % i, alphabet='ab1') if vk == 0 else (sym_int('i%d' % i, -9, 9) if vk == 1 else sym_bool('b%d' % i))
            if full:
                dl = choose(5, 'dl%d' % i)
                desc = None if dl == 4 else sym_str(dl, 'd%d' % i, alphabet='a %#\n\r')
            else:
                dl = choose(4 if n == 1 else 2, 'dl%d' % i)
                desc = None if dl == 0 else sym_str([0, 2, 0, 3][dl] if n == 1 else 2, 'd%d' % i, alphabet='a%\n\r')
            pairs.append((k, (v, desc)))
        conf = CD(pairs)
        o = Rec()
        U._dump_c_header(o, conf, fmt, macro)
        text = o.text()
        prelude = U.CONF_NASM_PRELUDE if fmt == 'nasm' else U.CONF_C_PRELUDE.format('#pragma once' if macro is None else '#ifndef {0}\n#define {0}'.format(macro))
        check(len(text) >= len(prelude), 'header: starts with the prelude')
        body = text[len(prelude):]
        if macro is not None:
            check(body.endswith('#endif\n'), 'header: include guard closed'); body = body[:len(body) - 7]
        got = _directive_lines(body, fmt)
        ks = list(pairs)
        for i in range(len(ks)):
            for j in range(len(ks) - 1 - i):
                if decide(bt_any(ks[j + 1][0] < ks[j][0])): ks[j], ks[j + 1] = ks[j + 1], ks[j]
        pre = '#' if fmt == 'c' else '%'
        exp = []
        for k, (v, _) in ks:
            if isinstance(v, (bool, SymBool)): exp.append(pre + 'define ' + k if decide(bt_any(v)) else pre + 'undef ' + k)
            else: exp.append(pre + 'define ' + k + ' ' + render(v))
        check(len(got) == len(exp), 'header: one directive per key and nothing else is live text')
        if len(got) == len(exp):
            for g, e in zip(got, exp):
                g2 = g.rstrip('\r ') if hasattr(g, 'rstrip') else g
                check(len(g2) == len(e) and eq(g2, e), 'header defines exactly the keys, once each, sorted')
        cover('done'); cover(fmt)
    return h


def obligations(tier):
    q = tier == 'quick'
    A = '@\\ab-$ \r\n\u00e9'      # \u00e9: a non-ASCII letter - placeholder names are ASCII only, whatever \\w or str.isalnum() think
    out = []
    for n in range(1, 7 if q else 9):
        out.append(Obligation('meson-line[%d]' % n, ob_meson(n, A if n <= 5 else '@\\a $'), dict(length=n, alphabet=A if n <= 5 else '@\\a $', data='1 entry: str(2 over @ax\\)|int|bool'),
                              labels=('subst', 'copy') if n >= 3 else ('copy',), max_paths=5000000))
    out.append(Obligation('mesondefine', ob_mesondefine(), dict(spacing='symbolic', name='1-2 chars', extra_tokens='0-2', eol='LF|CRLF|none'),
                          labels=('undef', 'string', 'bool', 'int', 'rejected'), max_paths=3000000))
    for at_only in (False, True):
        for n in range(1, 8 if q else 9):
            out.append(Obligation('cmake%s-line[%d]' % ('@' if at_only else '', n), ob_cmake(n, at_only), dict(length=n, alphabet='@${}aB . e-acute', at_only=at_only),
                                  labels=('done',), max_paths=5000000))
    for at_only in (False, True):
        out.append(Obligation('cmakedefine%s' % ('@' if at_only else ''), ob_cmakedefine(at_only), dict(indentation='none|space|tab|2 spaces', after_hash='none|space|tab', variant='cmakedefine|cmakedefine01',
                              name='1-2 chars', extra_tokens='0-3 incl. a placeholder of the name', value='str <=2 | int | bool | empty | undefined', eol='LF|CRLF|none'),
                              labels=('01', 'undef', 'define'), max_paths=3000000, classify=classify_cmakedefine))
    out.append(Obligation('two-templates', ob_two_templates(), dict(real='do_conf_str (meson | cmake | cmake@) twice in a row', first='an undefined placeholder | a define whose value spells a placeholder | plain text', second='a defined placeholder, optionally an undefined one of its own'), labels=('done',)))
    for n in (1, 2) if q else (1, 2, 3):
        out.append(Obligation('header[%d]' % n, ob_header(n), dict(entries=n), labels=('done',), max_paths=3000000))
    out.append(Obligation('header-descriptions', ob_header_desc(not q), dict(format='c | nasm', include_guard='absent | present (c)', entries='1-2', description='absent | 0-3 characters over {a, space, %, #, LF, CR}' if not q else 'absent | 0, 2, 3 characters (one entry) / 2 characters (two entries) over {a, %, LF, CR}',
                          value='str(1) | int | bool'), labels=('done', 'c', 'nasm'), max_paths=3000000))
    return out
