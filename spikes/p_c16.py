import sys, time
sys.path.insert(0, __import__('os').path.dirname(__import__('os').path.abspath(__file__))); sys.path.insert(0, '/repo')
from sx import instr, core
from sx.values import *
from sx.core import choose, check, cover
instr.install()
from pathlib import Path
from mesonbuild import mparser, mformat
from mesonbuild.mformat import Formatter, FormatterConfig
from mesonbuild.mesonlib import MesonException
import z3

PROGS = [
 "x = f(a, b, c: 1) # c\n",
 "foo = files(['b.c',\n  'a.c'])\nif x\n  y = [1,2,\n 3]\nendif\n",
 "e = executable('n', 'a.c', 'b.c', install : true, d: {'k': 1, 'j' :2},)\n",
]

def harness(pi):
    def h():
        cfg = FormatterConfig(
            max_line_length=sym_int('mll', 0, 40),
            indent_by=' ' * (1 + choose(3, 'ind')),
            space_array=sym_bool('sa'), kwargs_force_multiline=sym_bool('kfm'), wide_colon=sym_bool('wc'),
            no_single_comma_function=sym_bool('nscf'), end_of_line='lf', indent_before_comments=' ',
            simplify_string_literals=sym_bool('ssl'), insert_final_newline=sym_bool('ifn'), tab_width=sym_int('tw', 1, 8),
            sort_files=sym_bool('sf'), group_arg_value=sym_bool('gav'), use_editor_config=False)
        f = object.__new__(Formatter)
        f.use_editor_config = False; f.fetch_subdirs = False; f.config = cfg
        src = PROGS[pi]
        out = f.format(src, Path('/x/meson.build'))
        out2 = f.format(out, Path('/x/meson.build'))
        check(out == out2, 'idempotent')
        cover('done')
    return h

if __name__ == '__main__':
    for pi in range(len(PROGS)):
        st = core.explore(harness(pi), max_paths=3000)
        print(pi, 'paths', st['paths'], 'checks', st['checks'], 'viol', len(st['violations']), 'errors', len(st['errors']), st['labels'], 'time %.1f' % st['time'], st.get('truncated'), flush=True)
        for e in st['errors'][:3]: print('   ', e[:2])
        for v in st['violations'][:2]: print('   V', v[0], v[1])
