import sys, os, argparse


def main():
    ap = argparse.ArgumentParser(prog='check')
    ap.add_argument('property')
    ap.add_argument('--tier', default=os.environ.get('VERIF_TIER') or 'quick', choices=['quick', 'thorough'])
    ap.add_argument('--replay')
    ap.add_argument('--only', action='append')
    a = ap.parse_args()
    mod = a.property.lower()
    if a.replay:
        from .driver import VENV_PY, VERIF, REPO
        env = dict(os.environ, PYTHONPATH=VERIF + os.pathsep + REPO, PYTHONDONTWRITEBYTECODE='1')
        os.execve(VENV_PY, [VENV_PY, '-m', 'symx.replay', a.replay], env)
    from .driver import run_property
    sys.setrecursionlimit(20000)
    rc = run_property(mod, a.tier, only=a.only)
    sys.stdout.flush()
    os._exit(rc)


if __name__ == '__main__':
    main()
