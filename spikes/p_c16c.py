import sys, time, re
sys.path.insert(0, __import__('os').path.dirname(__import__('os').path.abspath(__file__))); sys.path.insert(0, '/repo')
from p_c16 import *
from p_c16b import PROGS2
from mesonbuild import mparser as mp

def norm(n, sortfiles=False):
    if isinstance(n, mp.ParenthesizedNode): return norm(n.inner, sortfiles)
    if isinstance(n, mp.CodeBlockNode): return ('block', tuple(norm(x, sortfiles) for x in n.lines))
    if isinstance(n, mp.StringNode): return ('str', n.value, n.is_fstring)
    if isinstance(n, mp.NumberNode): return ('num', n.value)
    if isinstance(n, mp.BooleanNode): return ('bool', n.value)
    if isinstance(n, mp.IdNode): return ('id', n.value)
    if isinstance(n, mp.ArgumentNode):
        return ('args', tuple(norm(x, sortfiles) for x in n.arguments), tuple((norm(k, sortfiles), norm(v, sortfiles)) for k, v in n.kwargs.items()))
    if isinstance(n, mp.ArrayNode): return ('array', norm(n.args, sortfiles))
    if isinstance(n, mp.DictNode): return ('dict', norm(n.args, sortfiles))
    if isinstance(n, mp.FunctionNode):
        a = norm(n.args, sortfiles)
        if n.func_name.value == 'files':
            # documented: files([..]) flattened; optionally sorted
            pos = []
            for x in a[1]:
                if x[0] == 'array': pos.extend(x[1][1])
                else: pos.append(x)
            if sortfiles: pos = sorted(pos, key=repr)
            a = ('args', tuple(pos), a[2])
        return ('call', n.func_name.value, a)
    if isinstance(n, mp.MethodNode): return ('method', norm(n.source_object, sortfiles), n.name.value, norm(n.args, sortfiles))
    if isinstance(n, mp.IndexNode): return ('index', norm(n.iobject, sortfiles), norm(n.index, sortfiles))
    if isinstance(n, mp.ComparisonNode): return ('cmp', n.ctype, norm(n.left, sortfiles), norm(n.right, sortfiles))
    if isinstance(n, mp.ArithmeticNode): return ('arith', n.operation, norm(n.left, sortfiles), norm(n.right, sortfiles))
    if isinstance(n, mp.OrNode): return ('or', norm(n.left, sortfiles), norm(n.right, sortfiles))
    if isinstance(n, mp.AndNode): return ('and', norm(n.left, sortfiles), norm(n.right, sortfiles))
    if isinstance(n, mp.NotNode): return ('not', norm(n.value, sortfiles))
    if isinstance(n, mp.UMinusNode): return ('neg', norm(n.value, sortfiles))
    if isinstance(n, mp.PlusAssignmentNode): return ('pluseq', n.var_name.value, norm(n.value, sortfiles))
    if isinstance(n, mp.AssignmentNode): return ('assign', n.var_name.value, norm(n.value, sortfiles))
    if isinstance(n, mp.TernaryNode): return ('tern', norm(n.condition, sortfiles), norm(n.trueblock, sortfiles), norm(n.falseblock, sortfiles))
    if isinstance(n, mp.ForeachClauseNode): return ('foreach', tuple(v.value for v in n.varnames), norm(n.items, sortfiles), norm(n.block, sortfiles))
    if isinstance(n, mp.IfClauseNode): return ('if', tuple((norm(i.condition, sortfiles), norm(i.block, sortfiles)) for i in n.ifs), None if isinstance(n.elseblock, mp.EmptyNode) else norm(n.elseblock.block, sortfiles))
    if isinstance(n, mp.ContinueNode): return ('continue',)
    if isinstance(n, mp.BreakNode): return ('break',)
    if isinstance(n, mp.EmptyNode): return ('empty',)
    raise TypeError(type(n))

MORE = [
 "x = files(['b.c', 'a.c'], 'c.c')\n",
 "x = '''a'b'''\ny = '''a\\nb'''\nz = '''a\\\\'''\n",
 "x = f'''a@b@'''\n",
 "if not (a and b) or c\n x = -(1 + 2) * 3\nendif\n",
 "x = [1, [2, 3], {'a': [4]}]\n",
 "x = '''multi\nline'''\n",
]
def harness3(src):
    def h():
        sf = sym_bool('sf')
        cfg = FormatterConfig(
            max_line_length=sym_int('mll', 0, 40),
            indent_by=' ' * (1 + choose(3, 'ind')),
            space_array=sym_bool('sa'), kwargs_force_multiline=sym_bool('kfm'), wide_colon=sym_bool('wc'),
            no_single_comma_function=sym_bool('nscf'), end_of_line='lf', indent_before_comments=' ',
            simplify_string_literals=sym_bool('ssl'), insert_final_newline=sym_bool('ifn'), tab_width=sym_int('tw', 1, 8),
            sort_files=sf, group_arg_value=sym_bool('gav'), use_editor_config=False)
        f = object.__new__(Formatter)
        f.use_editor_config = False; f.fetch_subdirs = False; f.config = cfg
        out = f.format(src, Path('/x/meson.build'))
        if not isinstance(out, str):
            cover('symbolic-output'); return
        sfv = bool(sf)
        a = norm(mp.Parser(src, 'f').parse(), sfv)
        try:
            b = norm(mp.Parser(out, 'f').parse(), sfv)
        except MesonException:
            check(False, 'output does not parse'); return
        check(a == b, 'same program: %r' % (out,))
        cover('done')
    return h
if __name__ == '__main__':
    for i, src in enumerate(PROGS2 + MORE):
        try:
            st = core.explore(harness3(src), max_paths=4000)
        except Exception as e:
            import traceback; traceback.print_exc(limit=4); continue
        print(i, repr(src), 'paths', st['paths'], 'viol', len(st['violations']), 'errors', len(st['errors']), st['labels'], 'time %.1f' % st['time'], flush=True)
        for e in st['errors'][:1]: print('   ', e[:2])
        seen = set()
        for v in st['violations']:
            if v[0] in seen: continue
            seen.add(v[0]); print('   V', v[0][:300])
