"""native side: run recorded input vectors through a harness in concrete mode, on the un-instrumented
tree, under the repository's own interpreter.  Needs neither z3 nor the instrumentation."""
import sys, os, json, importlib


def find_obligation(mod, name, tier):
    tiers = [tier] + [t for t in ('quick', 'thorough') if t != tier]
    for t in tiers:
        for o in mod.obligations(t):
            if o.name == name:
                return o
    raise SystemExit('no obligation %r in harness %s' % (name, mod.__name__))


def run_batch(path):
    from . import core
    d = json.load(open(path))
    mod = importlib.import_module('harness.' + d['harness'])
    mod.setup()
    obl = find_obligation(mod, d['obligation'], d.get('tier', 'quick'))
    sys.setrecursionlimit(20000)
    from .modstate import snapshot_module_globals, restore_module_globals
    snapshot_module_globals()
    outs = []
    for vec in d['vectors']:
        restore_module_globals()
        outs.append(core.run_concrete(obl.fn, vec))
    return d, outs


def main(argv):
    if argv[0] == '--batch':
        d, outs = run_batch(argv[1])
        real = sys.__stdout__
        real.write(json.dumps(outs))
        return 0
    # single replay file written for a VIOLATION line
    d = json.load(open(argv[0]))
    from . import core
    mod = importlib.import_module('harness.' + d['harness'])
    mod.setup()
    obl = find_obligation(mod, d['obligation'], d.get('tier', 'quick'))
    out = core.run_concrete(obl.fn, d['inputs'])
    print('replay of %s / %s on the un-instrumented tree' % (d['property'], d['obligation']))
    print('inputs: %s' % json.dumps(d['inputs']))
    if d.get('description'):
        print('witness: %s' % d['description'])
    print('outcome: %s %s' % (out['status'], out.get('failed') or out.get('exc') or ''))
    if out.get('tb'):
        print(out['tb'])
    bad = out['status'] in ('check-failed', 'exception')
    print('REPRODUCED' if bad else 'not reproduced')
    return 1 if bad else 0


if __name__ == '__main__':
    # keep stdout clean for the JSON result: anything the code under test prints goes to stderr
    sys.stdout = sys.stderr if sys.argv[1:2] == ['--batch'] else sys.stdout
    sys.exit(main(sys.argv[1:]))
