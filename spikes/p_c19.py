import sys, time
sys.path.insert(0, __import__('os').path.dirname(__import__('os').path.abspath(__file__))); sys.path.insert(0, '/repo')
from sx import instr, core
from sx.values import *
instr.install()
from mesonbuild.utils.universal import Version, version_compare, Range, version_check_to_range
import z3

def pair(la, lb):
    def h():
        a = sym_str(la, 'a', 32, 126); b = sym_str(lb, 'b', 32, 126)
        A, B = Version(a), Version(b)
        lt, eq, gt = bool(A < B), bool(A == B), bool(A > B)
        le, ge = bool(A <= B), bool(A >= B)
        core.check((int(lt) + int(eq) + int(gt) == 1) and le == (lt or eq) and ge == (gt or eq) and lt == bool(B > A), 'order')
    return h

tot = 0; t0 = time.time()
for la in range(0, 4):
    for lb in range(0, 4):
        st = core.explore(pair(la, lb))
        tot += st['paths']
        assert not st['violations'] and not st['errors'], st
print('pairs<=3: paths', tot, 'time %.1f' % (time.time() - t0))

# version_compare with a symbolic operator string
def vc(lop, la, lb):
    def h():
        op = sym_str(lop, 'op', alphabet='<>=! ')
        a = sym_str(la, 'a', alphabet='019.a'); b = sym_str(lb, 'b', alphabet='019.a')
        r = version_compare(a, op + b)
        core.cover('ran')
    return h
t0 = time.time(); tot = 0
for lop in range(0, 3):
    st = core.explore(vc(lop, 2, 2)); tot += st['paths']
    assert not st['errors'], st['errors'][:2]
print('version_compare op<=2: paths', tot, 'time %.1f' % (time.time() - t0))
