#!/bin/sh
# usage: tools/seed_try.sh <name e.g. C19a> [check args...]   -- verifies a seeded change and runs the check against it
# 1. in the agent's worktree: pinned tests pass with the change, demo fails with / passes without
# 2. run ./check <ID> against that worktree (SYMX_REPO), undo
set -u
N=$1; shift
ID=$(echo $N | cut -c1-3)
WT=/tmp/wt/$N; OUT=/tmp/wt/$N-out
[ -f $OUT/patch.diff ] || { echo "no patch"; exit 2; }
cd $WT || exit 2
git checkout -q -- . ; git clean -fdq
# the agent worktrees were created before the fix: commits; bring them to /repo's HEAD
git checkout -q --detach $(git -C /repo rev-parse HEAD) 2>/dev/null
cp $OUT/demo.py /tmp/wt/demo_$N.py
echo "== demo without change"; (cd $WT && cp /tmp/wt/demo_$N.py demo.py && timeout 300 /venv/bin/python demo.py >/tmp/wt/$N.demo0.log 2>&1; echo "exit $?"); 
git apply $OUT/patch.diff || { echo "patch does not apply to current HEAD"; exit 2; }
echo "== tests with change"; timeout 900 /venv/bin/python -m pytest -q -p no:cacheprovider --timeout=900 unittests/cargotests.py unittests/optiontests.py unittests/taptests.py unittests/versiontests.py 2>&1 | tail -1
echo "== demo with change"; (timeout 300 /venv/bin/python demo.py >/tmp/wt/$N.demo1.log 2>&1; echo "exit $?"); tail -2 /tmp/wt/$N.demo1.log
rm -f demo.py
cd /verif
# the checks run against the agent's scratch worktree (patch applied, at /repo's HEAD) through SYMX_REPO: /repo itself is never touched,
# so a background `vp check` / thorough run on /repo is not disturbed
echo "== check on the seeded tree ($WT)"
SYMX_REPO=$WT SYMX_EVIDENCE_DIR=/tmp/wt/evidence-seeded ./check $ID "$@" > /tmp/wt/$N.check.log 2>&1; echo "check exit $?"
git -C $WT checkout -q -- .
grep -E "^VIOLATION|^INCONCLUSIVE|^KNOWN|holds within" /tmp/wt/$N.check.log | cut -c1-400 | head -8
