import sys, asyncio, argparse, itertools
sys.path.insert(0, '/repo')
from mesonbuild import mtest
from mesonbuild.mtest import TestHarness, TestResult

class FakeRes:
    def __init__(self, res): self.res = res
class FakeRunner:
    def __init__(self, name, parallel):
        self.visible_name = name; self.is_parallel = parallel; self.fut = None
        self.started = 0; self.done = False
    async def run(self, harness):
        self.started += 1
        LOG.append(('start', self.visible_name))
        RUNNING.add(self.visible_name)
        check()
        self.fut = asyncio.get_running_loop().create_future()
        await self.fut
        RUNNING.discard(self.visible_name)
        LOG.append(('end', self.visible_name))
        self.done = True
        return FakeRes(TestResult.OK)

def check():
    assert len(RUNNING) <= NPROC, ('jobs', RUNNING)
    serial = [r for r in RUNNERS if not r.is_parallel and r.visible_name in RUNNING]
    if serial: assert len(RUNNING) == 1, ('serial overlap', RUNNING)

def explore(flags, nproc, choice_seq):
    global LOG, RUNNING, RUNNERS, NPROC
    LOG = []; RUNNING = set(); NPROC = nproc
    RUNNERS = [FakeRunner('t%d' % i, p) for i, p in enumerate(flags)]
    h = object.__new__(TestHarness)
    h.options = argparse.Namespace(num_processes=nproc, repeat=1, maxfail=0)
    h.loggers = []; h.fail_count = 0; h.maxfail_reached = False
    for a in ('timeout_count','skip_count','ignored_count','success_count','expectedfail_count','unexpectedpass_count'): setattr(h, a, 0)
    h.collected_failures = []
    loop = asyncio.new_event_loop(); asyncio.set_event_loop(loop)
    task = loop.create_task(h._run_tests(RUNNERS))
    choices = iter(choice_seq); nchoices = []
    while not task.done():
        # run until idle
        for _ in range(50):
            loop.call_soon(loop.stop); loop.run_forever()
        if task.done(): break
        pend = [r for r in RUNNERS if r.fut is not None and not r.fut.done()]
        assert pend, 'deadlock'
        k = next(choices, 0) % len(pend)
        nchoices.append(len(pend))
        pend[k].fut.set_result(None)
    task.result()
    loop.close()
    assert all(r.started == 1 for r in RUNNERS), [r.started for r in RUNNERS]
    return nchoices

n = 0
for flags in itertools.product([True, False], repeat=4):
    for nproc in (1, 2, 3):
        for seq in itertools.product(range(3), repeat=4):
            explore(flags, nproc, seq); n += 1
print('explored', n, 'ok')
