import sys, time
sys.path.insert(0, __import__('os').path.dirname(__import__('os').path.abspath(__file__))); sys.path.insert(0, '/repo')
from sx import instr, core
from sx.values import *
from sx.core import choose, check, cover
instr.install()
from mesonbuild.compilers.mixins.clike import CLikeCompilerArgs
from mesonbuild.arglist import Dedup
import z3

PREFIXES = ['-I', '-L', '-D', '-isystem', '-l', '-f']
def mkarg():
    k = choose(len(PREFIXES) + 1, 'kind')
    if k == len(PREFIXES): return '-pthread'
    return PREFIXES[k] + sym_str(1, 't', alphabet='ab')

# eager reference
def kind(a):
    if a.startswith(('-I', '-L')): return 'pre'
    if a.startswith(('-D', '-U', '-isystem')): return 'post'
    if a.startswith('-l') or a == '-pthread': return 'uniq'
    return 'none'

class Ref:
    def __init__(self): self.l = []
    def iadd(self, batch):
        pre = []; post = []
        for a in batch:
            k = kind(a)
            if k == 'uniq' and (a in self.l or a in pre or a in post): continue
            if k == 'pre': pre.append(a)
            else: post.append(a)
        # overrides: pre keeps first occurrence, post keeps last; both drop older copies
        npre = []
        for a in pre:
            if a not in npre: npre.append(a)
        npost = []
        for a in reversed(post):
            if kind(a) == 'post' and a in npost: continue
            npost.insert(0, a)
        ov = [a for a in npre + npost if kind(a) in ('pre', 'post')]
        mid = [a for a in self.l if a not in ov]
        self.l = npre + mid + npost

def harness(nops, batch=1):
    def h():
        real = CLikeCompilerArgs(object(), [])
        ref = Ref()
        for i in range(nops):
            b = [mkarg() for _ in range(batch)]
            real += list(b)
            ref.iadd(list(b))
            if choose(2, 'read') == 0:
                got = list(real)
                check(len(got) == len(ref.l), 'len')
                if len(got) == len(ref.l):
                    for x, y in zip(got, ref.l): check(x == y, 'elem')
        got = list(real)
        check(len(got) == len(ref.l), 'len')
        if len(got) == len(ref.l):
            for x, y in zip(got, ref.l): check(x == y, 'elem')
        cover('end')
    return h

if __name__ == '__main__':
    for nops, batch in ((1, 1), (2, 1), (3, 1), (2, 2)):
        st = core.explore(harness(nops, batch), max_paths=30000)
        print(nops, batch, 'paths', st['paths'], 'checks', st['checks'], 'viol', len(st['violations']), 'errors', len(st['errors']), 'time %.1f' % st['time'], st.get('truncated'), flush=True)
        for e in st['errors'][:2]: print('   ', e[:2])
        for v in st['violations'][:2]: print('   V', v[0], v[1])
