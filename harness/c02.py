"""C02 - parsing is total, lossless and position-accurate."""
from symx.api import *

PROPERTY = 'C02'
LEVEL = 'other'
FILES = ['mesonbuild/mparser.py', 'mesonbuild/ast/printer.py', 'mesonbuild/ast/visitor.py']
ENCODED = ['mparser.Lexer.__init__/lex/getline (the 14 token regexes interpreted from CPython\'s parse trees)', 'mparser.Parser.* (e1..e9, args, key_values, statement, codeblock, '
           'ifblock, foreachblock, create_node, getsym)', 'all node constructors', 'ast.printer.RawPrinter', 'ast.visitor.FullAstVisitor', 'ParseException']
EXPLANATION = ('Symbolic execution of the real lexer AND parser on symbolic source text: (a) every text up to a length bound over ASCII 1..126, (b) every text up to a larger bound over '
               'a 24-character token alphabet (letters that spell not/in/and/or/if, digits, quotes, brackets, operators, newline), (c) windows of symbolic characters placed in '
               'concrete grammar contexts (call arguments, arrays, dicts, conditions, ternaries, method chains, foreach), (d) skeleton programs with symbolic multi-line string '
               'bodies for the line/column accounting. Checked on every path: only ParseException escapes and it is located inside the text; token spans tile the input; on '
               'success RawPrinter reproduces the text exactly; the recorded extent of every FunctionNode/ArrayNode delimits exactly its own text.')
ASSUMPTIONS = ['ASCII 1..126; no BOM; machinefile=False; MESON_RUNNING_IN_PROJECT_TESTS unset (no testcase blocks)', 'text lengths / window sizes as stated per obligation']
OUT = 'free texts longer than the bounds, non-ASCII, BOM, machine files, testcase blocks, rewriter.py splice arithmetic (covered by C17)'
MANIFEST = dict(
    text='Bounded symbolic decision: for ALL source texts within the stated bounds (not a sample) the real lexer+parser either raise a located ParseException or produce a tree '
         'whose full-fidelity printing is the input, with exact call/array extents. The partition of the input space is made by the code\'s own branches.',
    note='Trusted: symx engine incl. regex interpreter, z3. Bounds: free text <=3 (quick) / 4 (thorough) over ASCII 1..126; <=4/5 over the token alphabet; windows of 3/4 symbolic '
         'characters in 12 contexts; skeletons with string bodies <=2.')

mp = RawPrinter = AstVisitor = None


def setup():
    global mp, RawPrinter, AstVisitor
    from mesonbuild import mparser as m
    from mesonbuild.ast.printer import RawPrinter as R
    from mesonbuild.ast.visitor import AstVisitor as V
    from harness.common import quiet_mlog
    ml = quiet_mlog()
    mp, RawPrinter, AstVisitor = m, R, V


def offset_of(text, lineno, colno):
    """independent conversion line/column -> offset: after the (lineno-1)-th newline, plus colno"""
    pos = 0
    for _ in range(lineno - 1):
        i = text.find('\n', pos)
        if i < 0: return None
        pos = i + 1
    return pos + colno


def nlines(text):
    return text.count('\n') + 1


def check_text(text, label):
    n = len(text)
    # ---- lexer
    try:
        toks = list(mp.Lexer(text).lex('f'))
    except mp.ParseException as e:
        check(1 <= e.lineno <= nlines(text) and 0 <= e.colno <= n, 'lexer error is located inside the text')
        cover('lex-reject'); return
    pos = 0
    for t in toks:
        check(t.bytespan[0] == pos and t.bytespan[1] > pos, 'token spans are contiguous and non-empty'); pos = t.bytespan[1]
        o = offset_of(text, t.lineno, t.colno)
        check(o == t.bytespan[0], 'token line/column equals its offset')
    check(pos == n, 'token spans cover the whole text')
    # ---- parser
    try:
        ast = mp.Parser(text, 'f').parse()
    except mp.ParseException as e:
        check(1 <= e.lineno <= nlines(text) + 1 and 0 <= e.colno <= n + 1, 'syntax error is located inside the text')
        cover('parse-reject'); return
    rp = RawPrinter()
    ast.accept(rp)
    check(len(rp.result) == n, 'full-fidelity printing has the length of the input')
    if len(rp.result) == n:
        check(eq(rp.result, text), 'full-fidelity printing reproduces the input byte for byte')
    # ---- extents of calls and arrays
    found = []

    class V(AstVisitor):
        def visit_FunctionNode(s, node): found.append(node); super().visit_FunctionNode(node)
        def visit_ArrayNode(s, node): found.append(node); super().visit_ArrayNode(node)
        def visit_MethodNode(s, node): super().visit_MethodNode(node)
    ast.accept(V())
    for node in found:
        a = offset_of(text, node.lineno, node.colno); b = offset_of(text, node.end_lineno, node.end_colno)
        check(a is not None and b is not None and 0 <= a < b <= n, 'extent of a call/array lies inside the text')
        if a is None or b is None or not (0 <= a < b <= n): continue
        sl = text[a:b]
        p2 = RawPrinter(); node.accept(p2)
        check(len(p2.result) >= len(sl), 'extent is not longer than the construct')
        if len(p2.result) >= len(sl):
            check(eq(p2.result[:len(sl)], sl), 'extent starts at the first character of the construct')
            rest = p2.result[len(sl):]
            last = sl[len(sl) - 1]
            check(sym_or(last == ')', last == ']'), 'extent ends at the closing bracket')
            # what follows the extent inside the node is trivia only
            st = rest.lstrip(' \t\n') if isinstance(rest, str) else rest.lstrip(' \t\n')
            check(len(st) == 0 or decide(bt_any(st[0] == '#')) or decide(bt_any(st[0] == '\\')), 'only whitespace/comments follow the closing bracket inside the node')
        cover('extent')
    cover(label)


def classify(label, inputs):
    """known-finding key: does the (concrete) witness text contain a positional argument after a keyword argument?"""
    try:
        text = ''.join(v for k, n, v in inputs if k == 'str')
        for name, pre, post in CONTEXTS:
            pass
        cands = [text] + [pre + text + post for name, pre, post in CONTEXTS]
        for t in cands:
            try:
                ast = mp.Parser(t, 'f').parse()
            except Exception:
                continue
            hit = []

            class V(AstVisitor):
                def visit_ArgumentNode(s, node):
                    if node.incorrect_order(): hit.append(1)
                    super().visit_ArgumentNode(node)
            ast.accept(V())
            if hit and label.startswith(('full-fidelity', 'extent')):
                return 'positional argument after a keyword argument is accepted and re-ordered by the printer'
    except Exception:
        pass
    return label


FULL = dict(lo=1, hi=126)
TOK = "anotif1 ()[]{},:+='.\n#\u00e9"      # \u00e9: a non-ASCII letter (legal inside strings and comments only)


def ob_free(n, small):
    global CONTEXTS
    def h():
        text = sym_str(n, 't', alphabet=TOK) if small else sym_str(n, 't', 1, 126)
        check_text(text, 'accept')
    return h


CONTEXTS = [('top', '', '\n'), ('call', 'x = f(', ')\n'), ('array', 'x = [', ']\n'), ('dict', 'x = {', '}\n'), ('if', 'if ', '\n y = 1\nendif\n'),
            ('ifbody', 'if a\n', '\nendif\n'), ('foreach', 'foreach v : ', '\nendforeach\n'), ('ternary', 'x = a ? ', ' : c\n'), ('method', 'x = a.', '\n'),
            ('kwarg', 'f(k : ', ')\n'), ('not', 'x = not ', '\n'), ('binop', 'x = a + ', '\n'), ('index', 'x = a[', ']\n'), ('assign', 'x ', ' 1\n')]


def ob_window(ctx, w):
    name, pre, post = ctx
    def h():
        text = pre + sym_str(w, 'w', alphabet=TOK) + post
        check_text(text, 'accept')
    return h


def ob_skeleton(k):
    """multi-line strings, f-strings, continuations, comments between tokens of calls/arrays: position accounting"""
    def h():
        body = sym_str(choose(3, 'bl'), 'b', alphabet="a\n' \\")
        kind = choose(4, 'q')
        lit = ["'''" + body + "'''", "f'''" + body + "'''", None, None][kind]
        if lit is None:
            b2 = sym_str(choose(3, 'b2l'), 'c', alphabet='a @\\n\n')        # incl. a RAW newline inside '...' / f'...' (deprecated but accepted: positions must still add up)
            lit = ("'" if kind == 2 else "f'") + b2 + "'"
        ws = ['', ' ', ' \\\n ', ' # c\n ', ' \\\n\n ', ' \\\n  # c\n '][choose(6, 'ws')]       # incl. a continuation followed by an empty / comment-only line
        tmpl = [lambda: 'x = f(' + lit + ws + ', [1,' + ws + ' g(2)])\n',
                lambda: 'x = [' + lit + ', 1]' + ws + '+ h(3)\ny = k()\n',
                lambda: 'd = {' + "'f' : " + lit + ", 'g' : [1, 2, 3], 'h' : bar(1)}\n",
                lambda: 'if a' + ws.replace('# c\n', '').replace('\n', '') + '\n  p(' + lit + ')\nendif\nq([1])\n'][k]
        check_text(tmpl(), 'accept')
    return h


def ob_two_strings():
    """TWO string literals of any kind in one file, each with a possibly RAW newline in its body (lexer state carried from one literal to the next), followed by
    calls and an array: every later token's position and every extent must still add up"""
    def h():
        lits = []
        for t in ('1', '2'):
            body = sym_str(choose(3, 'bl' + t), 'b' + t, alphabet='a\n ')
            kind = choose(4, 'q' + t)
            lits.append(["'''" + body + "'''", "f'''" + body + "'''", "'" + body + "'", "f'" + body + "'"][kind])
        sep = ['\n', ', ', '\n\n'][choose(3, 'between')]
        if sep == ', ':
            text = 'x = f(' + lits[0] + ', ' + lits[1] + ', [1, 2])\nz = h(3)\n'
        else:
            text = 'x = f(' + lits[0] + ')' + sep + 'y = g(' + lits[1] + ', [1, 2])\nz = h(3)\n'
        check_text(text, 'accept')
    return h


def ob_escapes(kind, n):
    """escape sequences in a single-quoted literal that the escape REGEX accepts but the decoder may reject: \\N{name} with an unknown / malformed name,
    \\U with a value above 0x10FFFF. StringNode() decodes while the parser builds the tree: whatever the body spells, only a located ParseException may
    come out (found: UnicodeDecodeError escaped; fixed in 922fd57)"""
    def h():
        q = ["'", "f'"][choose(2, 'q')]
        if kind == 'N':
            body = sym_str(n, 'b', alphabet='\\N{}OXa')
        else:
            body = sym_str(choose(2, 'pre'), 'p', alphabet='a\\') + '\\' + sym_str(1, 'k', alphabet='Uux') + sym_str(n, 'h', alphabet='01Ffg')
        where = choose(2, 'ctx')
        text = ('x = ' + q + body + "'\n") if where == 0 else ('f(' + q + body + "', [1])\n")
        check_text(text, 'accept')
    return h


def ob_two_parses():
    """TWO files parsed one after the other in one process (what `meson format -r`, the rewriter and every subdir() do): the second file round-trips byte for
    byte whatever the first one started with - leading comment, blank line, indentation (a symbolic prefix) - nothing of the first parse survives in the second"""
    def h():
        pre = sym_str(choose(3, 'prefix length'), 'p', alphabet='# \n\ta')
        first = pre + "x = 1\n"
        try:
            a1 = mp.Parser(first, 'a').parse()
            r1 = RawPrinter(); a1.accept(r1)
            check(len(r1.result) == len(first) and decide(bt_any(eq(r1.result, first))), 'the first file is reproduced byte for byte')
        except mp.ParseException:
            cover('first-rejected')
        second = ['srcs = files(\'a.c\')\n', '\n# c\ny = f(1)\n', 'y = [1, 2]'][choose(3, 'second file')]
        check_text(second, 'accept')
    return h


def obligations(tier):
    q = tier == 'quick'
    out = []
    for n in range(0, 4 if q else 5):
        out.append(Obligation('text[%d]' % n, ob_free(n, False), dict(length=n, alphabet='ASCII 1..126'), labels=('accept', 'lex-reject') if n else ('accept',), max_paths=8000000))
    for n in (4,) if q else (4, 5):
        out.append(Obligation('tokens[%d]' % n, ob_free(n, True), dict(length=n, alphabet=TOK), labels=('accept', 'parse-reject'), max_paths=30000000, classify=classify))
    for ctx in CONTEXTS:
        for w in ((3,) if q else (3, 4)):
            out.append(Obligation('window[%s,%d]' % (ctx[0], w), ob_window(ctx, w), dict(context=ctx[1] + '<W>' + ctx[2], window=w, alphabet=TOK), labels=('accept', 'parse-reject'), max_paths=30000000, classify=classify))
    for k in range(4):
        out.append(Obligation('skeleton[%d]' % k, ob_skeleton(k), dict(template=k, string_body='<=2 over {a,newline,quote,space,backslash}', trivia='4 kinds'), labels=('accept', 'extent'), max_paths=8000000))
    for n in ((4, 5, 6) if q else (4, 5, 6, 7)):
        out.append(Obligation('escapes[N,%d]' % n, ob_escapes('N', n), dict(literal="'...' | f'...'", body='%d characters over \\ N { } O X a' % n, context='assignment | call argument'),
                              labels=('accept', 'parse-reject') if n >= 5 else ('accept',), max_paths=8000000))
    for n in ((2, 4, 8) if q else (2, 4, 8, 9)):
        out.append(Obligation('escapes[U,%d]' % n, ob_escapes('U', n), dict(literal="'...' | f'...'", body='0-1 of {a, \\} + \\ + one of U u x + %d characters over 0 1 F f g' % n, context='assignment | call argument'),
                              labels=('accept', 'parse-reject') if n >= 8 else ('accept',), max_paths=8000000))
    out.append(Obligation('two-parses', ob_two_parses(), dict(first='0-2 symbolic characters over # space newline tab a, then a statement', second='3 concrete files', order='first then second, in one process'), labels=('accept',), optional_labels=('first-rejected', 'extent'), max_paths=1000000))
    out.append(Obligation('two-strings', ob_two_strings(), dict(literals=2, kinds="''' f''' ' f'", body='<=2 over {a, newline, space}', between='newline | comma | blank line'), labels=('accept', 'extent'), max_paths=8000000))
    return out
