import typing as T
import operator
def strcmp(a: str, b: str) -> bool:
    """
    pre: len(a) <= 4 and len(b) <= 4
    post: _
    """
    lt, eq, gt = a < b, a == b, a > b
    return (int(lt) + int(eq) + int(gt)) == 1

def strcmp2(a: T.Tuple[str, ...], b: T.Tuple[str, ...]) -> bool:
    """
    pre: len(a) == 1 and len(b) == 1
    post: _
    """
    x, y = a[0], b[0]
    lt, eq, gt = operator.lt(x, y), x == y, operator.gt(x, y)
    return (int(lt) + int(eq) + int(gt)) == 1

def strcmp3(a: T.Tuple[T.Union[int,str], ...], b: T.Tuple[T.Union[int,str], ...]) -> bool:
    """
    pre: len(a) == 1 and len(b) == 1
    pre: isinstance(a[0], str) and isinstance(b[0], str)
    post: _
    """
    x, y = a[0], b[0]
    lt, eq, gt = operator.lt(x, y), x == y, operator.gt(x, y)
    return (int(lt) + int(eq) + int(gt)) == 1
