import sys, time
sys.path.insert(0, __import__('os').path.dirname(__import__('os').path.abspath(__file__))); sys.path.insert(0, '/repo')
from sx import instr, core
from sx.values import *
from sx.core import choose, check, cover
instr.install()
from mesonbuild.utils import universal as U
from mesonbuild.mesonlib import MesonException
from sx.instr import SymDict
import z3, re

class CD:
    def __init__(self, d): self.values = d
    def __contains__(self, k): return k in self.values
    def get(self, k): return self.values[k]
    def keys(self): return self.values.keys()

def ref_meson(line, conf):
    """independent left-to-right scanner for the meson format (from Configuration.md + regex comments)"""
    out = ''; i = 0; n = len(line); missing = []
    def isname(ch):
        return decide(zor([c_isalnum(zc1(ch)), ceq(zc1(ch), 45), ceq(zc1(ch), 95)]))
    def zc1(ch): return ch.c[0] if isinstance(ch, SymStr) else ord(ch)
    def scan_name(j):
        k = j
        while k < n and isname(line[k]): k += 1
        return k
    while i < n:
        ch = line[i]
        if ch == '\\':
            # run of backslashes
            j = i
            while j < n and line[j] == '\\': j += 1
            run = j - i
            if j < n and line[j] == '@':
                # pairs become single backslashes; odd leftover escapes the @
                if run % 2 == 1:
                    # \@name\@ -> @name@ (escaped variable) else literal
                    k = scan_name(j + 1)
                    if k > j + 1 and k + 1 < n and line[k] == '\\' and line[k + 1] == '@':
                        out = out + '\\' * (run // 2) + '@' + line[j + 1:k] + '@'
                        i = k + 2; continue
                    out = out + '\\' * (run // 2) + '\\'
                    i = j; 
                    # the @ following an odd backslash is not a variable start
                    out = out + '@'; i = j + 1; continue
                else:
                    out = out + '\\' * (run // 2); i = j; continue
            out = out + line[i:j]; i = j; continue
        if ch == '@':
            k = scan_name(i + 1)
            if k > i + 1 and k < n and line[k] == '@':
                name = line[i + 1:k]
                if name in conf:
                    v = conf.get(name)[0]
                    out = out + (v if isinstance(v, (str, SymStr)) else sym_str_of_int(v) if not isinstance(v, bool) else str(v))
                else:
                    missing.append(name)
                i = k + 1; continue
        out = out + ch; i += 1
    return out, missing

def harness(n, alphabet):
    def h():
        line = sym_str(n, 'l', alphabet=alphabet)
        key = sym_str(1, 'k', alphabet='ab')
        val = sym_str(2, 'v', alphabet='@ax')
        conf = CD(SymDict([(key, (val, None))]))
        rx = U.get_variable_regex('meson')
        got, miss = U.do_replacement_meson(rx, line, conf)
        exp, emiss = ref_meson(line, conf)
        check(len(got) == len(exp), 'len')
        if len(got) == len(exp): check(got == exp, 'text')
        cover('done')
    return h

if __name__ == '__main__':
    for n in (2, 3, 4, 5):
        st = core.explore(harness(n, '@\\ab-$'), max_paths=60000)
        print(n, 'paths', st['paths'], 'checks', st['checks'], 'viol', len(st['violations']), 'errors', len(st['errors']), st['labels'], 'time %.1f' % st['time'], st.get('truncated'), flush=True)
        for e in st['errors'][:3]: print('   ', e[:2])
        for v in st['violations'][:3]: print('   V', v[0], v[1])
