"""C04 - the generated Ninja manifest is well-formed and closed (statement level for arbitrary paths; graph level on generated projects without a compiled language)."""
import os
from symx.api import *
from harness.ninjaref import DecodeError, parse_manifest, path_text
from harness.c03 import Out

PROPERTY = 'C04'
LEVEL = 'other'
FILES = ['mesonbuild/backend/ninjabackend.py', 'mesonbuild/backend/backends.py', 'mesonbuild/utils/universal.py', 'mesonbuild/build.py', 'mesonbuild/interpreter/interpreter.py']
ENCODED = ['NinjaBuildElement.__init__/add_dep/add_orderdep/add_item/check_outputs/count_rule_references/_should_use_rspfile/write',
           'NinjaRule.__init__/write/should_use_rspfile/_length_estimate', 'NinjaBuild.add_rule/add_build/write', 'ninja_quote',
           'Backend.generate_unity_files/_determine_ext_objs/get_unity_source_file/object_filename_from_source/canonicalize_filename, NinjaBackend.get_target_source_can_unity, '
           'classify_unity_sources (unity-extract obligation; file writes are recorders, compilers are 3 stubs c/cpp/fortran)',
           'project-graph: Interpreter.run (project, find_program, configure_file, generator, custom_target, alias_target, run_target, test, benchmark, subdir) and NinjaBackend.generate '
           '(generate_custom_target, generate_genlist_for_target, generate_run_target, generate_tests, generate_ending, get_testlike_targets, get_build_by_default_targets ...) on a scratch directory; '
           'ninja detection and the compilation database are stubs']
EXPLANATION = ('Symbolic execution of the real manifest writer on a manifest of up to 2 rules and 2-3 build statements whose output, implicit-output, input, '
               'dependency and order-only paths are symbolic strings (alphabet with space, colon, $, |, #, backslash), whose rule is chosen symbolically (defined, '
               'phony, undefined) and with rsp_threshold symbolic; the text is parsed by a reference implementation of the Ninja manifest grammar and compared '
               'with what was given: every statement parses, uses phony or a rule defined in the same text (including the _RSP variant), lists round-trip, '
               'dependencies come out sorted whatever the insertion order, and write() raises "Multiple producers" iff two statements share an output path. '
               'One edge kind of the closure claim is decided too: for a unity target with 0-5 (7) sources over c/cpp/cc/f90 and a SYMBOLIC unity_size, the objects '
               'extract_all_objects() hands to a consumer (Backend._determine_ext_objs) are exactly the objects of the unity sources generate_unity_files writes '
               '(which generate_target compiles one by one), no unity file is empty or exceeds unity_size, and every source is included exactly once.')
ASSUMPTIONS = ['paths of 1-2 characters over {a, b, space, :, $, |, #, \\}', 'reference Ninja parser is the trusted base',
               'an undefined rule makes write() fail (any exception): no manifest is produced, which does not violate the statement']
OUT = ('graph level for projects WITH compiled targets (executables, libraries, generate_target / generate_link edges need a compiler), subprojects, layouts other than mirror, '
       'configure-time rejection of colliding target names, odd target names; the graph-level clauses are decided for generated projects of custom targets, generators, configure_file, alias / run '
       'targets, tests and a subdirectory only')
MANIFEST = dict(
    text='Bounded symbolic decision of statement-level well-formedness: whatever paths/rules/dep orders (within the bound) are handed to NinjaBuild, the text it '
         'writes is a valid manifest for a reference Ninja parser, references only defined rules, round-trips every path list, and two producers of one path are '
         'rejected; closure for two edge kinds of compiled targets (unity extraction, module scanning); and the GRAPH-LEVEL clauses (defined rules, one producer per path, acyclic, every input exists or is produced, reachability from all / meson-test-prereq / meson-benchmark-prereq) on whole configurations - real Interpreter and NinjaBackend.generate - of generated projects WITHOUT a compiled language (custom targets with 1-2 outputs, generator, configure_file, alias / run targets, tests, a subdirectory) whose flags and indices are symbolic. Projects with compiled targets are outside the graph-level claim.',
    note='Partial claim. Trusted: symx engine, z3, reference Ninja parser. Bounds: <=2 rules, <=2 build statements (3 in thorough for the duplicate-output rule), paths <=2 chars; project-graph: 3 custom targets, what B and C consume (7 x 5 shapes) and the consumers (7 alias/run shapes x 11 test shapes) varied separately; thorough: every flag symbolic in every configuration.')

nb = ME = None


def setup():
    global nb, ME
    import harness.c03 as c03
    c03.setup()
    nb, ME = c03.nb, c03.ME


PA = 'ab :$#\\\t'      # incl. a TAB: whitespace that Ninja has NO escape for (only '$ ' exists) must stay as it is


def sym_set():
    if concrete(): return set()
    from symx.instr import SymSet
    return SymSet()


def norm(p):
    return p.replace('\\', '/')


def ob_statement(np_, withdeps, alpha=None):
    """one build statement with every kind of path list; rule choice symbolic"""
    PA_ = alpha or PA
    def h():
        nb.rsp_threshold = sym_int('rsp_threshold', 0, 1000)
        b = nb.NinjaBuild()
        b.add_rule(nb.NinjaRule('R', ['cc'], ['$ARGS', '$in'], 'd', rspable=True))
        b.add_rule(nb.NinjaRule('S', ['ld'], ['$in'], 'd', rspable=False))
        rn = ['R', 'S', 'phony', 'UNDEF'][choose(4, 'rule')]
        if withdeps:
            outs, imp, ins = ['o'], [], ['i']
            deps = [sym_str(1, 'd%d' % i, alphabet=PA_) for i in range(choose(3, 'ndeps'))]
            order = [sym_str(1, 'o%d' % i, alphabet=PA_) for i in range(choose(3, 'norder'))]
        else:
            outs = [sym_str(np_, 'out', alphabet=PA_)]
            imp = [sym_str(1, 'imp', alphabet=PA_)] if choose(2, 'hasimp') else []
            ins = [sym_str(np_, 'in', alphabet=PA_)]
            deps, order = [], []
        el = nb.NinjaBuildElement(sym_set(), list(outs), rn, list(ins), implicit_outs=list(imp))
        for d in deps: el.add_dep(d)
        if order: el.add_orderdep(list(order))
        el.add_item('ARGS', ['x'])
        b.add_build(el)
        o = Out()
        try:
            b.write(o)
        except ME:
            check(False, 'MesonException for a manifest without newlines or duplicate outputs'); return
        except (AttributeError, KeyError):
            check(rn == 'UNDEF', 'internal error only for an undefined rule'); cover('undefined-rule-rejected'); return
        check(rn != 'UNDEF', 'a build statement naming an undefined rule never reaches the manifest')
        try:
            rules, builds = parse_manifest(o.text())
        except DecodeError as e:
            check(False, 'manifest does not parse: %s' % e); return
        check(len(builds) == 1, 'one build statement')
        bd = builds[0]
        check(bd['rule'] == 'phony' or (isinstance(bd['rule'], str) and bd['rule'] in rules), 'rule is phony or defined in the same text')
        if rn != 'phony':
            check(bd['rule'] in (rn, rn + '_RSP'), 'rule name or its _RSP variant')
            if bd['rule'].endswith('_RSP'): cover('rsp')
        def same(got, exp, what):
            got = [path_text(p) for p in got]
            check(len(got) == len(exp), what + ': count')
            if len(got) == len(exp):
                for g, e in zip(got, exp): check(eq(g, norm(e)), what + ': path')
        same(bd['outs'], outs, 'outputs'); same(bd['implicit'], imp, 'implicit outputs'); same(bd['ins'], ins, 'inputs')
        # dependency sets: duplicates collapse, written sorted
        def uniq_sorted(xs):
            u = []
            for x in xs:
                if not any(decide(bt_any(x == y)) for y in u): u.append(x)
            for i in range(len(u)):
                for j in range(len(u) - 1 - i):
                    if decide(bt_any(u[j + 1] < u[j])): u[j], u[j + 1] = u[j + 1], u[j]
            return u
        same(bd['deps'], uniq_sorted(deps), 'implicit deps (sorted set)')
        same(bd['order'], uniq_sorted(order), 'order-only deps (sorted set)')
        cover('roundtrip')
    return h


def ob_producers(n, plen):
    """write() raises 'Multiple producers' iff two statements share an output path"""
    def h():
        nb.rsp_threshold = 10 ** 6
        b = nb.NinjaBuild()
        b.add_rule(nb.NinjaRule('R', ['cc'], ['$in'], 'd'))
        allout = sym_set()
        outs = []
        for i in range(n):
            o_ = [sym_str(plen, 'o%d' % i, alphabet='ab/ ')]
            if choose(2, 'second%d' % i): o_.append(sym_str(plen, 'p%d' % i, alphabet='ab/ '))
            outs.append(o_)
            rule = ['R', 'phony'][choose(2, 'rule%d' % i)]      # aliases / run targets / the all, test, install aggregates are phony statements
            e = nb.NinjaBuildElement(allout, list(o_), rule, 'i')
            b.add_build(e)
        flat = [x for o_ in outs for x in o_]
        dup = False
        for i in range(len(flat)):
            for j in range(i + 1, len(flat)):
                dup = sym_or(dup, flat[i] == flat[j])
        o = Out()
        try:
            b.write(o)
        except ME:
            check(dup, 'Multiple-producers error only when two outputs coincide'); cover('rejected'); return
        check(sym_not(dup), 'two statements producing one path are rejected'); cover('accepted')
        rules, builds = parse_manifest(o.text())
        check(len(builds) == n, 'all statements written')
    return h


def ob_shared_rule():
    """two (or three) build statements use one rspable rule; rsp_threshold is symbolic, so some need the _RSP variant and some do not:
    every rule name used by a build statement must be defined in the same manifest"""
    def h():
        nb.rsp_threshold = sym_int('rsp_threshold', 0, 200)
        b = nb.NinjaBuild()
        b.add_rule(nb.NinjaRule('R', ['cc'], ['$ARGS', '$in'], 'd', rspable=True))
        b.add_rule(nb.NinjaRule('S', ['ld'], ['$in'], 'd', rspable=choose(2, 's_rspable') == 1))
        n = 2 + choose(2, 'nstatements')
        allout = sym_set()
        for i in range(n):
            rn = ['R', 'S'][choose(2, 'rule%d' % i)]
            el = nb.NinjaBuildElement(allout, 'o%d' % i, rn, 'i%d' % i)
            el.add_item('ARGS', ['x' * [1, 40, 120][choose(3, 'arglen%d' % i)]])
            b.add_build(el)
        o = Out()
        b.write(o)
        rules, builds = parse_manifest(o.text())
        check(len(builds) == n, 'all statements written')
        used = set()
        for bd in builds:
            check(isinstance(bd['rule'], str) and bd['rule'] in rules, 'every build statement uses a rule defined in the same manifest')
            used.add(bd['rule'])
        for r in rules:
            check(r in used, 'no rule is written that no statement uses')
        cover('both' if ('R' in used and 'R_RSP' in used) else 'one')
    return h


class FakeCompiler:
    def __init__(self, language, suffixes, cant_unity=False):
        self.language, self.suffixes, self.file_suffixes = language, suffixes, tuple(suffixes)
    def can_compile(self, src):
        name = src.fname if hasattr(src, 'fname') else src
        return name.rsplit('.', 1)[-1] in self.suffixes
    def get_default_suffix(self): return self.suffixes[0]
    def get_id(self): return 'gcc'
    def get_language(self): return self.language
    def get_argument_syntax(self): return 'gcc'


def mk_unity_backend(unity_size):
    import types
    from mesonbuild.backend import backends as BK
    from mesonbuild import build as B
    from mesonbuild.mesonlib import MachineChoice
    be = object.__new__(BK.Backend)
    opts = {'unity': 'on', 'unity_size': unity_size, 'b_lto': False}
    machine = types.SimpleNamespace(get_object_suffix=lambda: 'o', is_windows=lambda: False)

    class Machines:
        def __getitem__(self, k): return machine
    be.environment = types.SimpleNamespace(machines=Machines(), get_build_dir=lambda: '/bld', get_source_dir=lambda: '/src',
                                           coredata=types.SimpleNamespace(get_option_for_target=lambda t, key: opts[key.name]))
    be.source_dir, be.build_dir, be.build_to_src = '/src', '/bld', '../src'
    be.get_target_dir = lambda t: t.subdir
    t = object.__new__(B.Executable)
    t.name, t.subdir, t.subproject, t.filename, t.for_machine = 'prog', 'sub', '', 'prog', MachineChoice.HOST
    t.compilers = {'c': FakeCompiler('c', ['c']), 'cpp': FakeCompiler('cpp', ['cpp', 'cc']), 'fortran': FakeCompiler('fortran', ['f90'])}
    t.pch = {}
    t.generated = []
    return be, BK, B, t


def ob_unity(nmax):
    """extract_all_objects() of a unity target: the objects the consumer is told to link (Backend._determine_ext_objs) are exactly the objects of the unity
    sources the producer writes and compiles (Backend.generate_unity_files, whose result generate_target compiles one by one) - closure for this edge kind,
    for every unity_size and every number of sources per language"""
    def h():
        from mesonbuild.mesonlib import File
        import mesonbuild.mesonlib as ML
        u = sym_int('unity_size', 2, 12)
        be, BK, B, t = mk_unity_backend(u)
        n = choose(nmax + 1, 'nsrc')
        sufs = ['c', 'cpp', 'f90', 'cc']
        srcs = [File(False, 'sub', 's%d.%s' % (i, sufs[choose(4, 'lang%d' % i)])) for i in range(n)]
        t.sources = list(srcs)
        written = []
        class FakeOut:
            def __init__(s, name): s.name = name; written.append(s); s.lines = []
            def write(s, x): s.lines.append(x)
            def close(s): pass
        saved = (BK.__dict__.get('open'), BK.os.makedirs, BK.os.path.exists, ML.replace_if_different)
        BK.open = lambda name, *a, **k: FakeOut(name)
        BK.os.makedirs = lambda *a, **k: None
        ex = BK.os.path.exists
        BK.os.path.exists = lambda p: True
        BK.mesonlib.replace_if_different = lambda a, b: None
        try:
            unity_src = [x for x in srcs if nb.NinjaBackend.get_target_source_can_unity(be, t, x)]      # as generate_target selects them
            produced = be.generate_unity_files(t, unity_src)
            eo = B.ExtractedObjects(t, list(srcs), [], [], True, False)
            got = be._determine_ext_objs(eo)
        finally:
            if saved[0] is None: del BK.open
            else: BK.open = saved[0]
            BK.os.makedirs, BK.os.path.exists = saved[1], saved[2]
            BK.mesonlib.replace_if_different = saved[3]
        tdir = be.get_target_private_dir(t)
        from mesonbuild.mesonlib import get_compiler_for_source
        compiled = list(produced) + [x for x in srcs if x not in unity_src]        # fortran cannot be unified: compiled one by one
        want = [be.object_filename_from_source(t, get_compiler_for_source(t.compilers.values(), f), f, tdir) for f in compiled]
        check(sorted(got) == sorted(want), 'extracted objects of a unity target = objects of the unity sources that are generated')
        check(len(set(got)) == len(got), 'no object listed twice')
        total = sum(len([l for l in w.lines if l.startswith('#include')]) for w in written)
        check(total == len(unity_src), 'every unifiable source is included in exactly one unity file')
        check(all(0 < len(w.lines) and decide(len(w.lines) <= u) for w in written), 'no unity file is empty or larger than unity_size')
        if n: cover('nonempty')
        if any(len(w.lines) > 1 for w in written): cover('shared-unity-file')
        if len(written) > 2: cover('several-unity-files')
    return h


def ob_dyndeps():
    """module dependency scanning (Fortran / C++ modules): the real NinjaBackend.generate_dependency_scan_target for an executable and the 1-2 libraries it
    links, each of which either scans (Fortran sources, C++ with a modules flag) or does not (plain C / C++) - a SYMBOLIC choice per target. Closure for this
    edge kind: every depscan.json a depaccumulate statement reads is produced by a depscan statement; a target that does not scan gets no statement"""
    def h():
        import types, tempfile, shutil
        from mesonbuild import build as B
        from mesonbuild.mesonlib import MachineChoice
        tmp = tempfile.mkdtemp(prefix='c04dyn')
        try:
            be = object.__new__(nb.NinjaBackend)
            be.ninja_has_dyndeps = True; be._uses_dyndeps = False
            be.all_outputs = set(); be.build_to_src = '../src'
            be.environment = types.SimpleNamespace(get_build_dir=lambda: tmp)
            be.ninja = types.SimpleNamespace(elems=[], add_build=lambda e: (e.check_outputs(), be.ninja.elems.append(e)))
            be.get_target_filename = lambda t, warn_multi_output=True: t.subdir + '/' + t.filename if t.subdir else t.filename
            be.get_target_option = lambda t, k: 'c++17'
            cppc = types.SimpleNamespace(get_cpp_modules_args=lambda: ['-fmodules-ts'], get_id=lambda: 'gcc', version='12')
            nlibs = 1 + choose(2, 'libraries')
            kinds = []          # 0 plain C, 1 plain C++, 2 C++ with the modules flag, 3 Fortran
            targets = []
            for i in range(nlibs + 1):
                k = choose(4, 'kind%d' % i); kinds.append(k)
                t = object.__new__(B.Executable if i == 0 else B.StaticLibrary)
                t.name = 'app' if i == 0 else 'lib%d' % i
                t.subdir = ''; t.subproject = ''; t.for_machine = MachineChoice.HOST
                t.filename = t.name if i == 0 else 'lib%s.a' % t.name
                t.compilers = {0: {'c': object()}, 1: {'cpp': cppc}, 2: {'cpp': cppc}, 3: {'fortran': object()}}[k]
                t.extra_args = {'cpp': ['-fmodules-ts'] if k == 2 else [], 'c': [], 'fortran': []}
                t.objects = []
                t.uses_fortran = (lambda kk: (lambda: kk == 3))(k)
                targets.append(t)
                os.makedirs(os.path.join(tmp, be.get_target_private_dir(t)), exist_ok=True)
            app, libs = targets[0], targets[1:]
            chain = nlibs == 2 and choose(2, 'lib1 links lib2') == 1
            linked = {id(app): list(libs), id(libs[0]): ([libs[1]] if chain else [])}
            if nlibs == 2: linked[id(libs[1])] = []
            for t in targets:
                t.get_all_linked_targets = (lambda tt: (lambda: list(linked[id(tt)])))(t)
                t.get_objects = lambda: []
            order = list(targets) if choose(2, 'libraries first') == 0 else list(reversed(targets))
            for t in order:
                src = {0: 'x.c', 1: 'x.cpp', 2: 'x.cpp', 3: 'x.f90'}[kinds[targets.index(t)]]
                be.generate_dependency_scan_target(t, [src], {src: src + '.o'}, [])
            produced = set()
            for e in be.ninja.elems:
                for o in e.outfilenames: produced.add(o)
            scans = [k >= 2 for k in kinds]
            for t, s in zip(targets, scans):
                js, dd = be.get_dep_scan_file_for(t)
                check((js in produced) == s and (dd in produced) == s, 'a target gets its depscan / depaccumulate statements iff it scans for modules')
            for e in be.ninja.elems:
                for i_ in list(e.infilenames) + list(e.deps) + list(e.orderdeps):
                    if i_.endswith('depscan.json') or i_.endswith('depscan.dd'):
                        check(i_ in produced, 'every scan file a statement reads is the output of another statement')
            for t, s in zip(targets, scans):
                if not s: continue
                acc = [e for e in be.ninja.elems if e.rulename == 'depaccumulate' and be.get_dep_scan_file_for(t)[1] in e.outfilenames][0]
                want = {be.get_dep_scan_file_for(t)[0]} | {be.get_dep_scan_file_for(l)[0] for l in linked[id(t)] if scans[targets.index(l)]}
                check(set(acc.infilenames) == want, 'the accumulated module information is its own scan plus the scans of the linked targets that scan')
            cover('scanning' if any(scans) else 'none')
        finally:
            shutil.rmtree(tmp, ignore_errors=True)
    return h


def ob_project(dim, full=False):
    """GRAPH level: a whole configuration (real Interpreter, real NinjaBackend.generate) of a generated project without a compiled language - see harness/proj.py.
    build.ninja, read back with the reference parser, is well-formed and closed; everything built by default is reachable from `all`, everything a test /
    benchmark runs or depends on from meson-test-prereq / meson-benchmark-prereq, what an alias or run target names from that target; every custom target's
    statement consumes exactly the inputs the definition gives it"""
    def h():
        from harness import proj as PJ
        pr, c, g = PJ.run_project(dim, full)
        PJ.wellformed(c, g)
        for t in ('A', 'B', 'C'):
            for o in pr.outs[t]: check(o in g.producer, 'every output of a custom target is produced by a statement')
        r = g.reach('all')
        for t in pr.default:
            for o in pr.outs[t]: check(o in r, 'every target built by default is reachable from all')
        for needs, agg, what in ((pr.test_needs, 'meson-test-prereq', 'a test'), (pr.bench_needs, 'meson-benchmark-prereq', 'a benchmark')):
            check(agg in g.producer, 'the prerequisites aggregate exists')
            if needs is not None:
                r2 = g.reach(agg)
                for o in pr.outs[needs]: check(o in r2, 'every target %s runs or depends on is reachable from its prerequisites aggregate' % what)
        if pr.alias is not None:
            r3 = g.reach('al')
            for o in pr.outs[pr.alias]: check(o in r3, 'an alias target builds the target it names')
        if pr.alias2 is not None:
            r5 = g.reach('al2')
            for o in pr.outs[pr.alias2]: check(o in r5, 'an alias of an alias / of a run target builds what that one builds')
        if pr.run_needs is not None:
            r4 = g.reach('rt')
            for o in pr.outs[pr.run_needs]: check(o in r4, 'a run target builds the targets its command and depends: name')
        for t in ('B', 'C'):
            st = g.stmts[g.producer[pr.outs[t][0]]]
            check(sorted(st['outs']) == sorted(pr.outs[t]), 'one statement produces all outputs of a custom target')
            if pr.ins[t] is not None:
                ab = lambda p_: os.path.normpath(os.path.join(c.bld, p_))
                check([ab(i) for i in st['ins']] == [ab(i) for i in pr.ins[t]], 'the statement of a custom target consumes exactly its declared inputs, in order')
            else:
                check(len(st['ins']) == 2 and all(i in g.producer for i in st['ins']), 'generator outputs consumed by a custom target are produced by a statement')
                cover('generator')
        stb = g.stmts[g.producer[pr.outs['B'][0]]]
        for d in pr.b_extra_deps: check(d in [os.path.normpath(i) for i in stb['deps'] + stb['order'] + stb['ins']], 'depends: / depend_files: become dependencies of the statement')
        if pr.c_cmd_dep is not None:
            stc = g.stmts[g.producer[pr.outs['C'][0]]]
            check(pr.c_cmd_dep in stc['deps'] + stc['order'] + stc['ins'], 'a target output named in a command is a dependency of the statement')
        cover('done')
        if pr.default: cover('default')
        if pr.test_needs or pr.bench_needs: cover('test')
    return h


def obligations(tier):
    q = tier == 'quick'
    out = [Obligation('paths[%d]' % k, ob_statement(k, False), dict(path_len=k, lists='outputs, implicit outputs, inputs', alphabet=PA, rule='R|S|phony|undefined', rsp_threshold='symbolic'),
                      labels=('roundtrip', 'undefined-rule-rejected', 'rsp'), max_paths=3000000) for k in ((1, 2) if q else (1, 2, 3))]
    out.append(Obligation('deps', ob_statement(1, True), dict(deps='0-2 implicit + 0-2 order-only of 1 char, any insertion order', alphabet=PA, rule='R|S|phony|undefined'),
                          labels=('roundtrip', 'undefined-rule-rejected', 'rsp'), max_paths=3000000))
    out.append(Obligation('shared-rule', ob_shared_rule(), dict(statements='2-3 on rules R (rspable) / S', arg_lengths='1 | 40 | 120', rsp_threshold='symbolic 0..200'), labels=('both', 'one'), max_paths=3000000))
    out.append(Obligation('pipe-in-path', ob_statement(1, False, alpha='|a'), dict(path_len=1, alphabet='|a'), labels=('roundtrip',),
                          classify=lambda label, inputs: 'unescaped | in a build-line path' if any(k == 'str' and '|' in v for k, n, v in inputs) else label))
    out.append(Obligation('unity-extract', ob_unity(5 if q else 7), dict(sources='0..%d over c / cpp / cc / f90' % (5 if q else 7), unity_size='symbolic 2..12'),
                          labels=('nonempty', 'shared-unity-file', 'several-unity-files'), max_paths=3000000))
    for n, pl in ((2, 1), (2, 2)) if q else ((2, 1), (2, 2), (3, 1), (3, 2)):
        out.append(Obligation('producers[%d,%d]' % (n, pl), ob_producers(n, pl), dict(statements=n, outputs_each='1-2', path_len=pl), labels=('rejected', 'accepted'), max_paths=3000000))
    out.append(Obligation('dyndeps-closure', ob_dyndeps(), dict(real='NinjaBackend.generate_dependency_scan_target / should_use_dyndeps_for_target / get_dep_scan_file_for', targets='an executable + 1-2 static libraries (optionally chained)', per_target='plain C | plain C++ | C++ with a modules flag | Fortran', generation_order='both'), labels=('scanning', 'none')))
    for dim in ('inputs', 'consumers'):
        out.append(Obligation('project-graph[%s]' % dim, ob_project(dim, not q), dict(real='Interpreter.run + NinjaBackend.generate on a generated project without a compiled language', targets='3 custom targets (1-2 outputs), generator, configure_file, alias / run target, test / benchmark, subdirectory',
                              symbolic='the index into a multi-output target, install, preserve_path' + (', build_by_default x2 where the consumers vary' if q else ', build_by_default x2, build_always_stale: all of them in every configuration'), varies=dim), labels=('done', 'default', 'test') if dim != 'inputs' else ('done', 'default', 'generator'), max_paths=2000000, path_timeout=300, classify=__import__('harness.proj', fromlist=['classify']).classify))
    return out
