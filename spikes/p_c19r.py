import sys, time
sys.path.insert(0, __import__('os').path.dirname(__import__('os').path.abspath(__file__))); sys.path.insert(0, '/repo')
from sx import instr, core
from sx.values import *
from sx.core import choose, check, cover
instr.install()
from mesonbuild.utils.universal import Version, version_compare, Range, version_check_to_range, version_compare_condition_with_min
import z3

OPS = ['>=', '>', '<=', '<', '==', '!=', '=', '']
def vstr(name):
    # 1 or 2 numeric components, each one digit
    n = choose(2, 'ncomp') + 1
    s = sym_str(1, name, alphabet='0123456789')
    if n == 2: s = s + '.' + sym_str(1, name, alphabet='0123456789')
    return s

def h_checks(nchecks):
    def h():
        checks = []
        for i in range(nchecks):
            checks.append(OPS[choose(len(OPS), 'op')] + vstr('c%d' % i))
        x = vstr('x')
        r = version_check_to_range(list(checks))
        inr = Version(x) in r
        sat_all = True
        for c in checks:
            if not version_compare(x, c): sat_all = False
        if sat_all:
            check(inr, 'range contains every version satisfying all checks')
        if inr:
            for c in checks:
                if not c.startswith('!='):
                    check(version_compare(x, c), 'range member satisfies non-!= check')
        cover('done')
    return h

def mkrange(name):
    k = choose(4, 'rk')
    if k == 0: return Range()
    lo = Version(vstr(name + 'lo')); hi = Version(vstr(name + 'hi'))
    if k == 1: return Range(min=lo, min_eq=bool(choose(2)))
    if k == 2: return Range(max=hi, max_eq=bool(choose(2)))
    return Range(min=lo, min_eq=bool(choose(2)), max=hi, max_eq=bool(choose(2)))

def h_alg():
    a = mkrange('a'); b = mkrange('b'); x = Version(vstr('x'))
    i = a.intersect(b)
    check((x in i) == ((x in a) and (x in b)), 'intersect')
    al = a.always(b)
    if al is True and (x in a): check(x in b, 'always True')
    if al is False and (x in a): check(not (x in b), 'always False')
    cover('done')

if __name__ == '__main__':
    for name, h in (('checks1', h_checks(1)), ('checks2', h_checks(2)), ('alg', h_alg)):
        st = core.explore(h, max_paths=60000)
        print(name, 'paths', st['paths'], 'checks', st['checks'], 'viol', len(st['violations']), 'errors', len(st['errors']), st['labels'], 'time %.1f' % st['time'], st.get('truncated'), flush=True)
        for e in st['errors'][:3]: print('   ', e[:2])
        for v in st['violations'][:3]: print('   V', v[0], v[1])
