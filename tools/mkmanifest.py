#!/usr/bin/env python3
"""regenerate MANIFEST.json from the harness modules' metadata (run with python3-vt from /verif)"""
import sys, os, json, importlib
sys.path.insert(0, os.path.dirname(os.path.dirname(os.path.abspath(__file__))))
NA = {
 'C05': "Whether a build step needs a file is only observable by running compilers and generators (FFI/I/O; no ninja binary either); the read-sets the schedule must be checked against cannot be obtained by symbolic execution of meson's code.",
}
NOT_YET = {}
checks = []
claimed = []
for i in range(1, 21):
    pid = 'C%02d' % i
    if pid in NA:
        continue
    try:
        m = importlib.import_module('harness.' + pid.lower())
    except ImportError:
        NOT_YET[pid] = 'check not built yet (planned, see DESIGN.md section 4); not claimed until it exists'
        continue
    M = m.MANIFEST
    claimed.append(pid)
    checks.append(dict(property_id=pid, quick_cmd='./check %s --tier quick' % pid, thorough_cmd='./check %s --tier thorough' % pid,
                       evidence_file='/verif/evidence/%s.json' % pid, replay_cmd_template='./check %s --replay {path}' % pid,
                       engine='symx', level_claimed=dict(category=m.LEVEL, text=M['text'], design_ref=M.get('design_ref', 'DESIGN.md section 4, ' + pid)),
                       level_note=M['note'], technique=M.get('technique', 'symbolic execution of the real Python functions (own engine, fork-by-re-execution), z3 decides every branch and assertion; counterexamples replayed natively')))
man = dict(version=1,
           setup_cmd='python3-vt -m compileall -q symx harness >/dev/null 2>&1; python3-vt -c "import z3; print(z3.get_version_string())" && { PYTHONHASHSEED=0 python3-vt tools/selftest_instr.py > selftest.log 2>&1 || { cat selftest.log; exit 1; }; tail -1 selftest.log; }',
           hooks=dict(guard='MESON_VERIF', enable='no source hooks are needed: the checks instrument the modules of /repo at import time (AST transformation in memory), nothing in /repo is changed',
                      baseline_off_cmd='cd /repo && /venv/bin/python -m pytest -ra -q -p no:cacheprovider --timeout=900 --continue-on-collection-errors',
                      source_commits=[], add_only=True),
           engines=[dict(name='symx', path='/verif/symx', serves_properties=claimed,
                         kind_free_text='dynamic symbolic execution of the real Python code of /repo: proxy values (symbolic ints/bools, strings with concrete length and symbolic characters) flow through CPython; import-time AST instrumentation; regexes interpreted from CPython\'s own parse tree; fork-by-re-execution on 16 processes; z3 (QF_LIA) decides every branch and assertion; counterexamples and sampled paths are replayed on the un-instrumented tree with /venv/bin/python')],
           checks=checks,
           notes='Exit codes: 0 = every path of every obligation explored and all assertions unsat-negated within the stated bounds; 1 = reproduced violation (VIOLATION line); 3 = inconclusive (engine gap, truncated exploration, non-reproducing counterexample, model-validation mismatch) - never reported as success. Bounds and what lies outside them are in each evidence file and in DESIGN.md.',
           not_applicable=[dict(property_id=k, reason=v) for k, v in sorted({**NA, **NOT_YET}.items())])
json.dump(man, open('MANIFEST.json', 'w'), indent=1)
import jsonschema
jsonschema.validate(man, json.load(open('/root/.vp/MANIFEST.schema.json')))
print('claimed', claimed, 'not yet', sorted(NOT_YET))
