"""symx prototype values: SymBool, SymInt, SymStr (concrete shape, symbolic chars)."""
import z3
from . import core
from .core import branch, Unsupported

# ------------------------------------------------------------------ helpers
def is_sym(x):
    return isinstance(x, (SymBool, SymInt, SymStr))

def mkbool(t):
    if isinstance(t, bool):
        return t
    t = z3.simplify(t)
    if z3.is_true(t):
        return True
    if z3.is_false(t):
        return False
    return SymBool(t)

def mkint(t):
    if isinstance(t, int):
        return t
    t = z3.simplify(t)
    if z3.is_int_value(t):
        return t.as_long()
    return SymInt(t)

def bt(x):
    """python bool / SymBool -> z3 Bool"""
    if isinstance(x, SymBool):
        return x.t
    if isinstance(x, bool):
        return z3.BoolVal(x)
    raise Unsupported('bt(%r)' % type(x))

def it(x):
    if isinstance(x, SymInt):
        return x.t
    if isinstance(x, bool):
        return z3.IntVal(int(x))
    if isinstance(x, int):
        return z3.IntVal(x)
    if isinstance(x, SymBool):
        return z3.If(x.t, z3.IntVal(1), z3.IntVal(0))
    return None

class SymBool:
    __slots__ = ('t',)
    def __init__(self, t): self.t = t
    def __bool__(self): return branch(self.t)
    def __and__(self, o): return mkbool(z3.And(self.t, bt(o)))
    __rand__ = __and__
    def __or__(self, o): return mkbool(z3.Or(self.t, bt(o)))
    __ror__ = __or__
    def __xor__(self, o): return mkbool(z3.Xor(self.t, bt(o)))
    __rxor__ = __xor__
    def __invert__(self): raise Unsupported('~SymBool')
    def __eq__(self, o):
        if isinstance(o, (bool, SymBool)): return mkbool(self.t == bt(o))
        if isinstance(o, (int, SymInt)): return mkint(it(self)) == o
        return False
    def __ne__(self, o):
        r = self.__eq__(o)
        return (not r) if isinstance(r, bool) else mkbool(z3.Not(r.t))
    def __hash__(self): raise Unsupported('hash(SymBool)')
    def __int__(self): return 1 if branch(self.t) else 0
    def __index__(self): return self.__int__()
    def __add__(self, o): return mkint(it(self)) + o
    __radd__ = __add__
    def __repr__(self): return 'SymBool(%s)' % self.t
    def __deepcopy__(self, memo): return self
    def __copy__(self): return self

def sym_not(x):
    if isinstance(x, SymBool):
        return mkbool(z3.Not(x.t))
    return not x

class SymInt:
    __slots__ = ('t',)
    def __init__(self, t): self.t = t
    def _cmp(self, o, f):
        t = it(o)
        if t is None: return NotImplemented
        return mkbool(f(self.t, t))
    def __eq__(self, o):
        t = it(o)
        return False if t is None else mkbool(self.t == t)
    def __ne__(self, o):
        t = it(o)
        return True if t is None else mkbool(self.t != t)
    def __lt__(self, o): return self._cmp(o, lambda a, b: a < b)
    def __le__(self, o): return self._cmp(o, lambda a, b: a <= b)
    def __gt__(self, o): return self._cmp(o, lambda a, b: a > b)
    def __ge__(self, o): return self._cmp(o, lambda a, b: a >= b)
    def _ar(self, o, f):
        t = it(o)
        if t is None: return NotImplemented
        return mkint(f(self.t, t))
    def __add__(self, o): return self._ar(o, lambda a, b: a + b)
    def __radd__(self, o): return self._ar(o, lambda a, b: b + a)
    def __sub__(self, o): return self._ar(o, lambda a, b: a - b)
    def __rsub__(self, o): return self._ar(o, lambda a, b: b - a)
    def __neg__(self): return mkint(-self.t)
    def __pos__(self): return self
    def __abs__(self): return mkint(z3.If(self.t >= 0, self.t, -self.t))
    def __mul__(self, o):
        if isinstance(o, SymInt):
            o = concretize_int(o)
        if isinstance(o, (str, SymStr)):
            return o * concretize_int(self)
        t = it(o)
        if t is None: return NotImplemented
        return mkint(self.t * t)
    __rmul__ = __mul__
    def _divmod(self, o):
        # floor semantics; divisor forked to a concrete value
        d = concretize_int(o) if isinstance(o, SymInt) else int(o)
        if d == 0:
            raise ZeroDivisionError('integer division or modulo by zero')
        q = z3.Int(core.fresh_name('q')); r = z3.Int(core.fresh_name('r'))
        s = core.ctx().solver
        s.add(self.t == q * d + r)
        if d > 0: s.add(r >= 0, r < d)
        else: s.add(r <= 0, r > d)
        return mkint(q), mkint(r)
    def __floordiv__(self, o): return self._divmod(o)[0]
    def __mod__(self, o): return self._divmod(o)[1]
    def __rfloordiv__(self, o):
        d = concretize_int(self)
        return o // d
    def __rmod__(self, o):
        d = concretize_int(self)
        return o % d
    def __bool__(self): return branch(self.t != 0)
    def __hash__(self): raise Unsupported('hash(SymInt)')
    def __index__(self): return concretize_int(self)
    def __int__(self): return concretize_int(self)
    def __repr__(self): return 'SymInt(%s)' % self.t
    def __deepcopy__(self, memo): return self
    def __copy__(self): return self

def concretize_int(x, limit=64):
    """fork over the feasible values of x (must be a small domain under the pc)"""
    if not isinstance(x, SymInt):
        return int(x)
    c = core.ctx()
    for _ in range(limit):
        ok, m = c.sat(z3.BoolVal(True))
        if not ok:
            raise core.PathAbort('concretize')
        v = m.eval(x.t, model_completion=True).as_long()
        if branch(x.t == v):
            return v
    raise Unsupported('concretize_int: domain larger than %d' % limit)

# ------------------------------------------------------------------ strings
def _c(ch):
    return ch if isinstance(ch, int) else None

def ceq(a, b):
    if isinstance(a, int) and isinstance(b, int):
        return a == b
    return (z3.IntVal(a) if isinstance(a, int) else a) == (z3.IntVal(b) if isinstance(b, int) else b)

def zc(a):
    return z3.IntVal(a) if isinstance(a, int) else a

def cin_range(ch, lo, hi):
    if isinstance(ch, int):
        return lo <= ch <= hi
    return z3.And(ch >= lo, ch <= hi)

def zor(xs):
    xs = list(xs)
    if any(x is True for x in xs): return True
    xs = [x for x in xs if x is not False]
    if not xs: return False
    return z3.Or(xs) if len(xs) > 1 else xs[0]

def zand(xs):
    xs = list(xs)
    if any(x is False for x in xs): return False
    xs = [x for x in xs if x is not True]
    if not xs: return True
    return z3.And(xs) if len(xs) > 1 else xs[0]

def znot(x):
    if isinstance(x, bool): return not x
    return z3.Not(x)

def decide(x):
    """python bool or z3 Bool -> python bool (forking)"""
    if isinstance(x, bool): return x
    return branch(x)

SPACE = (9, 10, 11, 12, 13, 28, 29, 30, 31, 32)
def c_isspace(ch): return zor([ceq(ch, s) for s in SPACE]) if not isinstance(ch, int) else ch in SPACE
def c_isdigit(ch): return cin_range(ch, 48, 57)
def c_isupper(ch): return cin_range(ch, 65, 90)
def c_islower(ch): return cin_range(ch, 97, 122)
def c_isalpha(ch): return zor([c_isupper(ch), c_islower(ch)])
def c_isalnum(ch): return zor([c_isalpha(ch), c_isdigit(ch)])
def c_isword(ch): return zor([c_isalnum(ch), ceq(ch, 95)])

def chars_of(x):
    if isinstance(x, SymStr): return x.c
    if isinstance(x, str): return [ord(ch) for ch in x]
    return None

def mkstr(chars):
    chars = list(chars)
    out = []
    for ch in chars:
        if not isinstance(ch, int):
            s = z3.simplify(ch)
            ch = s.as_long() if z3.is_int_value(s) else s
        out.append(ch)
    if all(isinstance(ch, int) for ch in out):
        return ''.join(map(chr, out))
    return SymStr(out)

class SymStr:
    __slots__ = ('c',)
    def __init__(self, chars): self.c = list(chars)
    def __len__(self): return len(self.c)
    def __bool__(self): return len(self.c) > 0
    def __iter__(self):
        for ch in self.c:
            yield mkstr([ch])
    def __getitem__(self, i):
        if isinstance(i, slice):
            st = [concretize_int(v) if isinstance(v, SymInt) else v for v in (i.start, i.stop, i.step)]
            return mkstr(self.c[slice(*st)])
        if isinstance(i, SymInt): i = concretize_int(i)
        return mkstr([self.c[i]])
    def __add__(self, o):
        oc = chars_of(o)
        if oc is None: return NotImplemented
        return mkstr(self.c + oc)
    def __radd__(self, o):
        oc = chars_of(o)
        if oc is None: return NotImplemented
        return mkstr(oc + self.c)
    def __mul__(self, n):
        if isinstance(n, SymInt): n = concretize_int(n)
        return mkstr(self.c * n)
    __rmul__ = __mul__
    def __eq__(self, o):
        oc = chars_of(o)
        if oc is None or len(oc) != len(self.c): return False
        return mkbool_any(zand([ceq(a, b) for a, b in zip(self.c, oc)]))
    def __ne__(self, o):
        return sym_not(self.__eq__(o))
    def _lt(self, a, b, strict):
        n = min(len(a), len(b))
        res = z3.BoolVal(len(a) < len(b)) if strict else z3.BoolVal(len(a) <= len(b))
        for i in reversed(range(n)):
            x, y = zc(a[i]), zc(b[i])
            res = z3.If(x < y, z3.BoolVal(True), z3.If(x > y, z3.BoolVal(False), res))
        return mkbool(res)
    def __lt__(self, o):
        oc = chars_of(o)
        if oc is None: return NotImplemented
        return self._lt(self.c, oc, True)
    def __le__(self, o):
        oc = chars_of(o)
        if oc is None: return NotImplemented
        return self._lt(self.c, oc, False)
    def __gt__(self, o):
        oc = chars_of(o)
        if oc is None: return NotImplemented
        return self._lt(oc, self.c, True)
    def __ge__(self, o):
        oc = chars_of(o)
        if oc is None: return NotImplemented
        return self._lt(oc, self.c, False)
    def __hash__(self): raise Unsupported('hash(SymStr)')
    def __repr__(self): return 'SymStr<%d>' % len(self.c)
    def __str__(self):
        core.ctx().taint = True
        return '' * len(self.c)
    def __format__(self, spec):
        core.ctx().taint = True
        return format('' * len(self.c), spec)
    def __deepcopy__(self, memo): return self
    def __copy__(self): return self
    def __contains__(self, sub):
        return decide(bt_any(self._contains(sub)))
    def _match_at(self, i, oc):
        if i < 0 or i + len(oc) > len(self.c): return False
        return zand([ceq(self.c[i + k], oc[k]) for k in range(len(oc))])
    def _contains(self, sub):
        oc = chars_of(sub)
        if oc is None: raise TypeError('in <string> requires string')
        return zor([self._match_at(i, oc) for i in range(len(self.c) - len(oc) + 1)])
    def startswith(self, p, start=0):
        if isinstance(p, tuple):
            return mkbool_any(zor([bt_any(self.startswith(x, start)) for x in p]))
        return mkbool_any(self._match_at(start, chars_of(p)))
    def endswith(self, p):
        if isinstance(p, tuple):
            return mkbool_any(zor([bt_any(self.endswith(x)) for x in p]))
        oc = chars_of(p)
        return mkbool_any(self._match_at(len(self.c) - len(oc), oc))
    def find(self, sub, start=0, end=None):
        oc = chars_of(sub)
        end = len(self.c) if end is None else min(end, len(self.c))
        if start < 0: start = max(0, len(self.c) + start)
        for i in range(start, end - len(oc) + 1):
            if decide(self._match_at(i, oc)):
                return i
        return -1
    def rfind(self, sub):
        oc = chars_of(sub)
        for i in reversed(range(0, len(self.c) - len(oc) + 1)):
            if decide(self._match_at(i, oc)):
                return i
        return -1
    def index(self, sub, start=0):
        r = self.find(sub, start)
        if r < 0: raise ValueError('substring not found')
        return r
    def count(self, sub):
        oc = chars_of(sub); n = 0; i = 0
        while i <= len(self.c) - len(oc):
            if decide(self._match_at(i, oc)):
                n += 1; i += max(1, len(oc))
            else:
                i += 1
        return n
    def replace(self, old, new, count=-1):
        oc = chars_of(old); nc = chars_of(new)
        if not oc: raise Unsupported('replace empty')
        out = []; i = 0; done = 0
        while i < len(self.c):
            if (count < 0 or done < count) and decide(self._match_at(i, oc)):
                out.extend(nc); i += len(oc); done += 1
            else:
                out.append(self.c[i]); i += 1
        return mkstr(out)
    def _strip_pred(self, chars):
        if chars is None:
            return c_isspace
        cs = chars_of(chars)
        return lambda ch: zor([ceq(ch, x) for x in cs])
    def lstrip(self, chars=None):
        p = self._strip_pred(chars); i = 0
        while i < len(self.c) and decide(p(self.c[i])): i += 1
        return mkstr(self.c[i:])
    def rstrip(self, chars=None):
        p = self._strip_pred(chars); j = len(self.c)
        while j > 0 and decide(p(self.c[j - 1])): j -= 1
        return mkstr(self.c[:j])
    def strip(self, chars=None):
        r = self.lstrip(chars)
        return r.rstrip(chars) if isinstance(r, SymStr) else r.strip(chars)
    def split(self, sep=None, maxsplit=-1):
        out = []
        if sep is None:
            cur = []; n = 0; i = 0
            L = len(self.c)
            while i < L:
                if decide(c_isspace(self.c[i])):
                    if cur:
                        out.append(mkstr(cur)); cur = []; n += 1
                    i += 1
                    if maxsplit >= 0 and n >= maxsplit and not cur:
                        # rest (after skipping leading ws) is one field
                        while i < L and decide(c_isspace(self.c[i])): i += 1
                        if i < L: out.append(mkstr(self.c[i:]).rstrip() if False else mkstr(self.c[i:]))
                        return out
                else:
                    cur.append(self.c[i]); i += 1
            if cur: out.append(mkstr(cur))
            return out
        sc = chars_of(sep)
        if not sc: raise ValueError('empty separator')
        cur = []; i = 0; n = 0
        while i < len(self.c):
            if (maxsplit < 0 or n < maxsplit) and decide(self._match_at(i, sc)):
                out.append(mkstr(cur)); cur = []; i += len(sc); n += 1
            else:
                cur.append(self.c[i]); i += 1
        out.append(mkstr(cur))
        return out
    def splitlines(self, keepends=False):
        raise Unsupported('splitlines')
    def partition(self, sep):
        i = self.find(sep)
        if i < 0: return (self, '', '')
        return (mkstr(self.c[:i]), sep, mkstr(self.c[i + len(sep):]))
    def upper(self):
        return mkstr([(ch - 32 if 97 <= ch <= 122 else ch) if isinstance(ch, int) else z3.If(z3.And(ch >= 97, ch <= 122), ch - 32, ch) for ch in self.c])
    def lower(self):
        return mkstr([(ch + 32 if 65 <= ch <= 90 else ch) if isinstance(ch, int) else z3.If(z3.And(ch >= 65, ch <= 90), ch + 32, ch) for ch in self.c])
    def _all(self, p):
        if not self.c: return False
        return mkbool_any(zand([p(ch) for ch in self.c]))
    def isspace(self): return self._all(c_isspace)
    def isdigit(self): return self._all(c_isdigit)
    def isalpha(self): return self._all(c_isalpha)
    def isalnum(self): return self._all(c_isalnum)
    def translate(self, table):
        out = []
        for ch in self.c:
            done = False
            for k, v in table.items():
                if decide(ceq(ch, k)):
                    out.extend(chars_of(v) if v is not None else []); done = True; break
            if not done: out.append(ch)
        return mkstr(out)
    def join(self, items):
        out = []
        for n, it_ in enumerate(items):
            if n: out.extend(self.c)
            out.extend(chars_of(it_))
        return mkstr(out)
    def encode(self, *a): raise Unsupported('encode')

def mkbool_any(x):
    if isinstance(x, bool): return x
    return mkbool(x)

def bt_any(x):
    if isinstance(x, bool): return x
    if isinstance(x, SymBool): return x.t
    return x

# ------------------------------------------------------------------ conversions
def sym_int_of_str(s, base=10):
    """int(str) for ASCII; s may be SymStr"""
    if isinstance(s, str):
        return int(s, base)
    cs = list(s.c)
    # strip ASCII whitespace
    i, j = 0, len(cs)
    while i < j and decide(c_isspace(cs[i])): i += 1
    while j > i and decide(c_isspace(cs[j - 1])): j -= 1
    cs = cs[i:j]
    neg = False
    if cs and decide(ceq(cs[0], 45)): neg = True; cs = cs[1:]
    elif cs and decide(ceq(cs[0], 43)): cs = cs[1:]
    if base == 0:
        base = 10
        if len(cs) >= 2 and decide(ceq(cs[0], 48)):
            if decide(zor([ceq(cs[1], 120), ceq(cs[1], 88)])): base, cs = 16, cs[2:]
            elif decide(zor([ceq(cs[1], 111), ceq(cs[1], 79)])): base, cs = 8, cs[2:]
            elif decide(zor([ceq(cs[1], 98), ceq(cs[1], 66)])): base, cs = 2, cs[2:]
            else:
                # '0' followed by something else: only all zeros (and underscores) are legal
                for ch in cs:
                    if not decide(zor([ceq(ch, 48), ceq(ch, 95)])):
                        raise ValueError('invalid literal for int() with base 0')
    if not cs:
        raise ValueError('invalid literal for int()')
    t = z3.IntVal(0)
    prev_us = True  # leading underscore illegal
    for k, ch in enumerate(cs):
        if decide(ceq(ch, 95)):
            if prev_us or k == len(cs) - 1: raise ValueError('invalid literal for int()')
            prev_us = True
            continue
        prev_us = False
        if decide(c_isdigit(ch)):
            d = zc(ch) - 48
        elif base > 10 and decide(cin_range(ch, 97, 96 + base - 10)):
            d = zc(ch) - 87
        elif base > 10 and decide(cin_range(ch, 65, 64 + base - 10)):
            d = zc(ch) - 55
        else:
            raise ValueError('invalid literal for int()')
        if base < 10 and not decide(zc(ch) - 48 < base):
            raise ValueError('invalid literal for int()')
        t = t * base + d
    return mkint(-t if neg else t)

def sym_str_of_int(n, maxdigits=3):
    if not isinstance(n, SymInt):
        return str(n)
    c = core.ctx()
    neg = branch(n.t < 0)
    a = -n.t if neg else n.t
    for k in range(1, maxdigits + 1):
        lo = 0 if k == 1 else 10 ** (k - 1)
        if branch(z3.And(a >= lo, a < 10 ** k)):
            ds = [z3.Int(core.fresh_name('d')) for _ in range(k)]
            for d in ds: c.solver.add(d >= 0, d <= 9)
            c.solver.add(a == sum(d * 10 ** (k - 1 - i) for i, d in enumerate(ds)))
            chars = [d + 48 for d in ds]
            return mkstr(([45] if neg else []) + chars)
    raise core.PathAbort('str(int): more than %d digits' % maxdigits)

# ------------------------------------------------------------------ input constructors
def sym_int(name='i', lo=None, hi=None):
    v = z3.Int(core.fresh_name(name))
    s = core.ctx().solver
    if lo is not None: s.add(v >= lo)
    if hi is not None: s.add(v <= hi)
    return SymInt(v)

def sym_bool(name='b'):
    return SymBool(z3.Bool(core.fresh_name(name)))

def sym_str(n, name='s', lo=1, hi=126, alphabet=None):
    s = core.ctx().solver
    chars = []
    for i in range(n):
        v = z3.Int(core.fresh_name(name))
        if alphabet is not None:
            s.add(z3.Or([v == ord(a) for a in alphabet]))
        else:
            s.add(v >= lo, v <= hi)
        chars.append(v)
    return SymStr(chars) if n else ''

def concretize_str(x, m):
    if isinstance(x, str): return x
    return ''.join(chr(m.eval(zc(ch), model_completion=True).as_long()) for ch in x.c)
