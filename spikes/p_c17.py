import sys, time
sys.path.insert(0, __import__('os').path.dirname(__import__('os').path.abspath(__file__))); sys.path.insert(0, '/repo')
from sx import instr, core
from sx.values import *
from sx.core import choose, check, cover
instr.install()
from mesonbuild import mparser, mlog
from mesonbuild.ast.printer import AstPrinter
from mesonbuild.mesonlib import MesonException
import z3
mlog.warning = lambda *a, **k: None
mparser.decode_match = None

def decode_match(match):
    # model of codecs.decode(x.encode(), 'unicode_escape') for the single-char escapes only
    g = match.group(0)
    tbl = {"\\\\": "\\", "\\'": "'", "\\a": "\a", "\\b": "\b", "\\f": "\f", "\\n": "\n", "\\r": "\r", "\\t": "\t", "\\v": "\v"}
    if isinstance(g, str):
        import codecs
        return codecs.decode(g.encode(), 'unicode_escape')
    for k, v in tbl.items():
        if len(k) == len(g) and bool(g == k): return v
    raise core.Unsupported('escape class')
mparser.decode_match = decode_match

def strings(ast):
    out = []
    from mesonbuild.ast.visitor import AstVisitor
    class V(AstVisitor):
        def visit_StringNode(self, node): out.append(node.value)
    ast.accept(V())
    return out

def harness(n):
    def h():
        body = sym_str(n, 'b', alphabet="a'\\n\n")
        # source text must be a valid single-quoted literal: assume the lexer accepts it as one string token
        code = "x = f('" + body + "', y)\n"
        try:
            ast = mparser.Parser(code, 'f').parse()
        except MesonException:
            cover('rejected'); return
        s1 = strings(ast)
        if len(s1) != 1:
            cover('not-one-string'); return
        p = AstPrinter(); ast.accept(p); p.post_process()
        try:
            ast2 = mparser.Parser(p.result, 'f').parse()
        except MesonException:
            check(False, 'reprinted text does not parse'); return
        s2 = strings(ast2)
        check(len(s2) == 1, 'one string after reprint')
        if len(s2) == 1:
            a, b = s1[0], s2[0]
            check(len(a) == len(b), 'string length preserved')
            if len(a) == len(b): check(a == b, 'string value preserved')
        cover('done')
    return h

if __name__ == '__main__':
    for n in (1, 2, 3):
        st = core.explore(harness(n), max_paths=20000)
        print(n, 'paths', st['paths'], 'checks', st['checks'], 'viol', len(st['violations']), 'errors', len(st['errors']), st['labels'], 'time %.1f' % st['time'], st.get('truncated'), flush=True)
        for e in st['errors'][:3]: print('   ', e[:2])
        for v in st['violations'][:4]: print('   V', v[0], v[1])
