import sys, time, os, argparse, tempfile
sys.path.insert(0, __import__('os').path.dirname(__import__('os').path.abspath(__file__))); sys.path.insert(0, '/repo')
from sx import instr, core
from sx.values import *
from sx.core import choose, check, cover
instr.install()
from mesonbuild import mparser, build, environment, mlog, cmdline
from mesonbuild.interpreter import Interpreter
from mesonbuild.mesonlib import MesonException
import z3

def fake_opts():
    p = argparse.ArgumentParser()
    cmdline.register_builtin_arguments(p)
    o = p.parse_args([])
    o.cross_file = []; o.native_file = []
    cmdline.parse_cmd_line_options(o)
    return o
src = tempfile.mkdtemp(); bld = tempfile.mkdtemp()
open(os.path.join(src, 'meson.build'), 'w').write("project('p')\n")
OPTS = fake_opts()
ENV = environment.Environment(src, bld, OPTS)

def run(code, subst):
    ast = mparser.Parser(code, 'meson.build').parse()
    # replace placeholder number literals by symbolic values
    from mesonbuild.ast.visitor import AstVisitor
    class V(AstVisitor):
        def visit_NumberNode(self, node):
            if node.value in subst: node.value = subst[node.value]
    ast.accept(V())
    it = Interpreter(build.Build(ENV), ast=ast, backend=None, user_defined_options=OPTS)
    it.run()
    return it

def unh(v):
    return v.held_object

OPS = ['+', '-', '*', '/', '%']
def harness():
    a = sym_int('a', -50, 50); b = sym_int('b', -50, 50); c = sym_int('c', -4, 4)
    o1 = choose(5, 'o1'); o2 = choose(5, 'o2')
    code = "project('p')\nx = 1001 %s 1002 %s 1003\n" % (OPS[o1], OPS[o2])
    def ap(op, x, y):
        if op == '+': return x + y
        if op == '-': return x - y
        if op == '*': return x * y
        if op == '/':
            if bool(y == 0): raise ZeroDivisionError
            return x // y
        if bool(y == 0): raise ZeroDivisionError
        return x % y
    # reference: documented precedence (* / % bind tighter, left assoc)
    hi = ('*', '/', '%')
    try:
        if OPS[o2] in hi and OPS[o1] not in hi:
            exp = ap(OPS[o1], a, ap(OPS[o2], b, c))
        else:
            exp = ap(OPS[o2], ap(OPS[o1], a, b), c)
        experr = False
    except ZeroDivisionError:
        experr = True
    try:
        it = run(code, {1001: a, 1002: b, 1003: c})
        goterr = False
    except MesonException as e:
        goterr = True
    check(goterr == experr, 'error agreement')
    if not goterr and not experr:
        check(unh(it.variables['x']) == exp, 'value')
    cover('done')

if __name__ == '__main__':
    st = core.explore(harness, max_paths=5000)
    print('paths', st['paths'], 'checks', st['checks'], 'viol', len(st['violations']), 'errors', len(st['errors']), st['labels'], 'time %.1f' % st['time'], st.get('truncated'), flush=True)
    for e in st['errors'][:3]: print('   ', e[:2])
    for v in st['violations'][:3]: print('   V', v[0], v[1])
