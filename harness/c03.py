"""C03 - commands receive exactly the arguments the build definition specifies (Ninja, shell, response-file layers)."""
from symx.api import *
import os
from harness.ninjaref import (DecodeError, parse_manifest, evaluate, sh_split, buildargv, cmdline_to_argv, path_text)

PROPERTY = 'C03'
LEVEL = 'other'
INSTRUMENT = dict(prefixes=('mesonbuild.',), exact=('mesonbuild', 'shlex', 'argparse'))
FILES = ['mesonbuild/backend/ninjabackend.py', 'mesonbuild/backend/backends.py', 'mesonbuild/utils/universal.py', 'mesonbuild/mtest.py']
ENCODED = ['ninjabackend.ninja_quote', 'quote_func -> mesonlib.quote_arg -> shlex.quote (stdlib, instrumented)', 'gcc_rsp_quote', 'cmd_quote',
           'NinjaCommandArg', 'NinjaRule.__init__/_quoter/write/_length_estimate/should_use_rspfile',
           'NinjaBuildElement.add_item/write/_should_use_rspfile/count_rule_references/check_outputs', 'NinjaBuild.add_rule/add_build/write',
           'Backend.escape_extra_args', 'mesonlib.join_args/split_args (shlex.split, instrumented)',
           'Backend.as_meson_exe_cmdline / get_executable_serialisation (decision to serialise, --capture/--feed wrapping, digest-named pickle file; hashlib, pickle.dump and open are recorders)',
           'scripts/meson_exe.run + buildparser (argparse.parse_known_args from the stdlib, instrumented; run_exe is a recorder)',
           'mesonlib.get_filenames_templates_dict / substitute_values / _substitute_values_check_errors (@TEMPLATE@ substitution)',
           'project-commands: Interpreter.run + NinjaBackend.generate (generate_custom_target, eval_custom_target_command, generate_genlist_for_target, Backend.replace_outputs / replace_extra_args / replace_paths) on generated projects (harness/proj.py)']
EXPLANATION = ('Symbolic execution of the real manifest writer: argument strings are symbolic over ASCII 1..126 (every quote, $, #, ;, glob, backslash, newline, '
               'control character at once), rsp_threshold is a symbolic integer so both the command-line and the response-file branch are explored for every '
               'argument; the text written is decoded by reference implementations of the consumers (Ninja lexer + $-evaluation with rule/build scoping, POSIX sh word '
               'splitting, libiberty buildargv, CommandLineToArgvW) and the decoded argv must equal the arguments given.')
ASSUMPTIONS = ['alphabet ASCII 1..126 (no NUL, no non-ASCII)', 'reference decoders of ninja / sh / buildargv / CommandLineToArgvW are the trusted base (DESIGN.md A.5)',
               'rule-level literal arguments do not start with $ (internal API: a leading $ denotes a ninja variable reference)',
               'POSIX host (quote_func = shlex.quote)']
OUT = ('meson_exe.run_exe on the unpickled object and mtest create_subprocess_exec (data through pickle, a C module), the part of eval_custom_target_command around '
       'substitute_values (needs Build objects; the substitution itself is decided), cmd.exe semantics beyond CommandLineToArgvW, the env K=V wrapper, non-ASCII, arguments longer than the bound')
MANIFEST = dict(
    text='Bounded symbolic decision of the quoting layers: for ALL argument strings up to the stated length over ASCII 1..126, in each command position and for both the '
         'command-line and the response-file branch, what meson writes decodes back (by independent reference decoders of ninja, sh, buildargv, CommandLineToArgvW) to '
         'exactly the given argv. Also decided: @TEMPLATE@ substitution (substitute_values), the decision to use and the naming of the pickled exe wrapper and its non-pickled command line (real argparse), the argv meson test executes (real SingleTestRunner up to create_subprocess_exec), link-argument sources per target, and the custom_target / generator commands of whole configurations of generated projects without a compiled language (decoded from build.ninja). The pickle byte format and the unpickling side are outside.',
    note='Trusted: symx engine, z3, the four reference decoders. Bounds: one argument up to 4 (quick) / 6 (thorough) characters, two arguments up to 2/3 each. '
         'Not decided: pickle byte format, mtest, Windows host.')

nb = ME = Backend = mesonlib = RSP = None


def setup():
    global nb, ME, Backend, mesonlib, RSP
    from mesonbuild.backend import ninjabackend as nb_
    from mesonbuild.backend.backends import Backend as B_
    from mesonbuild import mesonlib as ml_
    from mesonbuild.linkers import RSPFileSyntax
    nb, ME, Backend, mesonlib, RSP = nb_, ml_.MesonException, B_, ml_, RSPFileSyntax
    from harness.common import quiet_mlog
    nb_.mlog = quiet_mlog()
    if hasattr(ml_.quote_arg, '__wrapped__'):
        import mesonbuild.utils.universal as U
        U.quote_arg = U.quote_arg.__wrapped__; ml_.quote_arg = U.quote_arg; nb_.quote_arg = U.quote_arg
        if nb_.quote_func.__name__ == 'quote_arg': nb_.quote_func = U.quote_arg


class Out:
    def __init__(self): self.parts = []
    def write(self, s): self.parts.append(s)
    def text(self):
        out = ''
        for p in self.parts: out = out + p
        return out


def has_newline(args):
    r = False
    for a in args:
        r = sym_or(r, mkbool(zor([ceq(ch, 10) for ch in chars_of(a)])))
    return r


def expect_eq(got, exp, what):
    check(len(got) == len(exp), what + ': argument count')
    if len(got) == len(exp):
        for g, e in zip(got, exp):
            check(eq(g, e), what + ': argument bytes')


def ob_element(lens, style):
    """per-build variable (ARGS / LINK_ARGS / COMMAND position) referenced by a rule; rsp or not"""
    def h():
        args = [sym_str(n, 'a%d' % i) for i, n in enumerate(lens)]
        nb.rsp_threshold = sym_int('rsp_threshold', 0, 1000)
        st = {'gcc': RSP.GCC, 'msvc': RSP.MSVC}[style]
        rule = nb.NinjaRule('R', ['cc'], ['$ARGS', '-o', '$out', '$in'], 'd', rspable=True, rspfile_quote_style=st)
        b = nb.NinjaBuild(); b.add_rule(rule)
        el = nb.NinjaBuildElement(set(), 'out.o', 'R', 'in.c')
        el.add_item('ARGS', list(args))
        b.add_build(el)
        o = Out()
        try:
            b.write(o)
        except ME:
            check(has_newline(args), 'MesonException only for an argument containing a newline'); cover('newline-rejected'); return
        check(sym_not(has_newline(args)), 'a newline never reaches the manifest')
        try:
            rules, builds = parse_manifest(o.text())
            check(len(builds) == 1, 'one build statement')
            bd = builds[0]
            rn = bd['rule']
            check(isinstance(rn, str) and rn in rules, 'build statement uses a defined rule')
            r = rules[rn]
            cmd = sh_split(evaluate(r['command'], bd, rules))
            for a in args:
                if decide(bt_any(a == '&&')):
                    cover('andand'); return         # documented rewrite: an element that is exactly && separates commands
            if rn == 'R_RSP':
                cover('rsp-branch')
                check(eq(cmd, ['cc', '@out.o.rsp']), 'rsp command line')
                content = evaluate(r['rspfile_content'], bd, rules)
                argv = buildargv(content) if style == 'gcc' else cmdline_to_argv(content)
                expect_eq(argv, args + ['-o', 'out.o', 'in.c'], 'response file')
            else:
                cover('cmdline-branch')
                expect_eq(cmd, ['cc'] + args + ['-o', 'out.o', 'in.c'], 'command line')
        except DecodeError as e:
            check(False, 'manifest text is not decodable by the consumer: %s' % e)
        cover('roundtrip')
    return h


def ob_two_statements(n):
    """the same argument string in two build statements of one manifest, one short and one long: with a symbolic threshold one goes through a
    response file and the other does not - each must still receive exactly its arguments"""
    def h():
        a = sym_str(n, 'shared')
        nb.rsp_threshold = sym_int('rsp_threshold', 0, 300)
        b = nb.NinjaBuild(); b.add_rule(nb.NinjaRule('R', ['cc'], ['$ARGS', '-o', '$out', '$in'], 'd', rspable=True))
        pad = 'p' * 60
        order = choose(2, 'long_first')
        specs = [('s.o', [a]), ('l.o', [a, pad, a])]
        if order: specs.reverse()
        for out, args in specs:
            el = nb.NinjaBuildElement(set(), out, 'R', 'in.c'); el.add_item('ARGS', list(args)); b.add_build(el)
        o = Out()
        try:
            b.write(o)
        except ME:
            check(has_newline([a]), 'MesonException only for newline'); cover('newline-rejected'); return
        try:
            rules, builds = parse_manifest(o.text())
            if decide(bt_any(a == '&&')): cover('andand'); return
            kinds = set()
            for bd in builds:
                want = dict(specs)[path_text(bd['outs'][0])]
                r = rules[bd['rule']]
                cmd = sh_split(evaluate(r['command'], bd, rules))
                if bd['rule'] == 'R_RSP':
                    argv = buildargv(evaluate(r['rspfile_content'], bd, rules)); kinds.add('rsp')
                    expect_eq(argv, want + ['-o', path_text(bd['outs'][0]), 'in.c'], 'response file of one of two statements')
                else:
                    kinds.add('plain')
                    expect_eq(cmd, ['cc'] + want + ['-o', path_text(bd['outs'][0]), 'in.c'], 'command line of one of two statements')
            cover('mixed' if len(kinds) == 2 else 'uniform')
        except DecodeError as e:
            check(False, 'manifest text is not decodable by the consumer: %s' % e)
    return h


def ob_rule(lens):
    """literal arguments of a rule's own command / args lists"""
    def h():
        c = sym_str(lens[0], 'c'); a = sym_str(lens[1], 'a')
        for s in (c, a):
            if len(s): assume(sym_not(s[0] == '$'))
        nb.rsp_threshold = sym_int('rsp_threshold', 0, 1000)
        try:
            rule = nb.NinjaRule('R', ['cc', c], [a, '$in'], 'd', rspable=True)
            b = nb.NinjaBuild(); b.add_rule(rule)
            el = nb.NinjaBuildElement(set(), 'o', 'R', 'i')
            b.add_build(el)
            o = Out(); b.write(o)
        except ME:
            check(has_newline([c, a]), 'MesonException only for an argument containing a newline'); cover('newline-rejected'); return
        try:
            rules, builds = parse_manifest(o.text())
            bd = builds[0]; r = rules[bd['rule']]
            cmd = sh_split(evaluate(r['command'], bd, rules))
            if decide(bt_any(c == '&&')) or decide(bt_any(a == '&&')):
                cover('andand'); return
            if bd['rule'] == 'R_RSP':
                expect_eq(cmd, ['cc', c, '@o.rsp'], 'rule command (rsp)')
                expect_eq(buildargv(evaluate(r['rspfile_content'], bd, rules)), [a, 'i'], 'rule args in response file'); cover('rsp-branch')
            else:
                expect_eq(cmd, ['cc', c, a, 'i'], 'rule command'); cover('cmdline-branch')
        except DecodeError as e:
            check(False, 'manifest text is not decodable by the consumer: %s' % e)
    return h


def ob_raw(n):
    """raw-name variables (DESC, description...) are read by ninja itself: only $-escaped, never shell quoted"""
    def h():
        s = sym_str(n, 's'); t = sym_str(1, 't')
        el = nb.NinjaBuildElement(set(), 'o', 'phony', 'i')
        el.add_item('DESC', [s, t])
        o = Out()
        try:
            el.write(o)
        except ME:
            check(has_newline([s, t]), 'MesonException only for newline'); cover('newline-rejected'); return
        try:
            rules, builds = parse_manifest(o.text())
            got = evaluate(builds[0]['vars']['DESC'], builds[0], rules)
            check(eq(got, s + ' ' + t), 'raw variable value is the space-joined text'); cover('roundtrip')
        except DecodeError as e:
            check(False, 'not decodable: %s' % e)
    return h


def ob_escape(n):
    def h():
        kind = choose(3, 'prefix')
        body = sym_str(n, 'b')
        a = ['-D', '/D', '-I'][kind] + body
        other = sym_str(1, 'o')
        got = Backend.escape_extra_args([a, other])
        check(len(got) == 2, 'count preserved')
        exp = a
        if kind < 2:
            exp = ''
            for ch in a:
                exp = exp + (ch + ch if decide(bt_any(ch == '\\')) else ch)
        check(eq(got[0], exp), 'backslashes doubled exactly in -D and /D arguments')
        if not decide(bt_any(other == '\\')):
            check(eq(got[1], other), 'other arguments untouched')
        cover('define' if kind < 2 else 'other')
    return h


def ob_quoters(n):
    def h():
        s = sym_str(n, 's')
        try:
            expect_eq(sh_split(mesonlib.quote_arg(s)), [s], 'quote_arg -> sh')
            expect_eq(buildargv(nb.gcc_rsp_quote(s)), [s], 'gcc_rsp_quote -> buildargv')
            if not decide(has_newline([s])):       # ninja_quote rejects newlines before cmd_quote output could be used
                expect_eq(cmdline_to_argv(nb.cmd_quote(s)), [s], 'cmd_quote -> CommandLineToArgvW')
        except DecodeError as e:
            check(False, 'quoted text not decodable: %s' % e)
        cover('done')
    return h


def ob_joinsplit(lens):
    def h():
        args = [sym_str(n, 'a%d' % i) for i, n in enumerate(lens)]
        got = mesonlib.split_args(mesonlib.join_args(args))
        expect_eq(got, args, 'split_args(join_args(x))')
        cover('done')
    return h


class FakeHasher:
    def __init__(self, log): self.parts = []; log.append(self)
    def update(self, b):
        self.parts.append(b.s if hasattr(b, 's') else (b.decode() if isinstance(b, bytes) else b))
    def hexdigest(self): return 'H%d' % id(self)
    def text(self):
        out = ''
        for p in self.parts: out = out + p
        return out


def run_wrapper(be, BK, args, **kw):
    """the real as_meson_exe_cmdline with hashlib / pickle / open replaced by recorders; -> (cmdline, pickled object or None, hasher or None)"""
    import types
    hashers = []; pickled = []
    saved = (BK.hashlib, BK.pickle, BK.__dict__.get('open'))
    BK.hashlib = types.SimpleNamespace(sha1=lambda: FakeHasher(hashers))
    BK.pickle = types.SimpleNamespace(dump=lambda es, f: pickled.append(es))

    class F:
        def __init__(self, name): self.name = name
        def __enter__(self): return self
        def __exit__(self, *a): return False
    BK.open = lambda name, mode='r', **k: F(name)
    try:
        cmd, reason = be.as_meson_exe_cmdline('prog', list(args), **kw)
    finally:
        BK.hashlib, BK.pickle = saved[0], saved[1]
        if saved[2] is None: del BK.open
        else: BK.open = saved[2]
    return cmd, (pickled[0] if pickled else None), (hashers[-1] if hashers else None)


def mk_backend_stub():
    import types
    from mesonbuild.backend import backends as BK
    be = object.__new__(BK.Backend)
    machine = types.SimpleNamespace(is_windows=lambda: False, is_cygwin=lambda: False)

    class Machines:
        def __getitem__(self, k): return machine
        def matches_build_machine(self, m): return True
    be.environment = types.SimpleNamespace(machines=Machines(), get_build_dir=lambda: '/bld', need_exe_wrapper=lambda: False, has_exe_wrapper=lambda: False,
                                           get_exe_wrapper=lambda: None, get_scratch_dir=lambda: '/bld/meson-private', get_build_command=lambda: ['meson'])
    be.get_exe_interpreter = lambda cmd, m: []
    return be, BK


WA = "a ',\\"


def ob_wrapper_pair(la, lb):
    """two commands that must be serialised (workdir given): each pickle holds exactly its argv, and different argv never share a pickle file
    (the file name is a digest of the arguments: hashlib is modelled as injective, so equal digest input means equal file)"""
    def h():
        if not concrete():
            from symx import instr
            instr.PRECISE_REPR[0] = True
        try:
            be, BK = mk_backend_stub()
            A = [sym_str(n, 'a%d' % i, alphabet=WA) for i, n in enumerate(la)]
            B_ = [sym_str(n, 'b%d' % i, alphabet=WA) for i, n in enumerate(lb)]
            ca, pa, ha = run_wrapper(be, BK, A, workdir='/w')
            cb, pb, hb = run_wrapper(be, BK, B_, workdir='/w')
            check(pa is not None and pb is not None, 'a command with a workdir goes through the pickled wrapper')
            if pa is None or pb is None: return
            expect_eq(pa.cmd_args, ['prog'] + A, 'pickled argv of the first command')
            expect_eq(pb.cmd_args, ['prog'] + B_, 'pickled argv of the second command')
            check('--unpickle' in ca and '--unpickle' in cb, 'the command line runs the pickle')
            ta, tb = ha.text(), hb.text()
            same_file = len(ta) == len(tb) and decide(bt_any(eq(ta, tb)))
            same_args = len(A) == len(B_) and all(len(x) == len(y) and decide(bt_any(eq(x, y))) for x, y in zip(A, B_))
            check((not same_file) or same_args, 'two commands with different arguments never share a pickle file')
            cover('same-file' if same_file else 'different-files')
        finally:
            if not concrete():
                instr.PRECISE_REPR[0] = False
    return h


def ob_wrapper_modes(n):
    """plain / capture / feed / newline: the arguments arrive unchanged whichever way the command is wrapped"""
    def h():
        be, BK = mk_backend_stub()
        A = [sym_str(n, 'a0'), sym_str(1, 'a1')]
        mode = choose(4, 'mode')
        kw = [{}, {'capture': 'out.txt'}, {'feed': 'in.txt'}, {'workdir': '/w'}][mode]
        if not concrete():
            from symx import instr
            instr.PRECISE_REPR[0] = True
        try:
            cmd, pk, hh = run_wrapper(be, BK, A, **kw)
        finally:
            if not concrete(): instr.PRECISE_REPR[0] = False
        nl = decide(bt_any(has_newline(A)))
        if pk is not None:
            check(mode == 3 or nl, 'serialised only when it has to be (workdir / newline)')
            expect_eq(pk.cmd_args, ['prog'] + A, 'pickled argv'); cover('pickled')
        else:
            check(not nl, 'an argument with a newline always goes through the pickle (ninja cannot carry it)')
            if mode == 0:
                expect_eq(cmd, ['prog'] + A, 'plain command line'); cover('plain')
            else:
                check('--' in cmd, 'the wrapper command line separates its own options from the user\'s argv with --')
                if '--' not in cmd: return
                i = cmd.index('--')
                expect_eq(cmd[i + 1:], ['prog'] + A, 'arguments after -- of the internal exe wrapper')
                check(('--capture' in cmd[:i]) == (mode == 1) and ('--feed' in cmd[:i]) == (mode == 2), 'capture / feed flags'); cover('internal-exe')
    return h


def run_meson_exe(argv):
    """the real `meson --internal exe` front end (scripts/meson_exe.run: argparse.parse_known_args, '--' handling) with run_exe replaced by a recorder;
    -> the ExecutableSerialisation it would run, or the string 'rejected'"""
    from mesonbuild.scripts import meson_exe as MX
    got = []
    saved = MX.run_exe
    MX.run_exe = lambda exe, extra_env=None: (got.append(exe), 0)[1]
    try:
        try:
            MX.run(list(argv))
        except SystemExit:
            return 'rejected'
    finally:
        MX.run_exe = saved
    return got[0] if got else 'rejected'


def ob_wrapper_argv(lens, alphabet):
    """capture / feed without serialisation: the wrapper command line is parsed again by `meson --internal exe`; the user's argv must come out of THAT
    parser unchanged - in particular arguments that look like the wrapper's own options (--capture, --feed, --unpickle, -h, prefixes, --x=y)"""
    def h():
        be, BK = mk_backend_stub()
        A = [sym_str(n, 'a%d' % i, alphabet=alphabet) for i, n in enumerate(lens)]
        mode = 1 + choose(3, 'mode')
        kw = [None, {'capture': 'out.txt'}, {'feed': 'in.txt'}, {'capture': 'out.txt', 'feed': 'in.txt'}][mode]
        cmd, pk, hh = run_wrapper(be, BK, A, **kw)
        if pk is not None:
            cover('pickled'); return
        check('exe' in cmd, 'capture / feed go through meson --internal exe')
        if 'exe' not in cmd: return
        tail = cmd[cmd.index('exe') + 1:]
        exe = run_meson_exe(tail)
        check(exe != 'rejected', 'the wrapper accepts the command line meson generated')
        if exe == 'rejected': return
        expect_eq(exe.cmd_args, ['prog'] + A, 'argv after the wrapper\'s own option parsing')
        check(exe.capture == kw.get('capture') and exe.feed == kw.get('feed'), 'capture / feed files as specified')
        cover('parsed')
    return h


TOKENS = ['', '@INPUT@', '@OUTPUT@', '@INPUT0@', '@INPUT1@', '@OUTPUT0@', '@OUTPUT1@', '@OUTDIR@', '@PLAINNAME@', '@BASENAME@', '@PLAINNAME0@', '@FOO@']


def ref_substitute(cmd, values):
    """the documented meaning of @TEMPLATE@ substitution (custom_target / generator command): an argument that IS @INPUT@ / @OUTPUT@ becomes all inputs /
    outputs; inside a longer argument every known template is replaced by its value (an embedded @INPUT@ / @OUTPUT@ only with a single file);
    everything else - lone @, unknown @NAMES@, all other characters - is copied"""
    keys = list(values)
    out = []
    for a in cmd:
        whole = None
        for k in keys:
            if len(a) == len(k) and decide(bt_any(a == k)): whole = k; break
        if whole in ('@INPUT@', '@OUTPUT@'):
            out += list(values[whole]); continue
        if whole is not None:
            out.append(values[whole]); continue
        res = ''; i = 0; n = len(a)
        while i < n:
            hit = None
            for k in keys:
                if i + len(k) <= n and decide(bt_any(a[i:i + len(k)] == k)): hit = k; break
            if hit is None:
                res = res + a[i]; i += 1; continue
            v = values[hit]
            if isinstance(v, list):
                if len(v) > 1: raise ValueError('embedded list template with several files')
                v = v[0]
            res = res + v; i += len(hit)
        out.append(res)
    return out


def ref_template_errors(cmd, values, nin, nout):
    """-> True when the documented error conditions hold (template for a file that does not exist; PLAINNAME/BASENAME with several inputs)"""
    import re as _re
    for a in cmd:
        s = a if isinstance(a, str) else None
        if s is None: s = ''.join(chr(concretize_int(mkint(c), 300)) if not isinstance(c, int) else chr(c) for c in chars_of(a))      # concrete copy: error conditions are about spelling
        if nin > 1 and ('@PLAINNAME@' in s or '@BASENAME@' in s): return True
        m = _re.search('@INPUT([0-9]+)?@', s)
        if m and m.group() not in values: return True
        m = _re.search('@OUTPUT([0-9]+)?@', s)
        if m and m.group() not in values: return True
    return False


def ob_templates(nargs, affix=True, wide=True):
    def h():
        nin = 1 + choose(2, 'ninputs'); nout = 1 + choose(2, 'noutputs')
        inputs = ['src/in0.c', 'in1.txt'][:nin]; outputs = ['out/o0.h', 'out/o1.c'][:nout]
        values = mesonlib.get_filenames_templates_dict(list(inputs), list(outputs))
        cmd = []
        for i in range(nargs):
            if not affix:
                # several arguments, each a bare token or 'x=' + token: the checks that look at EVERY argument (an index out of range in a later one)
                cmd.append(['', 'x='][choose(2, 'embedded%d' % i)] + TOKENS[choose(len(TOKENS), 'token%d' % i)]); continue
            pre = sym_str(choose(3 if wide else 2, 'prelen%d' % i), 'pre%d' % i, alphabet='aA@ $' if wide else 'a@ $')          # 'A': an unknown upper-case @NAME@ run that shares its closing @ with a real template
            post = sym_str(choose(2, 'postlen%d' % i), 'post%d' % i, alphabet='aA@ $' if wide else 'a@ $')
            cmd.append(pre + TOKENS[choose(len(TOKENS), 'token%d' % i)] + post)
        try:
            got = mesonlib.substitute_values(list(cmd), values)
        except ME:
            bad = ref_template_errors(cmd, values, nin, nout)
            if not bad:
                try:
                    ref_substitute(cmd, values); bad = False
                except ValueError:
                    bad = True
            check(bad, 'MesonException only for the documented misuse of a template'); cover('rejected'); return
        check(not ref_template_errors(cmd, values, nin, nout), 'a template naming a file that does not exist is rejected')
        try:
            exp = ref_substitute(cmd, values)
        except ValueError:
            check(False, 'an embedded @INPUT@ / @OUTPUT@ with several files is rejected'); return
        expect_eq(got, exp, 'argv after @TEMPLATE@ substitution')
        cover('substituted')
    return h


def ob_link_arg_sources():
    """project, global and option link arguments as the link command of EVERY target receives them: the real Compiler.get_build_link_args with the real
    Build.get_project_link_args / get_global_link_args over lists of symbolic strings, called for 2-3 targets one after the other (a link line per target):
    each call returns project + global + option arguments - same strings, same count, same order - and the stored lists are what they were"""
    def h():
        import types
        from mesonbuild import build as B
        from mesonbuild.compilers.compilers import Compiler
        from mesonbuild.mesonlib import MachineChoice
        mk = lambda tag: [sym_str(1, '%s%d' % (tag, i), alphabet="a $'") for i in range(choose(3, 'n' + tag))]
        proj, glob_, ext = mk('p'), mk('g'), mk('e')
        proj_given = choose(2, 'add_project_link_arguments called') == 1 or bool(proj)
        bld = object.__new__(B.Build)
        bld.global_link_args = B.PerMachine({}, {}); bld.global_link_args[MachineChoice.HOST] = {'c': glob_}
        bp = types.SimpleNamespace(orig_for_machine=MachineChoice.HOST, project_link_args=B.PerMachine({}, {}))
        if proj_given: bp.project_link_args[MachineChoice.HOST] = {'c': proj}
        saved = (list(proj), list(glob_), list(ext))
        comp = types.SimpleNamespace(get_language=lambda: 'c', environment=types.SimpleNamespace(coredata=types.SimpleNamespace(get_option_for_target=lambda t, k: ext)))
        for i in range(2 + choose(2, 'targets')):
            tgt = types.SimpleNamespace(build_project=bp, orig_for_machine=MachineChoice.HOST, for_machine=MachineChoice.HOST, name='t%d' % i)
            got = Compiler.get_build_link_args(comp, tgt, bld)
            exp = saved[0] + saved[1] + saved[2]
            check(len(got) == len(exp), 'target %d: the link line gets project + global + option link arguments, each once' % i)
            if len(got) == len(exp):
                for g, e in zip(got, exp): check(eq(g, e), 'target %d: same strings in the same order' % i)
        check(len(proj) == len(saved[0]) and len(glob_) == len(saved[1]) and len(ext) == len(saved[2]), 'the stored argument lists are not changed by assembling a command line')
        cover('done')
    return h


def ob_test_argv():
    """test(): the argv `meson test` executes - the real SingleTestRunner.__init__ / run / _run_cmd / _run_subprocess up to asyncio.create_subprocess_exec, which is
    a recorder: wrapper (none, --wrapper with a symbolic argument, --gdb) + the program + the test's args + --test-args, each the SAME string, in that order;
    no shell is involved"""
    def h():
        import asyncio, argparse, types
        from mesonbuild import mtest
        from mesonbuild.backend.backends import TestSerialisation, TestProtocol
        from mesonbuild.utils.core import EnvironmentVariables
        WA2 = "a $'\\"
        args = [sym_str(1 + choose(2, 'len%d' % i), 'arg%d' % i, alphabet=WA2) for i in range(1 + choose(2, 'nargs'))]
        targs = [sym_str(1, 'test_arg', alphabet=WA2)] if choose(2, '--test-args given') else []
        wk = choose(3, 'wrapper')
        wrapper = [None, ['wrap', sym_str(1, 'wrapper_arg', alphabet=WA2)], None][wk]
        proto = [TestProtocol.EXITCODE, TestProtocol.TAP][choose(2, 'protocol')]
        t = TestSerialisation(name='t', project_name='p', suite=['p'], fname=['/bld/prog'], is_cross_built=False, exe_wrapper=None, needs_exe_wrapper=False,
                              is_parallel=True, cmd_args=list(args), env=EnvironmentVariables(), expected_fail=False, expected_exitcode=None, timeout=30, workdir=None,
                              extra_paths=[], protocol=proto, priority=0, cmd_is_built=True, cmd_is_exe=True, depends=[], version='1.0', verbose=False, exe_fname='/bld/prog')
        opts = argparse.Namespace(timeout_multiplier=1, interactive=False, num_processes=2, benchmark=False, wrapper=wrapper, gdb=wk == 2, gdb_path='gdb', no_rebuild=False,
                                  verbose=False, quiet=False, test_args=list(targs), split=False, repeat=1)
        saved_isfile = mtest.os.path.isfile
        runner = mtest.SingleTestRunner(t, {'MALLOC_PERTURB_': '0'}, 'p:t', opts)
        rec = []

        class Stop(Exception): pass

        async def fake_exec(*a, **kw):
            rec.append((list(a), kw)); raise Stop()
        saved = asyncio.create_subprocess_exec
        asyncio.create_subprocess_exec = fake_exec
        loop = asyncio.new_event_loop()
        try:
            try:
                loop.run_until_complete(runner.run(types.SimpleNamespace(log_start_test=lambda r: None)))
            except Stop:
                pass
        finally:
            asyncio.create_subprocess_exec = saved
            loop.close()
        check(len(rec) == 1, 'one process is started for the test')
        if len(rec) != 1: return
        got, kw = rec[0]
        exp = ([] if wk == 0 else (list(wrapper) if wk == 1 else ['gdb', '--quiet', '--args'])) + ['/bld/prog'] + list(args) + list(targs)
        check(len(got) == len(exp), 'argv: wrapper + program + test arguments + --test-args, nothing added or lost')
        if len(got) == len(exp):
            for g, e in zip(got, exp): check(eq(g, e), 'argv: every argument is the same string, in the same position')
        check('shell' not in kw or not kw['shell'], 'no shell')
        cover('started')
    return h


def ob_env_ops():
    """env values of a wrapped command / a test: the real EnvironmentVariables (set / append / prepend, 2-3 operations, on ONE variable or two) evaluated by get_env
    against an inherited environment in which the variable is set or not: the child sees exactly what the documented meaning of the operations gives, applied in
    order - each operation working on the result of the one before - and nothing else is touched"""
    def h():
        from mesonbuild.utils.core import EnvironmentVariables
        A = "a ;$"
        env = EnvironmentVariables()
        outer_has = choose(2, 'variable set in the inherited environment') == 1
        outer = {'OTHER': 'o'}
        if outer_has: outer['V'] = sym_str(1, 'inherited', alphabet=A)
        ref = dict(outer)
        nops = 2 + choose(2, 'operations')
        for i in range(nops):
            op = ['set', 'append', 'prepend'][choose(3, 'op%d' % i)]
            name = ['V', 'W'][choose(2, 'var%d' % i)] if i == nops - 1 else 'V'
            val = sym_str(1, 'value%d' % i, alphabet=A)
            sep = [':', ';'][choose(2, 'sep%d' % i)] if i == 0 else ':'
            getattr(env, op)(name, [val], sep)
            cur = ref.get(name)
            if op == 'set' or cur is None: ref[name] = val
            elif op == 'append': ref[name] = cur + sep + val
            else: ref[name] = val + sep + cur
        got = env.get_env(dict(outer))
        check(sorted(got.keys()) == sorted(ref.keys()), 'exactly the variables of the inherited environment and the ones operated on')
        for k in ref:
            if k in got: check(len(got[k]) == len(ref[k]) and decide(bt_any(eq(got[k], ref[k]))), 'the child sees the operations applied in order, each to the result of the one before')
        check(outer.get('V') is None or 'V' in outer, 'the inherited environment itself is not modified')
        cover('done')
    return h


def ob_test_argv_setup():
    """meson test --setup NAME: the real TestHarness.get_test_runner -> merge_setup_options -> SingleTestRunner for TWO tests in a row (then run up to
    create_subprocess_exec, a recorder). The setup has an exe_wrapper (with a symbolic argument) or none, and a timeout multiplier; -t is given on the command
    line or not. Every test's argv is the setup's wrapper + ITS OWN program and arguments - nothing of the test before -, the setup object is the same
    afterwards, and the time limit follows the command line when -t is given (0 = no limit) and the setup otherwise"""
    def h():
        import asyncio, argparse, types
        from mesonbuild import mtest, build
        from mesonbuild.backend.backends import TestSerialisation, TestProtocol
        from mesonbuild.utils.core import EnvironmentVariables
        WA2 = "a $'\\"
        wrap = ['wrap', sym_str(1, 'wrapper_arg', alphabet=WA2)] if choose(2, 'setup has an exe_wrapper') else []
        sm = sym_int('setup_multiplier', 0, 3)
        cm = None if choose(2, '-t given') == 0 else sym_int('cmdline_multiplier', 0, 3)
        setup = build.TestSetup(exe_wrapper=list(wrap), gdb=False, timeout_multiplier=sm, env=EnvironmentVariables(), exclude_suites=[])
        tests = []
        for i in range(2):
            a = [sym_str(1, 'arg%d' % i, alphabet=WA2)]
            tests.append(TestSerialisation(name='t%d' % i, project_name='p', suite=['p'], fname=['/bld/prog%d' % i], is_cross_built=False, exe_wrapper=None, needs_exe_wrapper=False,
                                           is_parallel=True, cmd_args=a, env=EnvironmentVariables(), expected_fail=False, expected_exitcode=None, timeout=30, workdir=None,
                                           extra_paths=[], protocol=TestProtocol.EXITCODE, priority=0, cmd_is_built=True, cmd_is_exe=True, depends=[], version='1.0', verbose=False, exe_fname='/bld/prog%d' % i))
        th = object.__new__(mtest.TestHarness)
        th.options = argparse.Namespace(timeout_multiplier=cm, interactive=False, num_processes=2, benchmark=False, wrapper=None, gdb=False, gdb_path='gdb', no_rebuild=False,
                                        verbose=False, quiet=False, test_args=[], split=False, repeat=1, setup='p:s')
        th.build_data = types.SimpleNamespace(test_setups={'p:s': setup})
        rec = []

        class Stop(Exception): pass

        async def fake_exec(*a, **kw):
            rec.append(list(a)); raise Stop()
        saved = asyncio.create_subprocess_exec
        asyncio.create_subprocess_exec = fake_exec
        try:
            for i, t in enumerate(tests):
                runner = th.get_test_runner(t, 0)
                mult = cm if cm is not None else sm
                if decide(mult <= 0): check(runner.timeout is None, 'a multiplier <= 0 (command line first, else the setup) means no limit')
                else: check(runner.timeout is not None and decide(bt_any(eq(runner.timeout, 30 * mult))), 'the limit is timeout x multiplier (command line first, else the setup)')
                loop = asyncio.new_event_loop()
                try:
                    try: loop.run_until_complete(runner.run(types.SimpleNamespace(log_start_test=lambda r: None)))
                    except Stop: pass
                finally:
                    loop.close()
                check(len(rec) == i + 1, 'one process is started per test')
                if len(rec) != i + 1: return
                exp = list(wrap) + ['/bld/prog%d' % i] + list(t.cmd_args)
                got = rec[i]
                check(len(got) == len(exp), 'argv: the setup wrapper + the program + the test arguments of THIS test')
                if len(got) == len(exp):
                    for g, e in zip(got, exp): check(eq(g, e), 'argv: every argument is the same string, in the same position')
        finally:
            asyncio.create_subprocess_exec = saved
        check(len(setup.exe_wrapper) == len(wrap), 'the test setup is not changed by running tests with it')
        cover('started')
    return h


def ob_project_commands(dim, full=False):
    """custom_target() and generator() commands of a WHOLE configuration (real Interpreter, real NinjaBackend.generate on a generated project without a compiled
    language - harness/proj.py): the argv Ninja would execute for every custom target and for the generator, decoded from build.ninja with the reference Ninja
    evaluator and sh splitter, is the command of the definition with @INPUT@ / @OUTPUT@ / @OUTPUT0@ / @OUTPUTn@ (several in ONE argument too) replaced by exactly
    the inputs and outputs of that statement - nothing else changed"""
    def h():
        from harness import proj as PJ
        pr, c, g = PJ.run_project(dim, full)
        def argv_of(out):
            st = g.stmts[g.producer[out]]
            r = c.rules[st['rule']]
            return st, sh_split(evaluate(r['command'], st['raw'], c.rules))
        norm = lambda xs: [os.path.normpath(os.path.join(c.bld, x)) if not x.startswith('-') else x for x in xs]
        for t in ('A', 'B', 'C'):
            st, argv = argv_of(pr.outs[t][0])
            check(len(argv) >= 3 and isinstance(argv[0], str) and argv[0].endswith('python3') and argv[1:3] == ['-c', 'pass'], 'the program and its fixed arguments arrive unchanged')
            rest = argv[3:]
            if t == 'A': exp = norm(list(pr.outs['A']))
            elif t == 'B': exp = norm(st['ins']) + norm([pr.outs['B'][0]])
            else: exp = norm([pr.c_cmd_dep] if pr.c_cmd_dep is not None else []) + norm(st['ins']) + norm(list(pr.outs['C']))
            check(norm(rest) == exp, '@INPUT@ / @OUTPUT@ / @OUTPUT0@ become exactly the inputs and outputs of the statement')
        if pr.b_generated:
            stb = g.stmts[g.producer[pr.outs['B'][0]]]
            st, argv = argv_of(stb['ins'][0])
            o0, o1 = st['outs'][0], st['outs'][1]
            check(len(st['ins']) == 1 and argv[1:] == ['-c', 'pass', st['ins'][0], '--pair=' + o0 + ',' + o1, o1, pr.ea], 'generator arguments: @INPUT@ and every @OUTPUTn@ - also two in one argument - are substituted, extra_args arrive verbatim')
            check(o0.endswith('in.c') and o1.endswith('in.h'), 'generator outputs are named after the input (@BASENAME@)')
            cover('generator')
        cover('done')
    return h


def obligations(tier):
    out = []
    q = tier == 'quick'
    shapes = [[0], [1], [2], [3], [4], [1, 1], [2, 1], [1, 2], [2, 2]] if q else [[0], [1], [2], [3], [4], [5], [6], [1, 1], [2, 1], [1, 2], [2, 2], [3, 2], [2, 3], [3, 3], [1, 1, 1], [2, 2, 2]]
    for lens in shapes:
        for style in ('gcc', 'msvc'):
            if style == 'msvc' and (sum(lens) > (3 if q else 5)): continue
            out.append(Obligation('build-var%s/%s' % (lens, style), ob_element(lens, style), dict(arg_lengths=lens, rsp_syntax=style, rsp_threshold='symbolic 0..1000', alphabet='ASCII 1..126'),
                                  labels=('rsp-branch', 'cmdline-branch') + (('newline-rejected',) if sum(lens) else ()), max_paths=3000000))
    for n in (1, 2) if q else (1, 2, 3):
        out.append(Obligation('two-statements[%d]' % n, ob_two_statements(n), dict(shared_arg_len=n, rsp_threshold='symbolic'), labels=('mixed', 'uniform'), max_paths=3000000))
    for lens in ([1, 1], [2, 1], [1, 2], [3, 0]) if q else ([1, 1], [2, 1], [1, 2], [3, 0], [0, 3], [2, 2], [4, 0], [3, 2]):
        out.append(Obligation('rule-literal%s' % lens, ob_rule(lens), dict(arg_lengths=lens), labels=('rsp-branch', 'cmdline-branch'), max_paths=3000000))
    for n in (1, 2, 3) if q else (1, 2, 3, 4, 5):
        out.append(Obligation('raw-name[%d]' % n, ob_raw(n), dict(length=n), labels=('roundtrip',)))
    for n in (1, 2, 3) if q else (1, 2, 3, 4, 5):
        out.append(Obligation('escape-extra-args[%d]' % n, ob_escape(n), dict(length=n), labels=('define', 'other')))
    for n in range(0, 5 if q else 7):
        out.append(Obligation('quoters[%d]' % n, ob_quoters(n), dict(length=n), labels=('done',), max_paths=3000000))
    for la, lb in (([2], [1, 1]), ([3], [1, 1]), ([1, 1], [1, 1]), ([2], [2])) if q else (([2], [1, 1]), ([3], [1, 1]), ([1, 1], [1, 1]), ([2], [2]), ([3], [2, 1]), ([2, 1], [1, 2]), ([4], [1, 2])):
        out.append(Obligation('exe-wrapper-pair%s%s' % (la, lb), ob_wrapper_pair(la, lb), dict(args_a=la, args_b=lb, alphabet=WA, workdir='given', hashlib='modelled as injective'),
                              labels=('different-files',), optional_labels=('same-file',), max_paths=5000000))
    for n in (1,) if q else (1, 2):
        out.append(Obligation('exe-wrapper-modes[%d]' % n, ob_wrapper_modes(n), dict(arg_lengths=[n, 1], modes='plain | capture | feed | workdir', alphabet='ASCII 1..126'),
                              labels=('pickled', 'plain', 'internal-exe'), max_paths=5000000))
    WOPT = '-hcapturefdnikl=x '
    for lens in ([2], [3], [2, 2]) if q else ([2], [3], [4], [2, 2], [3, 2]):
        out.append(Obligation('exe-wrapper-argv%s' % lens, ob_wrapper_argv(lens, WOPT if max(lens) > 2 else '-hcfu=x'), dict(arg_lengths=lens, modes='capture | feed | both', alphabet=WOPT,
                              argparse='stdlib, executed symbolically'), labels=('parsed',), optional_labels=('pickled',), max_paths=5000000))
    for n in (1,) if q else (1, 2):
        out.append(Obligation('templates[%d]' % n, ob_templates(n, True, n == 1), dict(arguments=n, shape=('0-2 chars over {a, A, @, space, $}' if n == 1 else '0-1 chars over {a, @, space, $}') + ' + one of %d template tokens (or none) + 0-1 chars' % len(TOKENS),
                              inputs='1-2', outputs='1-2'), labels=('substituted', 'rejected'), max_paths=5000000))
    out.append(Obligation('templates-tokens[2]', ob_templates(2, False), dict(arguments=2, shape="each a template token or 'x=' + token, %d tokens" % len(TOKENS), inputs='1-2', outputs='1-2'), labels=('substituted', 'rejected'), max_paths=5000000))
    for lens in ([1], [2], [1, 1]) if q else ([1], [2], [3], [1, 1], [2, 2]):
        out.append(Obligation('join-split%s' % lens, ob_joinsplit(lens), dict(arg_lengths=lens), labels=('done',), max_paths=3000000))
    out.append(Obligation('link-arg-sources', ob_link_arg_sources(), dict(real='Compiler.get_build_link_args, Build.get_project_link_args / get_global_link_args', lists='0-2 symbolic 1-char strings each', targets='2-3 in sequence'), labels=('done',)))
    out.append(Obligation('test-argv', ob_test_argv(), dict(real='mtest.SingleTestRunner.__init__/run/_run_cmd/_run_subprocess, TestHarness.get_wrapper; asyncio.create_subprocess_exec recorded', args='1-2 of 1-2 chars over {a, space, $, quote, backslash}', test_args='0-1', wrapper='none | --wrapper with a symbolic argument | --gdb', protocol='exitcode | tap'), labels=('started',), max_paths=3000000))
    out.append(Obligation('env-ops', ob_env_ops(), dict(real='utils.core.EnvironmentVariables.set / append / prepend / get_env', operations='2-3 (set | append | prepend) on one variable, the last possibly on another', values='1 symbolic character over a space ; $', inherited='variable set or not'), labels=('done',), max_paths=1000000))
    out.append(Obligation('test-argv-setup', ob_test_argv_setup(), dict(real='TestHarness.get_test_runner / merge_setup_options / SingleTestRunner.__init__ / run up to create_subprocess_exec', tests='2 in a row', setup='exe_wrapper with a symbolic argument | none; timeout_multiplier 0..3',
                          command_line='-t absent | 0..3'), labels=('started',), max_paths=1000000))
    out.append(Obligation('project-commands', ob_project_commands('inputs', not q), dict(real='Interpreter.run + NinjaBackend.generate on a generated project without a compiled language', commands='3 custom targets (@INPUT@, @OUTPUT@, @OUTPUT0@, a target output as an argument) and a generator (@INPUT@, two @OUTPUTn@ in one argument)',
                          symbolic='build_by_default x2, build_always_stale, install, the index into a multi-output target'), labels=('done', 'generator'), max_paths=2000000, path_timeout=300, classify=__import__('harness.proj', fromlist=['classify']).classify))
    return out
