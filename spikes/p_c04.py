import sys, time
sys.path.insert(0, __import__('os').path.dirname(__import__('os').path.abspath(__file__))); sys.path.insert(0, '/repo')
from sx import instr, core
from sx.values import *
from sx.core import choose, check, cover
instr.install(prefixes=('mesonbuild.', 'shlex'), exact=('mesonbuild', 'shlex'))
from mesonbuild.backend import ninjabackend as nb
from mesonbuild.mesonlib import MesonException
from p_c03 import Out
import z3

def harness(nel):
    def h():
        nb.rsp_threshold = sym_int('thr', 0, 200)
        b = nb.NinjaBuild()
        cmd = ['cc', sym_str(1, 'c', 1, 126), '$ARGS', '-o', '$out', '$in']
        try:
            b.add_rule(nb.NinjaRule('CC', cmd, [], 'Compiling $out', rspable=bool(choose(2, 'rspable'))))
        except MesonException:
            cover('rule-rejected'); return
        from sx.instr import SymSet
        outs = SymSet()
        names = []
        for i in range(nel):
            o = sym_str(2, 'o%d' % i, alphabet='ab :$')
            names.append(o)
            rule = ['CC', 'phony', 'NOPE'][choose(3, 'rule')]
            el = nb.NinjaBuildElement(outs, o, rule, sym_str(1, 'i%d' % i, alphabet='ab :$'))
            el.add_dep([sym_str(1, 'd', alphabet='ab'), sym_str(1, 'd', alphabet='ab')])
            el.add_item('ARGS', [sym_str(1, 'a', 1, 126)])
            b.add_build(el)
        o = Out()
        dup = False
        if nel == 2 and bool(names[0] == names[1]): dup = True
        try:
            b.write(o)
            check(not dup, 'duplicate output accepted')
            cover('written')
        except MesonException as e:
            cover('rejected')
        except nb.MesonBugException if hasattr(nb, 'MesonBugException') else MesonException:
            cover('bug-exception')
    return h
if __name__ == '__main__':
    for nel in (1, 2):
        try:
            st = core.explore(harness(nel), max_paths=30000)
        except Exception as e:
            import traceback; traceback.print_exc(); continue
        print(nel, 'paths', st['paths'], 'viol', len(st['violations']), 'errors', len(st['errors']), st['labels'], 'time %.1f' % st['time'], st.get('truncated'), flush=True)
        for e in st['errors'][:3]: print('   ', e[:2])
        seen = set()
        for v in st['violations']:
            if v[0] in seen: continue
            seen.add(v[0]); print('   V', v[0], str(v[1]).replace('\n', ' ')[:300])
