"""C10 - dependencies resolve by the documented fallback policy, from verified sources (environment stubbed)."""
import os, types
from symx.api import *

PROPERTY = 'C10'
LEVEL = 'other'
FILES = ['mesonbuild/interpreter/dependencyfallbacks.py', 'mesonbuild/wrap/wrap.py', 'mesonbuild/utils/universal.py']
ENCODED = ['PackageDefinition.parse_provide_section', 'Resolver.add_wrap / find_dep_provider / find_program_provider', 'DependencyFallbacksHolder.__init__/set_fallback/lookup/_get_candidates/_do_dependency_cache/_do_dependency/_do_existing_subproject/_do_subproject/'
           '_get_subproject_dep/_get_cached_dep/_check_version/_verify_fallback_consistency', 'WrapMode.from_string', 'version_compare_many', 'stringlistify',
           'wrap.Resolver._get_file_internal/_download/check_hash/check_can_download', 'wrap.Resolver._resolve (try/except around apply_patch / apply_diff_files)']
EXPLANATION = ('Symbolic execution of the real dependency-fallback decision procedure with its environment replaced by nondeterministic stubs: wrap_mode, membership of the name / the '
               'subproject in force_fallback_for, required, allow_fallback, the `fallback:` keyword as set_fallback receives it (absent, empty list, [subproject], [subproject, variable]), a wrap [provide] entry, whether the system has the dependency, whether the subproject configures, an '
               'explicit override, and symbolic version numbers against a symbolic version constraint; the outcome is compared with the documented decision table, the '
               'number of system probes is counted, and a repeated lookup must return the same object. Wrap sources: file existence, SHA-256 digests (symbolic strings), '
               'download failures are symbols; a path is handed out for unpacking only if the digest of the bytes at that path equals the recorded hash.')
ASSUMPTIONS = ['stubs: dependencies.find_external_dependency (found / not found), Interpreter.do_subproject (configures or fails; defines the variable or overrides the name), '
               'wrap_resolver.find_dep_provider/get_varname, optstore.get_value_for, coredata.deps, build.dependency_overrides, mlog',
               'wrap: os.path.exists/Path.exists/os.rename/os.remove, Resolver.hash_file and get_data_with_backoff are a symbolic world in which every file has an arbitrary 2-character digest',
               'versions: single symbolic digits']
OUT = 'archive extraction, git/hg/svn checkouts, TLS, the on-disk state of subprojects/ on the next run, msubprojects, the bodies of apply_patch/apply_diff_files (stubs that return or raise)'
MANIFEST = dict(
    text='Bounded symbolic decision of the fallback decision table over every combination of the policy inputs (a few thousand cells, each with symbolic versions) and of the '
         'verified-source rule over every outcome of the file-system / network stubs (fault outcomes are symbols).',
    note='Trusted: symx engine, z3, the decision table written from docs/yaml/functions/dependency.yaml, Subprojects.md and Wrap-dependency-system-manual.md. Environment stubbed as '
         'listed; claims about real downloads/extraction are outside.')

DF = W = None
MachineChoice = Dependency = DependencyException = NotFoundDependency = InvalidArguments = MesonException = WrapException = WrapMode = build = dependencies = None


def setup():
    global DF, W, MachineChoice, Dependency, DependencyException, NotFoundDependency, InvalidArguments, MesonException, WrapException, WrapMode, build, dependencies
    from mesonbuild import mlog, dependencies as deps, build as b
    from mesonbuild.interpreter import dependencyfallbacks as df
    from mesonbuild.dependencies import Dependency as D, DependencyException as DE, NotFoundDependency as NF
    from mesonbuild.interpreterbase import InvalidArguments as IA, FeatureNew
    from mesonbuild.mesonlib import MachineChoice as MC, MesonException as ME
    from mesonbuild.wrap import wrap as w
    from harness.common import quiet_mlog
    quiet_mlog()
    FeatureNew.single_use = staticmethod(lambda *a, **k: None)
    DF, W, MachineChoice, Dependency, DependencyException, NotFoundDependency, InvalidArguments, MesonException = df, w, MC, D, DE, NF, IA, ME
    WrapException, WrapMode, build, dependencies = w.WrapException, w.WrapMode, b, deps


def mkdep(label, found, version):
    class Dep(Dependency):
        def __init__(self):
            super().__init__({'native': MachineChoice.HOST})
            self.label = label; self.is_found = found; self.version = version; self.name = 'foo'
        def get_version(self): return self.version
    return Dep()


class Sub:
    def __init__(self, ok, vars_): self.ok = ok; self.vars = vars_; self.subdir = 'subprojects/sub'
    def found(self): return self.ok
    def get_variable_method(self, args, kwargs):
        if args[0] not in self.vars: raise InvalidArguments('no var')
        return self.vars[args[0]]


WM = ['default', 'nofallback', 'nodownload', 'forcefallback', 'nopromote']


def ob_policy(with_versions, with_cache=True):
    def h():
        wm = WM[choose(len(WM), 'wrap_mode')]
        fff_name = decide(sym_bool('force_fallback_for_has_name')); fff_sub = decide(sym_bool('force_fallback_for_has_subproject'))
        required = decide(sym_bool('required'))
        allow = [None, True, False][choose(3, 'allow_fallback')]
        # the `fallback:` keyword as dependency() passes it to set_fallback (always called, None when absent) and, independently, a wrap [provide] entry
        fbarg = [None, [], ['sub', 'foo_dep'], ['sub']][choose(4, 'fallback_kwarg')]
        provides = decide(sym_bool('wrap_provides'))
        explicit = bool(fbarg)
        sys_present = decide(sym_bool('system_has_it'))
        sub_ok = decide(sym_bool('subproject_configures'))
        sub_overrides = decide(sym_bool('subproject_overrides_name'))
        wanted = []
        sub_ver = '1.0'
        vop = '>='
        if with_versions:
            w_ = sym_str(1, 'wanted_digit', alphabet='0123456789')
            vop = ['>=', '<', '<=', '!=', '==', '>'][choose(6, 'constraint_operator')]
            v_ = 'undefined' if choose(2, 'subproject_version_unknown') else sym_str(1, 'subproject_version_digit', alphabet='0123456789')
            wanted = [vop + w_]; sub_ver = v_
        calls = {'system': 0, 'subproject': 0}
        interp = types.SimpleNamespace()
        interp.subproject = ''; interp.current_node = None
        interp.coredata = types.SimpleNamespace()
        fff = (['foo'] if fff_name else []) + (['sub'] if fff_sub else [])
        interp.coredata.optstore = types.SimpleNamespace(get_value_for=lambda k: wm if k.name == 'wrap_mode' else fff)

        class Cache(dict):
            def put(self, k, v): self[k] = v
        interp.coredata.deps = {MachineChoice.HOST: Cache()}
        # coredata.deps is persistent: an EARLIER configuration of this build directory may have found the dependency on the system
        cached_prev = decide(sym_bool('coredata_cache_has_the_system_dependency_from_an_earlier_run')) if with_cache else False
        interp.build = types.SimpleNamespace(dependency_overrides={MachineChoice.HOST: {}})
        wr = types.SimpleNamespace(find_dep_provider=lambda n: ('sub', 'foo_dep') if provides else (None, None),
                                   get_varname=lambda s, n: 'foo_dep' if provides else None)
        interp.environment = types.SimpleNamespace(wrap_resolver=wr)
        interp.subprojects = {MachineChoice.HOST: {}}
        subdep = mkdep('subproject', True, sub_ver)

        def do_subproject(name, kwargs, forced_options=None):
            calls['subproject'] += 1
            if sub_ok:
                interp.subprojects[MachineChoice.HOST][name] = Sub(True, {'foo_dep': subdep})
                if sub_overrides:
                    ident = dependencies.get_dep_identifier('foo', {'native': MachineChoice.HOST})
                    interp.build.dependency_overrides[MachineChoice.HOST][ident] = build.DependencyOverride(subdep, None, explicit=True)
            else:
                interp.subprojects[MachineChoice.HOST][name] = Sub(False, {})
                if kwargs['required']: raise DependencyException('subproject failed')
        interp.do_subproject = do_subproject
        sysdep = mkdep('system', True, '9')
        if cached_prev:
            interp.coredata.deps[MachineChoice.HOST][dependencies.get_dep_identifier('foo', dict({'native': MachineChoice.HOST}, **({'version': list(wanted)} if wanted else {})))] = sysdep

        sys_ok = [sys_present]

        def find_external_dependency(name, env, kwargs):
            # contract of the real function: a dependency that is present but does not satisfy the version constraints is not found
            calls['system'] += 1
            ok = sys_present
            if ok and kwargs.get('version'):
                from mesonbuild.mesonlib import version_compare_many
                ok = decide(bt_any(version_compare_many('9', kwargs['version'])[0]))
            sys_ok[0] = ok
            if ok: return sysdep
            if kwargs.get('required'): raise DependencyException('not found')
            return NotFoundDependency(name, env)
        DF.dependencies = types.SimpleNamespace(find_external_dependency=find_external_dependency, get_dep_identifier=dependencies.get_dep_identifier)
        try:
            df = DF.DependencyFallbacksHolder(interp, ['foo'], MachineChoice.HOST, allow_fallback=allow)
            df.set_fallback(None if fbarg is None else list(fbarg))
        except MesonException:
            check(fbarg is not None and allow is not None, 'argument error only for fallback together with allow_fallback'); cover('arg-error'); return
        check(not (fbarg is not None and allow is not None), '`fallback:` (an empty list too) together with allow_fallback is an argument error')
        kw = {'required': required, 'native': MachineChoice.HOST}
        if wanted: kw['version'] = list(wanted)
        try:
            dep = df.lookup(dict(kw))
            res = dep.label if dep.found() else 'notfound'
        except DependencyException:
            dep = None
            res = 'error'
        # ---- the documented decision table
        eff_allow = False if (fbarg is not None and not fbarg) else allow      # dependency.yaml: `fallback: []` has the same effect as allow_fallback: false
        has_fb = explicit or (provides and eff_allow is not False)
        forced = wm == 'forcefallback' or fff_name or (fff_sub and has_fb)
        if not explicit and provides and eff_allow is None and not required and not forced:
            has_fb = False     # implicit [provide] fallback only for required lookups unless allow_fallback: true or forced
        nofb = wm == 'nofallback'
        ver_ok = True
        if with_versions:
            if sub_ver == 'undefined':
                ver_ok = False          # dependency.yaml: version requirements are never met if the version is unknown
            else:
                a_, b_ = sym_int_of_str(sub_ver), sym_int_of_str(wanted[0][len(vop):])
                ver_ok = decide(bt_any({'>=': a_ >= b_, '<': a_ < b_, '<=': a_ <= b_, '!=': a_ != b_, '==': a_ == b_, '>': a_ > b_}[vop]))
        fail = 'error' if required else 'notfound'
        sub_result = ('subproject' if ver_ok else fail) if sub_ok else fail
        if fbarg == ['sub'] and not provides and not sub_overrides:
            sub_result = fail      # a fallback without a variable name: the subproject must override the name, or the wrap must name the variable
        if forced and has_fb:
            exp = sub_result
            check(calls['system'] == 0, 'the system is not consulted when fallback is forced')
            check(res != 'system', '... nor is a system dependency remembered from an earlier configuration used')
        elif (sys_present or cached_prev) and (not with_versions or decide(bt_any({'>=': 9 >= sym_int_of_str(wanted[0][len(vop):]), '<': 9 < sym_int_of_str(wanted[0][len(vop):]), '<=': 9 <= sym_int_of_str(wanted[0][len(vop):]),
                                                                   '!=': 9 != sym_int_of_str(wanted[0][len(vop):]), '==': 9 == sym_int_of_str(wanted[0][len(vop):]), '>': 9 > sym_int_of_str(wanted[0][len(vop):])}[vop]))):
            exp = 'system'
        elif has_fb and not nofb:
            exp = sub_result
        else:
            exp = fail
        check(res == exp, 'dependency() outcome follows the documented decision table')
        if nofb and not forced: check(calls['subproject'] == 0 or sys_present is False and False, 'no subproject is configured under wrap_mode=nofallback')
        # ---- repeated lookup
        if res in ('system', 'subproject'):
            df2 = DF.DependencyFallbacksHolder(interp, ['foo'], MachineChoice.HOST, allow_fallback=allow)
            df2.set_fallback(None if fbarg is None else list(fbarg))
            n0 = calls['subproject']
            d2 = df2.lookup(dict(kw))
            check(d2 is dep, 'a repeated lookup returns the same dependency')
            check(calls['subproject'] == n0, 'a repeated lookup does not configure the subproject again')
        cover(res)
    return h


def ob_override():
    """an explicit override wins; a not-found override is honoured; the system is not probed"""
    def h():
        found = decide(sym_bool('override_found')); required = decide(sym_bool('required'))
        wm = WM[choose(len(WM), 'wrap_mode')]
        over_ver = 'undefined' if choose(2, 'override_version_unknown') else sym_str(1, 'override_version', alphabet='0123456789')
        want = sym_str(1, 'wanted', alphabet='0123456789')
        vop = ['>=', '<', '<=', '!=', '==', '>'][choose(6, 'constraint_operator')]
        calls = {'system': 0}
        interp = types.SimpleNamespace(subproject='', current_node=None)
        interp.coredata = types.SimpleNamespace(optstore=types.SimpleNamespace(get_value_for=lambda k: wm if k.name == 'wrap_mode' else []), deps={MachineChoice.HOST: {}})
        odep = mkdep('override', found, over_ver)
        # what came before in the same configuration: a lookup of ANOTHER dependency with identifier-relevant keywords (dependency() passes all keywords, defaults
        # filled in; meson.override_dependency() computes its key from native / static only). The key of 'foo' depends on 'foo''s own arguments alone
        from mesonbuild.interpreter.type_checking import DEPENDENCY_KWS
        full = lambda kw: dict({k.name: k.default for k in DEPENDENCY_KWS}, **kw)
        prev = [None, {'modules': ['Core']}, {'method': 'pkg-config'}, {'language': 'c'}, {'static': True}][choose(5, 'an earlier lookup')]
        if prev is not None: dependencies.get_dep_identifier('bar', full(dict(prev, native=MachineChoice.HOST)))
        ident = dependencies.get_dep_identifier('foo', {'native': MachineChoice.HOST})
        check(ident == dependencies.get_dep_identifier('foo', full({'native': MachineChoice.HOST})), 'the key of a dependency is a function of its own name and keywords: defaults spelled out or not, whatever was looked up before')
        interp.build = types.SimpleNamespace(dependency_overrides={MachineChoice.HOST: {ident: build.DependencyOverride(odep, None, explicit=True)}})
        interp.environment = types.SimpleNamespace(wrap_resolver=types.SimpleNamespace(find_dep_provider=lambda n: (None, None), get_varname=lambda s, n: None))
        interp.subprojects = {MachineChoice.HOST: {}}

        def find_external_dependency(name, env, kwargs):
            calls['system'] += 1
            return mkdep('system', True, '9')
        DF.dependencies = types.SimpleNamespace(find_external_dependency=find_external_dependency, get_dep_identifier=dependencies.get_dep_identifier)
        df = DF.DependencyFallbacksHolder(interp, ['foo'], MachineChoice.HOST)
        try:
            # keyword arguments that do NOT select a different dependency (include_type, version, required ...) must not hide the override
            extra = [{}, {'include_type': 'system'}, {'include_type': 'non-system'}, {'include_type': 'preserve'}, {'not_found_message': 'x'}, {'disabler': False}][choose(6, 'extra_kwarg')]
            dep = df.lookup(full(dict({'required': required, 'native': MachineChoice.HOST, 'version': [vop + want]}, **extra)))
            res = dep.label if dep.found() else 'notfound'
        except DependencyException:
            res = 'error'
        if over_ver == 'undefined':
            ok = False              # never met if the version is unknown
        else:
            a_, b_ = sym_int_of_str(over_ver), sym_int_of_str(want)
            ok = found and decide(bt_any({'>=': a_ >= b_, '<': a_ < b_, '<=': a_ <= b_, '!=': a_ != b_, '==': a_ == b_, '>': a_ > b_}[vop]))
        check(res == ('override' if ok else ('error' if required else 'notfound')), 'an overridden dependency wins (and a mismatching or not-found override is final)')
        check(calls['system'] == 0, 'the system is not consulted for an overridden dependency')
        cover(res)
    return h


def ob_override_static():
    """meson.override_dependency(name, dep, static: true | false | <absent>) - the real MesonMain.override_dependency_method and _override_dependency_impl on a
    recording Build - followed by the lookups dependency(name) / dependency(name, static: true) / dependency(name, static: false) through the real
    DependencyFallbacksHolder, under default_library = shared | static | both (symbolic): a lookup whose `static` agrees with the override's (an unspecified
    side agrees with everything; an override without `static:` follows default_library) returns the overridden dependency, and the documented idiom of two
    overrides - static: false, then static: true - is accepted"""
    def h():
        from mesonbuild.interpreter.mesonmain import MesonMain
        from mesonbuild.interpreter.type_checking import DEPENDENCY_KWS
        full = lambda kw: dict({k.name: k.default for k in DEPENDENCY_KWS}, **kw)
        dl = sym_enum(['shared', 'static', 'both'], 'default_library')
        dlv = dl.concretize() if hasattr(dl, 'concretize') else dl
        ostatic = [None, True, False][choose(3, 'static: of the override')]
        second = choose(2, 'a second override for the other flavour') == 1 and ostatic is not None
        lstatic = [None, True, False][choose(3, 'static: of the lookup')]
        interp = types.SimpleNamespace(subproject='', current_node=types.SimpleNamespace(filename='meson.build', lineno=1), project_version='1')
        interp.coredata = types.SimpleNamespace(optstore=types.SimpleNamespace(get_value_for=lambda k: dlv if k.name == 'default_library' else ('default' if k.name == 'wrap_mode' else [])), deps={MachineChoice.HOST: {}})
        class Cache(dict):
            def put(self, k, v): self[k] = v
        interp.coredata.deps = {MachineChoice.HOST: Cache()}
        # the override tables as build.Build makes them: one per machine in a cross build, ONE shared table natively (PerMachineDefaultable.default)
        from mesonbuild.mesonlib import PerMachineDefaultable
        cross = choose(2, 'cross build') == 1
        onative = cross and choose(2, 'the override is for the build machine (native: true)') == 1
        bld = types.SimpleNamespace(dependency_overrides=PerMachineDefaultable.default(cross, {}, {}))
        interp.build = bld
        interp.apply_machine_map_to_kwargs = lambda kwargs: None          # a native build: the machine map is the identity
        mm = object.__new__(MesonMain)
        mm.interpreter = interp; mm.build = bld; mm.subproject = ''; mm.current_node = interp.current_node
        odep = mkdep('override', True, '1'); odep2 = mkdep('override2', True, '1')
        try:
            mm.override_dependency_method(['foo', odep], {'static': ostatic, 'native': onative})
            if second: mm.override_dependency_method(['foo', odep2], {'static': (not ostatic), 'native': onative})
        except Exception as e:
            if type(e).__name__ in ('InterpreterException', 'MesonException', 'InvalidArguments'):
                check(False, 'overriding the shared and the static flavour separately is accepted'); return
            raise
        interp.environment = types.SimpleNamespace(wrap_resolver=types.SimpleNamespace(find_dep_provider=lambda n: (None, None), get_varname=lambda s_, n: None))
        interp.subprojects = {MachineChoice.HOST: {}}
        calls = {'system': 0}
        def find_external_dependency(name, env, kwargs):
            calls['system'] += 1
            return mkdep('system', True, '9')
        DF.dependencies = types.SimpleNamespace(find_external_dependency=find_external_dependency, get_dep_identifier=dependencies.get_dep_identifier)
        df = DF.DependencyFallbacksHolder(interp, ['foo'], MachineChoice.HOST)
        dep = df.lookup(full({'required': False, 'native': MachineChoice.HOST, 'static': lstatic}))
        res = dep.label if dep.found() else 'notfound'
        # which override a lookup must see
        eff = ostatic if ostatic is not None else {'shared': False, 'static': True, 'both': None}[dlv]       # None here: both flavours registered
        if lstatic is None: want = {'override'}                                   # an unspecified lookup finds the (first) override
        elif ostatic is None: want = {'override'} if (eff is None or eff == lstatic) else {'system'}
        elif lstatic == ostatic: want = {'override'}
        else: want = {'override2'} if second else {'system'}
        if onative: want = {'system'}          # cross build: an override for the build machine does not answer a host lookup
        check(res in want, 'a lookup sees the override registered for its machine and static flavour (and no other)')
        cover('done')
    return h


# ---------------------------------------------------------------- verified sources
class FakeWrap:
    def __init__(self, values, filesdir): self.values = values; self.filesdir = filesdir; self.name = 'pkg'
    def get(self, k):
        if k not in self.values: raise WrapException('Missing key %r' % k)
        return self.values[k]


class World:
    """symbolic file system / network: each file has an arbitrary digest"""
    def __init__(self):
        self.digest = {}; self.exists = {}; self.removed = []; self.downloads = 0; self.n = 0
    def ex(self, p):
        if p not in self.exists:
            self.n += 1; self.exists[p] = decide(sym_bool('exists%d' % self.n))
        return self.exists[p]
    def dg(self, p):
        if p not in self.digest:
            self.n += 1; self.digest[p] = sym_str(2, 'digest%d' % self.n, alphabet='ab')
        return self.digest[p]


def ob_sources(what):
    def h():
        w = World()
        fos = types.SimpleNamespace()
        fos.path = types.SimpleNamespace(exists=w.ex, join=os.path.join)
        def remove(p): w.removed.append(p); w.exists[p] = False
        def rename(a, b): w.digest[b] = w.dg(a); w.exists[b] = True; w.exists[a] = False
        fos.remove = remove; fos.rename = rename; fos.makedirs = lambda *a, **k: None
        saved = (W.os, W.Path)
        W.os = fos

        class FakePath:
            def __init__(self, p): self.p = p
            def __truediv__(self, o): return FakePath(os.path.join(self.p, o))
            def exists(self): return w.ex(self.p)
            def as_posix(self): return self.p
            def __str__(self): return self.p
        W.Path = FakePath
        try:
            r = object.__new__(W.Resolver)
            expected = sym_str(2, 'recorded_hash', alphabet='ab')
            values = {what + '_filename': 'f.tgz', what + '_hash': expected}
            kind = choose(3, 'kind')   # 0: url only, 1: url + fallback url, 2: packagefiles (no url)
            if kind in (0, 1): values[what + '_url'] = 'http://x/f.tgz'
            if kind == 1: values[what + '_fallback_url'] = 'http://y/f.tgz'
            if kind == 2 and choose(2, 'nohash'): del values[what + '_hash']
            r.wrap = FakeWrap(values, '/pf'); r.cachedir = '/cache'
            r.wrap_mode = [WrapMode.default, WrapMode.nodownload][choose(2, 'wrap_mode')]
            r.hash_file = lambda path: w.dg(path)
            ntmp = [0]

            def get_data_with_backoff(url):
                w.downloads += 1
                if choose(2, 'download_fails'): raise WrapException('download failed')
                ntmp[0] += 1
                tmp = '/tmp/dl%d' % ntmp[0]
                w.exists[tmp] = True
                return w.dg(tmp), tmp
            r.get_data_with_backoff = get_data_with_backoff
            try:
                path = r._get_file_internal(what, 'pkg')
            except WrapException:
                cover('refused')
                if r.wrap_mode is WrapMode.nodownload: check(w.downloads == 0, 'nothing is fetched under wrap_mode=nodownload')
                for t in range(1, ntmp[0] + 1):
                    tmp = '/tmp/dl%d' % t
                    if w.exists.get(tmp, False): check(eq(w.dg(tmp), expected), 'a downloaded file with a wrong digest does not survive')
                return
            cover('returned')
            if what + '_hash' in values:
                check(eq(w.dg(path), expected), 'a file is handed out only if its digest equals the recorded hash')
            if r.wrap_mode is WrapMode.nodownload: check(w.downloads == 0, 'nothing is fetched under wrap_mode=nodownload')
            for t in range(1, ntmp[0] + 1):
                tmp = '/tmp/dl%d' % t
                if w.exists.get(tmp, False): check(eq(w.dg(tmp), expected), 'a downloaded file with a wrong digest does not survive')
        finally:
            W.os, W.Path = saved
    return h


def ob_cleanup():
    """Resolver._resolve: whatever way the patch / diff step fails, the freshly unpacked directory is removed before the error propagates"""
    def h():
        exists = {}
        removed = []
        fos = types.SimpleNamespace()
        fos.path = types.SimpleNamespace(exists=lambda p: exists.get(p, False), isdir=lambda p: exists.get(p, False) and not p.endswith('meson.build'),
                                         join=os.path.join, relpath=os.path.relpath, basename=os.path.basename)
        saved = (W.os, W.windows_proof_rmtree)
        W.os = fos

        def rmtree(p):
            removed.append(p)
            for k in list(exists):
                if k == p or k.startswith(p + '/'): exists[k] = False
        W.windows_proof_rmtree = rmtree
        try:
            r = object.__new__(W.Resolver)
            r.source_dir = '/src'; r.subdir_root = '/src/subprojects'; r.cachedir = '/src/subprojects/packagecache'; r.wrap_mode = WrapMode.default
            wrap = types.SimpleNamespace(directory='foo-1.0', subprojects_dir='/src/subprojects', original_filename=None, values={}, type=W.WrapType.FILE,
                                         name='foo', update_hash_cache=lambda d: None)
            r.wraps = {'foo': wrap}
            r.resolve_git_submodule = lambda: False
            ships_buildfile = decide(sym_bool('upstream_ships_meson_build'))

            def get_file(name):
                exists['/src/subprojects/foo-1.0'] = True
                if ships_buildfile: exists['/src/subprojects/foo-1.0/meson.build'] = True
            r._get_file = get_file
            EXC = [None, WrapException('hash mismatch'), OSError('disk'), EOFError('truncated archive'), ValueError('bad tar member')]
            pe = EXC[choose(len(EXC), 'patch_outcome')]
            de = EXC[choose(len(EXC), 'diff_outcome')] if pe is None else None

            def apply_patch(name):
                if pe is not None: raise pe
                exists['/src/subprojects/foo-1.0/meson.build'] = True
            def apply_diff_files():
                if de is not None: raise de
            r.apply_patch = apply_patch; r.apply_diff_files = apply_diff_files
            try:
                r._resolve('foo')
                failed = False
            except Exception as e:
                failed = True
                check(e is pe or e is de, 'the original error propagates')
            if pe is not None or de is not None:
                check(failed, 'a failed patch/diff step fails the resolution')
                check(not exists.get('/src/subprojects/foo-1.0', False), 'a failed patch/diff step removes the freshly unpacked directory')
                cover('cleaned')
            else:
                check(not failed and exists.get('/src/subprojects/foo-1.0', False), 'a successful resolution keeps the directory'); cover('resolved')
        finally:
            W.os, W.windows_proof_rmtree = saved
    return h


class IniStub:
    """what configparser hands PackageDefinition.parse_provide_section: sections of (key, value) pairs, keys lower-cased (optionxform), values as written"""
    def __init__(self, sections): self.s = sections
    def has_section(self, n): return n in self.s
    def __getitem__(self, n): return self.s[n]


def ob_provide_section():
    """from the [provide] section of a wrap file to the answer dependency() / find_program() gets: the real PackageDefinition.parse_provide_section, Resolver.add_wrap,
    find_dep_provider, get_varname, find_program_provider over symbolic names. A dependency the wrap names - in `dependency_names = A, B` or as `A = variable`,
    in whatever letter case - has the wrap as provider for the spelling the build file uses; a name it does not mention has none"""
    def h():
        form = choose(3, 'how the wrap names it')          # dependency_names = N1<sep>N2 | N1 = variable | program_names = N1<sep>N2
        AB = 'aB2'
        n1 = sym_str(1 + choose(2, 'len1'), 'name1', alphabet=AB); n2 = sym_str(1, 'name2', alphabet=AB)
        sep = [',', ', ', ' ,'][choose(3, 'separator')]
        if form == 0: sect = {'dependency_names': n1 + sep + n2}
        elif form == 1: sect = {n1.lower(): 'n1_dep'}
        else:
            assume(not decide(bt_any(n1 == n2)))          # the same program twice in one list is reported as two wraps providing it: outside this claim
            sect = {'program_names': n1 + sep + n2}
        pd = object.__new__(W.PackageDefinition)
        pd.name = 'sub'; pd.provided_deps = {'sub': None}; pd.provided_programs = []
        try:
            pd.parse_provide_section(IniStub({'provide': sect}))
        except WrapException:
            check(False, 'a well-formed [provide] section is accepted'); return
        r = object.__new__(W.Resolver)
        r.provided_deps = {}; r.provided_programs = {}; r.wrapdb_provided_deps = {}; r.wrapdb_provided_programs = {}; r.wraps = {'sub': pd}; r.wrapdb = {}
        r.add_wrap(pd)
        asked = [n1, n2][choose(2, 'which name the build file asks for')] if form != 1 else n1
        if form in (0, 1):
            got = r.find_dep_provider(asked)
            check(got[0] == 'sub', 'a dependency named in [provide] has the wrap as its provider, whatever its letter case')
            check(got[1] == (None if form == 0 else 'n1_dep'), 'the variable name is the one the wrap gives (none for dependency_names)')
            other = sym_str(1, 'other', alphabet='aBz')
            assume(not decide(bt_any(other.lower() == n1.lower()))); assume(not decide(bt_any(other.lower() == n2.lower())) if form == 0 else True)
            check(r.find_dep_provider(other) == (None, None), 'a name the wrap does not mention has no provider')
            cover('dependency')
        else:
            check(r.find_program_provider([asked]) == 'sub', 'a program named in [provide] has the wrap as its provider')
            check(r.find_dep_provider(asked)[0] is None, 'a program name is not a dependency name')
            cover('program')
    return h


def obligations(tier):
    out = [Obligation('policy', ob_policy(False), dict(cells='wrap_mode x force_fallback_for(name,subproject) x required x allow_fallback x fallback kwarg (absent|[]|[sub]|[sub,var]) x wrap provides x persistent dependency cache of an earlier run x system x subproject ok x override'),
                      labels=('system', 'subproject', 'notfound', 'error', 'arg-error'), max_paths=3000000),
           Obligation('policy+versions', ob_policy(True, tier != 'quick'), dict(cells='as policy' + (' (quick: without the persistent-cache dimension)' if tier == 'quick' else ''), versions='wanted >= d1, subproject version d2, symbolic digits'),
                      labels=('system', 'subproject', 'notfound', 'error'), max_paths=5000000),
           Obligation('override-static', ob_override_static(), dict(real='MesonMain.override_dependency_method / _override_dependency_impl, DependencyFallbacksHolder.lookup', override_static='absent | true | false, optionally a second override for the other flavour', lookup_static='absent | true | false', default_library='symbolic shared | static | both'), labels=('done',)),
           Obligation('override', ob_override(), dict(override='found / not found, symbolic version vs symbolic constraint'), labels=('override', 'notfound', 'error')),
           Obligation('sources/source', ob_sources('source'), dict(kinds='url | url+fallback url | packagefiles', faults='existence, digests, download failures symbolic'), labels=('returned', 'refused')),
           Obligation('sources/patch', ob_sources('patch'), dict(kinds='url | url+fallback url | packagefiles'), labels=('returned', 'refused')),
           Obligation('sources/cleanup-after-failed-patch', ob_cleanup(), dict(patch_outcome='ok | WrapException | OSError | EOFError | ValueError', diff_outcome='same', upstream_buildfile='symbolic'),
                      labels=('cleaned', 'resolved')),
           Obligation('provide-section', ob_provide_section(), dict(real='PackageDefinition.parse_provide_section, Resolver.add_wrap / find_dep_provider / find_program_provider', configparser='stub: keys lower-cased, values as written', names='1-2 and 1 chars over {a, B, 2}', separator="',' | ', ' | ' ,'", forms='dependency_names | name = variable | program_names'), labels=('dependency', 'program'))]
    return out
