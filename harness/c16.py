"""C16 - meson format preserves meaning and comments and is idempotent."""
from pathlib import Path
from symx.api import *

PROPERTY = 'C16'
LEVEL = 'other'
FILES = ['mesonbuild/mformat.py', 'mesonbuild/mparser.py', 'mesonbuild/ast/printer.py', 'mesonbuild/ast/visitor.py']
ENCODED = ['mformat.run with --recursive, SubdirFetcher', 'mformat.Formatter.format', 'FormatterConfig.default/update', 'mformat.TrimWhitespaces', 'mformat.ArgumentFormatter', 'mformat.ComputeLineLengths',
           'mformat.MultilineArgumentDetector / AstConditionLevel', 'ast.printer.RawPrinter', 'the real parser on both sides']
EXPLANATION = ('Symbolic execution of the real formatter with the WHOLE FormatterConfig symbolic (every Boolean option a symbolic Boolean, max_line_length and tab_width symbolic '
               'integers, indent width chosen): "all combinations of options" is one symbolic configuration that forks only where the formatter consults it. Input programs '
               'are a corpus of nasty shapes (comments in argument lists, continuations, trailing commas, multi-line strings, files() arrays) plus templates with symbolic '
               'string bodies. Checked: parse-equivalence of output and input (decoded string values solver-compared), comments preserved in order, idempotence.')
ASSUMPTIONS = ['end_of_line=lf, indent_before_comments one space, use_editor_config off (editorconfig discovery is file I/O)', 'max_line_length 0..40, tab_width 1..8, indent_by: empty | 1 space | 4 spaces | tab',
               'programs: the listed corpus and templates; string bodies <= 2 characters over {a, quote, backslash, n, newline, @}']
OUT = 'editorconfig discovery and match_path, --recursive beyond the tree shapes of the recursive obligation (--subprojects), programs beyond the corpus/templates, non-ASCII'
MANIFEST = dict(
    text='Bounded symbolic decision over ALL formatter configurations at once (symbolic config) for each program of the corpus and each template with symbolic string bodies: '
         'same program after formatting, same comments, format(format(x)) == format(x).',
    note='Trusted: symx engine, z3, the structural normal form used for parse-equivalence. Bounds: configuration ranges above; 40 corpus programs + 6 templates with string bodies <=2.')

mp = MF = ME = None


def setup():
    global mp, MF, ME
    from mesonbuild import mparser as m
    from mesonbuild import mformat as f
    from mesonbuild.mesonlib import MesonException
    from harness.common import quiet_mlog
    quiet_mlog()
    mp, MF, ME = m, f, MesonException


def norm(n, sortfiles):
    N = lambda x: norm(x, sortfiles)
    if isinstance(n, mp.ParenthesizedNode): return N(n.inner)
    if isinstance(n, mp.CodeBlockNode): return ('block', tuple(N(x) for x in n.lines))
    if isinstance(n, mp.StringNode): return ('str', n.value, n.is_fstring and ('@' in n.value if isinstance(n.value, str) else decide(bt_any(mkbool(zor([ceq(c, 64) for c in chars_of(n.value)]))))))
    if isinstance(n, mp.NumberNode): return ('num', n.value)
    if isinstance(n, mp.BooleanNode): return ('bool', n.value)
    if isinstance(n, mp.IdNode): return ('id', n.value)
    if isinstance(n, mp.ArgumentNode):
        return ('args', tuple(N(x) for x in n.arguments), tuple((N(k), N(v)) for k, v in n.kwargs.items()))
    if isinstance(n, mp.ArrayNode): return ('array', N(n.args))
    if isinstance(n, mp.DictNode): return ('dict', N(n.args))
    if isinstance(n, mp.FunctionNode):
        a = N(n.args)
        if n.func_name.value == 'files':
            pos = []
            for x in a[1]:
                if x[0] == 'array': pos.extend(x[1][1])     # documented: files([...]) is flattened
                else: pos.append(x)
            if sortfiles: pos = sorted(pos, key=repr)       # documented: sort_files sorts the arguments of files()
            a = ('args', tuple(pos), a[2])
        return ('call', n.func_name.value, a)
    if isinstance(n, mp.MethodNode): return ('method', N(n.source_object), n.name.value, N(n.args))
    if isinstance(n, mp.IndexNode): return ('index', N(n.iobject), N(n.index))
    if isinstance(n, mp.ComparisonNode): return ('cmp', n.ctype, N(n.left), N(n.right))
    if isinstance(n, mp.ArithmeticNode): return ('arith', n.operation, N(n.left), N(n.right))
    if isinstance(n, mp.OrNode): return ('or', N(n.left), N(n.right))
    if isinstance(n, mp.AndNode): return ('and', N(n.left), N(n.right))
    if isinstance(n, mp.NotNode): return ('not', N(n.value))
    if isinstance(n, mp.UMinusNode): return ('neg', N(n.value))
    if isinstance(n, mp.PlusAssignmentNode): return ('pluseq', n.var_name.value, N(n.value))
    if isinstance(n, mp.AssignmentNode): return ('assign', n.var_name.value, N(n.value))
    if isinstance(n, mp.TernaryNode): return ('tern', N(n.condition), N(n.trueblock), N(n.falseblock))
    if isinstance(n, mp.ForeachClauseNode): return ('foreach', tuple(v.value for v in n.varnames), N(n.items), N(n.block))
    if isinstance(n, mp.IfClauseNode): return ('if', tuple((N(i.condition), N(i.block)) for i in n.ifs), None if isinstance(n.elseblock, mp.EmptyNode) else N(n.elseblock.block))
    if isinstance(n, mp.ContinueNode): return ('continue',)
    if isinstance(n, mp.BreakNode): return ('break',)
    if isinstance(n, mp.EmptyNode): return ('empty',)
    raise TypeError(type(n))


def same(a, b, what):
    """deep comparison of two normal forms; leaves may be symbolic strings"""
    if isinstance(a, tuple) and isinstance(b, tuple):
        check(len(a) == len(b), what + ': shape')
        if len(a) == len(b):
            for x, y in zip(a, b): same(x, y, what)
        return
    if isinstance(a, (str, SymStr)) and isinstance(b, (str, SymStr)):
        check(len(a) == len(b), what + ': string length')
        if len(a) == len(b): check(eq(a, b), what + ': string value')
        return
    check(eq(a, b) if not (a is None or b is None) else a is b, what + ': leaf')


def comments(text):
    """comment texts in order, through the real lexer"""
    out = []
    for t in mp.Lexer(text).lex('f'):
        if t.tid == 'comment': out.append(t.value.strip())
        elif t.tid == 'whitespace' and len(t.value) and decide(bt_any(t.value[0] == '\\')):     # eol_cont may carry a comment
            i = t.value.find('#')
            if i >= 0: out.append(t.value[i:].strip())
    return out


def mk_config(narrow=False):
    if narrow:       # the options that decide argument-list treatment; the rest at their defaults
        return MF.FormatterConfig(max_line_length=sym_int('max_line_length', 0, 40), no_single_comma_function=sym_bool('no_single_comma_function'),
                                  simplify_string_literals=sym_bool('simplify_string_literals'), sort_files=sym_bool('sort_files'), use_editor_config=False)
    return MF.FormatterConfig(
        max_line_length=sym_int('max_line_length', 0, 40),
        indent_by=['', ' ', '    ', '\t'][choose(4, 'indent')],
        space_array=sym_bool('space_array'), kwargs_force_multiline=sym_bool('kwargs_force_multiline'), wide_colon=sym_bool('wide_colon'),
        no_single_comma_function=sym_bool('no_single_comma_function'), end_of_line='lf', indent_before_comments=' ',
        simplify_string_literals=sym_bool('simplify_string_literals'), insert_final_newline=sym_bool('insert_final_newline'), tab_width=sym_int('tab_width', 1, 8),
        sort_files=sym_bool('sort_files'), group_arg_value=sym_bool('group_arg_value'), use_editor_config=False)


def mk_formatter(cfg):
    f = object.__new__(MF.Formatter)
    f.use_editor_config = False; f.fetch_subdirs = False; f.config = cfg
    return f


def classify(label, inputs):
    d = {n: v for k, n, v in inputs}
    if label.startswith('idempotent') and d.get('no_single_comma_function') is True:
        return 'not idempotent with no_single_comma_function and a trailing comma that forced the multi-line layout'
    if label.startswith('comments preserved') and any(k == 'program' for k in d) is False:
        pass
    return label


def run_checks(src, narrow=False):
    cfg = mk_config(narrow)
    f = mk_formatter(cfg)
    try:
        a_ast = mp.Parser(src, 'f').parse()
    except mp.ParseException:
        cover('source-rejected'); return
    out = f.format(src, Path('/x/meson.build'))
    sf = decide(bt_any(cfg.sort_files))
    try:
        b_ast = mp.Parser(out, 'f').parse()
    except mp.ParseException:
        check(False, 'formatted output does not parse'); return
    same(norm(a_ast, sf), norm(b_ast, sf), 'formatting changed the program')
    c1, c2 = comments(src), comments(out)
    check(len(c1) == len(c2), 'comments preserved: count')
    if len(c1) == len(c2):
        for x, y in zip(c1, c2):
            check(len(x) == len(y) and decide(bt_any(eq(x, y))) if not (isinstance(x, str) and isinstance(y, str)) else x == y, 'comments preserved: text and order')
    try:
        out2 = f.format(out, Path('/x/meson.build'))
    except ME:
        check(False, 'formatted output cannot be formatted again'); return
    check(len(out) == len(out2), 'idempotent: format(format(x)) == format(x)')
    if len(out) == len(out2): check(eq(out, out2), 'idempotent: format(format(x)) == format(x) ')
    cover('done')


CORPUS = [
    "x = 1\n", "x = f(a, b)\n", "x = f(a, b, c : 1, d : [1, 2, 3])\n", "x = [1, 2, 3, ]\n", "x = {'a' : 1, 'b' : 2}\n",
    "x = f(\n  a,\n  b,\n)\n", "if a\n  x = 1\nelif b\n  x = 2\nelse\n  x = 3\nendif\n", "foreach i : [1, 2]\n  x += i\nendforeach\n",
    "x = '''it's'''\n", "x = f'''@a@'''\n", "f(a, # c1\n  b) # c2\n", "x = [ # c\n]\n", "if a # c\n  b = 1 # d\nelse # e\n  b = 2\nendif # f\n",
    "x = a \\\n  + b\n", "x = (a and\n b)\n", "foo = files('b.c', 'a.c', 'sub/c.c')\n", "x = {'a' : 1, # k\n 'b':2}\n", "f(a,\n\n\n  b)\n# tail",
    "x = 1 # c\n\n\n\ny = 2\n", "x = a.b( c ).d( e : [ 1 , 2 ] , )\n", "foreach i , j : d\n continue\nendforeach\n", "x = a ? b : c # t\n",
    "x='a'+'''b'''  +  f'c'\n", "x = files(['b.c', 'a.c'], 'c.c')\n", "x = '''a'b'''\ny = '''a\\nb'''\nz = '''a\\\\'''\n", "x = f'''a@b@'''\n",
    "if not (a and b) or c\n x = -(1 + 2) * 3\nendif\n", "x = [1, [2, 3], {'a': [4]}]\n", "x = '''multi\nline'''\n", "w = '''C:\\temp\\new'''\n",
    "x = 1 + \\ # why\n  2  # sum\n", "x = files(['a'] # c\n)\n", "executable('e', 'a.c', 'b.c', dependencies : [d1, d2], install : true)\n",
    "x = f(a,b,)\ny = g(k : v,)\n", "x = [\n  'a',\n  'b', # c\n]\n", "x = a.b().c().d(1, 2)\n", "x = -1\ny = not true\nz = a[0]\n",
    "project('p', 'c', version : '1.0', default_options : ['a=b', 'c=d'])\n", "x = f(a, [1, 2], b)\n", "#only a comment\n",
    "x = files(['b.c', 'a.c'])\n", "x = files('z.c', ['b.c', 'a.c'])\n", "foo('a',)\n", "x = files(\n  'b.c', # second\n  'a.c', # first\n)\n",
    "foreach x : l\n  # only a comment\nendforeach\nexecutable('a_rather_long_program_name', 'source1.c', 'source2.c')\n",
    "if a\n  # c1\nelif b\n  # c2\nelse\n  # c3\nendif\nf(aaaaaaaaaaaaaaaaaa, bbbbbbbbbbbbbbbbbbbbbb, cccccccccccccccccccc)\n",
    "foreach k, v : d\n  # first\n  x += v # second\n  # third\nendforeach\ny = g(aaaaaaaaaaaaaaaaaa, bbbbbbbbbbbbbbbbbbbbbb)\n",
    "n = 'w'\nx = f'hello \\x40n\\x40'\ny = f'\\100n\\100 @n@'\n",
    "x = (a and\n  b == -1)\n", "ok = (have_aaaaaaaaaaaaaaa and have_bbbbbbbbbbbbbbbbbbb and cc.sizeof('long') == -1)\n",
    "x = files(f'b.c', 'a.c')\n", "x = files(f'b@0@.c', '''a.c''', 'c.c')\n", "x = files(\n  'b.c',\n  'a.c' # last\n)\n", "x = (a and # why\n  b)\n",
]


def ob_corpus(i):
    def h():
        run_checks(CORPUS[i])
    return h


SB = "a'\\n\n@"
TEMPLATES = [lambda b: "x = '''" + b + "'''\n", lambda b: "x = f'''" + b + "'''\n", lambda b: "x = f('" + b + "', k : '" + b + "')\n",
             lambda b: "x = ['''" + b + "''', 1] # c\n", lambda b: "x = files('" + b + ".c', 'a.c')\n", lambda b: "x = f'" + b + "'\n"]


def ob_template(k, n):
    def h():
        excl = '\n' if k in (2, 4, 5) else ''
        body = sym_str(n, 'body', alphabet=SB, exclude=excl)
        run_checks(TEMPLATES[k](body))
    return h


TQ = "'" * 3


def ob_shapes(fn_name, nmax):
    """grammar-enumerated argument lists: 2-3 arguments, each one of {plain, f-string, triple-quoted, f-string with substitution, nested array}, names in
    descending order (so sorting matters), optional trailing comma, optional comment after one argument, one-line or one-per-line layout"""
    def h():
        n = 2 + (choose(2, 'nargs') if nmax > 2 else 0)
        names = ['c', 'b', 'a'][:n] if n == 3 else ['b', 'a']
        args = []
        for i, nm in enumerate(names):
            k = choose(5, 'kind%d' % i)
            args.append(["'%s.c'" % nm, "f'%s.c'" % nm, TQ + nm + '.c' + TQ, "f'%s@0@.c'" % nm, "['%s2.c', '%s1.c']" % (nm, nm)][k])
        trailing = choose(2, 'trailing_comma') == 1
        multi = choose(2, 'multiline') == 1
        cpos = choose(n + 1, 'comment_after')        # n = no comment
        if cpos < n and not multi: multi = True      # a comment needs a line end
        if multi:
            text = 'x = %s(\n' % fn_name
            for i, a in enumerate(args):
                text += '  ' + a + (',' if i < n - 1 or trailing else '') + (' # c%d' % i if i == cpos else '') + '\n'
            text += ')\n'
        else:
            text = 'x = %s(' % fn_name + ', '.join(args) + (',' if trailing else '') + ')\n'
        run_checks(text, narrow=True)
    return h


TRIVIA = ['', ' ', '\n', ' \\\n ', ' # c\n', '\n\n']
BRACKETS = [('call', 'x = f(', ')', 'a', 'b'), ('array', 'x = [', ']', 'a', 'b'), ('dict', 'x = {', '}', "'k' : a", "'l' : b"), ('method', 'x = o.m(', ')', 'a', 'b'), ('kwarg', 'x = f(', ')', 'a', 'k : b')]


def ob_trivia(bi, slots, full_cfg):
    """legal trivia - blanks, line breaks, a line CONTINUATION (backslash newline), a comment, a blank line - in the slots of a two-element argument list,
    array, dictionary, method call and keyword-argument list: after the opening bracket, before and after the comma, before the closing bracket"""
    def h():
        name, op, cl, a, b = BRACKETS[bi]
        k = len(TRIVIA) if slots == 4 else len(TRIVIA) - 1
        t0 = TRIVIA[choose(k, 'after-open')] if slots >= 3 else ''
        t1 = TRIVIA[choose(k, 'before-comma')] if slots == 4 else ''
        t2 = TRIVIA[choose(k, 'after-comma')]; t3 = TRIVIA[choose(k, 'before-close')]
        tc = choose(2, 'trailing_comma') == 1
        text = op + t0 + a + t1 + ',' + t2 + b + (',' if tc else '') + t3 + cl + '\ny = 2\n'
        run_checks(text, narrow=not full_cfg)
    return h


ATOMS = ['a', '@', '\\x40', '\\100', '\\\\', "\\'", '\\n', 'n', '@n@']


def ob_atoms(natoms):
    """string literals assembled from escape ATOMS (so that every special character also appears in its escaped spellings: \\x40 and \\100 are '@'), in all four
    literal kinds: the simplification of triple-quoted / f-strings must go by what the string DENOTES, not by how it is spelled"""
    def h():
        body = ''.join(ATOMS[choose(len(ATOMS), 'atom%d' % i)] for i in range(natoms))
        kind = choose(4, 'kind')
        if kind >= 2 and body.endswith("'"): body += 'a'
        lit = ["'" + body + "'", "f'" + body + "'", TQ + body + TQ, 'f' + TQ + body + TQ][kind]
        run_checks('n = 1\nx = ' + lit + '\n', narrow=True)
    return h


# ---------------------------------------------------------------- meson format --check-only / --check-diff over several files (the real mformat.run)
CLI_TEXTS = ["x = 1\n", "x=1\n", "y = f(a, b)\n", "y = f( a,b )\n", "z = [1, 2]\n", "z = [1,2,]\n", "x = 1"]          # the last: formatted except for the missing final newline


class SrcFile:
    """stands for a pathlib.Path naming one build file: what mformat.run asks of it (the engine does not instrument pathlib)"""
    def __init__(self, name, text): self.name = name; self.text = text; self.parent = Path('/x') / name
    def is_dir(self): return False
    def read_text(self, encoding=None): return self.text
    def as_posix(self): return '/x/%s/meson.build' % self.name
    def __str__(self): return self.as_posix()


def ob_check_mode():
    """`meson format --check-only / --check-diff` over 1-3 files (the real run() loop, the real Formatter): the exit status is 1 iff formatting would change
    SOME file - whichever position it has in the list - and --check-diff prints a diff for exactly the files that would change"""
    def h():
        import io, contextlib, argparse
        n = 1 + choose(3, 'nfiles')
        texts = [CLI_TEXTS[choose(len(CLI_TEXTS), 'file%d' % i)] for i in range(n)]
        diffmode = choose(2, 'mode') == 1
        srcs = [SrcFile('d%d' % i, t) for i, t in enumerate(texts)]
        opts = argparse.Namespace(output=None, sources=list(srcs), recursive=False, subprojects=False, inplace=False, check_only=not diffmode, check_diff=diffmode,
                                  source_file_path=None, editor_config=False, configuration=None)
        saved = MF.get_meson_format
        MF.get_meson_format = lambda s: None
        buf = io.StringIO()
        try:
            with contextlib.redirect_stdout(buf):
                rc = MF.run(opts)
        finally:
            MF.get_meson_format = saved
        ref = MF.Formatter(None, False, False)
        would_change = [ref.format(t, Path('/x/meson.build')) != t for t in texts]
        lines_change = [ref.format(t, Path('/x/meson.build')).splitlines() != t.splitlines() for t in texts]          # a unified diff shows lines: a missing final newline alone changes the status, not the diff
        check(rc == (1 if any(would_change) else 0), 'exit status 1 iff formatting would change some file')
        if diffmode:
            out = buf.getvalue()
            for s, w in zip(srcs, lines_change):
                check((('--- ' + s.as_posix()) in out) == w, '--check-diff prints a diff for exactly the files that would change')
        cover('differs' if any(would_change) else 'clean')
    return h


# directory names as (name on disk, spelling inside a meson string literal)
REC_NAMES = [('plain', 'plain'), ("it's", "it\\'s"), ('a b', 'a b'), ('x\\y', 'x\\\\y'), ('A', '\\x41')]


def ob_recursive():
    """`meson format --recursive` with --check-only / --check-diff / --inplace on real files in a scratch directory (the real run() loop, the real SubdirFetcher,
    the real Formatter): every build file reachable through subdir() - whatever characters the directory name needs escaped in the build file - is read; the exit
    status is 1 iff formatting would change one of them; --check-diff names exactly those; --inplace leaves every one of them formatted"""
    def h():
        import io, contextlib, argparse, tempfile, shutil
        d = Path(tempfile.mkdtemp(prefix='c16rec'))
        try:
            name, spelled = REC_NAMES[choose(len(REC_NAMES), 'directory name')]
            nested = choose(2, 'a subdir() inside the subdirectory') == 1
            bad = [choose(2, 'file %d needs formatting' % i) == 1 for i in range(3 if nested else 2)]
            body = lambda b: 'x=1\n' if b else 'x = 1\n'
            files = [(d / 'meson.build', "project('p')\nsubdir('%s')\n" % spelled + body(bad[0])),
                     (d / name / 'meson.build', ("subdir('in')\n" if nested else '') + body(bad[1]))]
            if nested: files.append((d / name / 'in' / 'meson.build', body(bad[2])))
            for p, t in files:
                p.parent.mkdir(parents=True, exist_ok=True); p.write_text(t, encoding='utf-8')
            mode = choose(3, 'mode')          # --check-only | --check-diff | --inplace
            opts = argparse.Namespace(output=None, sources=[d], recursive=True, subprojects=False, inplace=mode == 2, check_only=mode == 0, check_diff=mode == 1,
                                      source_file_path=None, editor_config=False, configuration=None)
            buf = io.StringIO()
            try:
                with contextlib.redirect_stdout(buf):
                    rc = MF.run(opts)
            except ME:
                check(False, 'every build file reachable through subdir() is read'); return
            ref = MF.Formatter(None, False, False)
            want = [ref.format(t, p) for p, t in files]
            would_change = [w != t for w, (p, t) in zip(want, files)]
            check(would_change == bad, 'harness: exactly the files written unformatted would change')
            if mode == 2:
                check(rc == 0, '--inplace succeeds')
                for (p, t), w in zip(files, want):
                    check(p.read_text(encoding='utf-8') == w, '--inplace --recursive leaves every reachable build file formatted')
            else:
                check(rc == (1 if any(would_change) else 0), '--recursive: exit status 1 iff formatting would change some reachable file')
                for (p, t), w in zip(files, want):
                    check(p.read_text(encoding='utf-8') == t, 'a check mode writes nothing')
                if mode == 1:
                    out = buf.getvalue()
                    for (p, t), w in zip(files, would_change):
                        check((('--- ' + str(p)) in out) == w, '--check-diff --recursive prints a diff for exactly the reachable files that would change')
            cover('differs' if any(would_change) else 'clean')
        finally:
            shutil.rmtree(d, ignore_errors=True)
    return h


def obligations(tier):
    q = tier == 'quick'
    out = []
    for i in range(len(CORPUS)):
        cl = classify
        if 'files([' in CORPUS[i] and '#' in CORPUS[i]:
            cl = (lambda label, inputs: 'comments preserved: count [files() with a comment after the array]' if label == 'comments preserved: count' else classify(label, inputs))
        out.append(Obligation('program[%d]' % i, ob_corpus(i), dict(program=CORPUS[i], configuration='fully symbolic'), labels=('done',), max_paths=3000000, classify=cl))
    for fname in ('files', 'f'):
        out.append(Obligation('shapes[%s]' % fname, ob_shapes(fname, 3 if (fname == 'files' or not q) else 2), dict(function=fname, arguments='2-3 of {plain, f-string, triple-quoted, f-string with @0@, nested array}', layout='one line | one per line',
                              trailing_comma='both', comment='after any argument or none', configuration='max_line_length, sort_files, simplify_string_literals, no_single_comma_function symbolic; the rest default'), labels=('done',), max_paths=5000000, classify=classify))
    for bi, br in enumerate(BRACKETS):
        slots = 3 if q else 4
        out.append(Obligation('trivia[%s]' % br[0], ob_trivia(bi, slots, False), dict(construct=br[1] + '<T0>' + br[3] + ('<T1>' if not q else '') + ',<T2>' + br[4] + '[,]<T3>' + br[2],
                              trivia='none | blank | line break | continuation | comment' + ('' if q else ' | blank line'), configuration='narrow (see shapes)'), labels=('done',), optional_labels=('source-rejected',), max_paths=5000000, classify=classify))
        if not q:
            out.append(Obligation('trivia-config[%s]' % br[0], ob_trivia(bi, 2, True), dict(construct=br[1] + br[3] + ',<T2>' + br[4] + '[,]<T3>' + br[2],
                                  trivia='none | blank | line break | continuation | comment', configuration='fully symbolic'), labels=('done',), optional_labels=('source-rejected',), max_paths=5000000, classify=classify))
    for n in ((2, 3) if q else (2, 3, 4)):
        out.append(Obligation('atoms[%d]' % n, ob_atoms(n), dict(atoms=n, alphabet=' '.join(ATOMS), kinds="'..' f'..' '''..''' f'''..'''", configuration='narrow (see shapes)'), labels=('done',), optional_labels=('source-rejected',), max_paths=5000000, classify=classify))
    for k in range(len(TEMPLATES)):
        for n in ((1, 2) if q else (1, 2, 3)):
            out.append(Obligation('template[%d,%d]' % (k, n), ob_template(k, n), dict(template=TEMPLATES[k]('<BODY>'), body_len=n, alphabet=SB, configuration='fully symbolic'),
                                  labels=('done',), max_paths=5000000, classify=classify))
    out.append(Obligation('check-mode', ob_check_mode(), dict(files='1-3 out of %d texts (3 formatted, 3 not, 1 formatted but for the final newline)' % len(CLI_TEXTS), mode='--check-only | --check-diff', real='mformat.run, Formatter.format'), labels=('differs', 'clean')))
    out.append(Obligation('recursive', ob_recursive(), dict(real='mformat.run with --recursive, SubdirFetcher, Formatter.format on a scratch directory', directory_names=[n for n, s in REC_NAMES], spelled=[s for n, s in REC_NAMES],
                          tree='top + subdirectory (+ nested subdirectory)', unformatted='any subset', mode='--check-only | --check-diff | --inplace'), labels=('differs', 'clean')))
    return out
