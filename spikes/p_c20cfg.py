import sys, time
sys.path.insert(0, __import__('os').path.dirname(__import__('os').path.abspath(__file__))); sys.path.insert(0, '/repo')
from sx import instr, core
from sx.values import *
from sx.core import choose, check, cover
from sx.instr import SymDict
instr.install()
from mesonbuild.cargo import cfg as ccfg
from mesonbuild.mesonlib import MesonException
import z3

def harness(n):
    def h():
        body = sym_str(n, 'c', alphabet='anyl(),="t ')
        raw = 'cfg(' + body + ')'
        cfgs = SymDict([(sym_str(1, 'k', alphabet='anyl'), sym_str(1, 'v', alphabet='anyl'))])
        try:
            r = ccfg.eval_cfg(raw, cfgs)
            cover('value')
        except MesonException:
            cover('rejected')
    return h
if __name__ == '__main__':
    for n in (1, 2, 3, 4, 5):
        st = core.explore(harness(n), max_paths=60000)
        print(n, 'paths', st['paths'], 'checks', st['checks'], 'viol', len(st['violations']), 'errors', len(st['errors']), st['labels'], 'time %.1f' % st['time'], st.get('truncated'), flush=True)
        for e in st['errors'][:3]: print('   ', e[:2])
