import typing as T
from mesonbuild.utils.universal import Version, Range

def tok(s: str) -> int:
    """
    pre: len(s) <= 3
    post: _ <= len(s)
    """
    return len(Version(s)._v)

def tok2(s: str) -> bool:
    """
    pre: len(s) <= 3
    post: _
    """
    v = Version(s)._v
    return not (len(v) == 2 and v[0] == 1 and v[1] == 'b')
