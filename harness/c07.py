"""C07 - option values resolve by the documented precedence and are always valid."""
from symx.api import *

PROPERTY = 'C07'
LEVEL = 'other'
FILES = ['mesonbuild/options.py']
ENCODED = ['UserStdOption.set_versions / validate_value', 'options.OptionKey', 'UserOption.validate_value/set_value/listify (integer, boolean, combo, string, array, feature)', 'OptionStore.init_builtins/add_system_option/'
           'add_project_option', 'OptionStore.initialize_from_top_level_project_call/first_handle_prefix/prefix_split_options/hard_reset_from_prefix',
           'OptionStore.initialize_from_subproject_call', 'OptionStore.set_user_option/set_option (sanitisation, validate, readonly, buildtype expansion)/reset_prefixed_options',
           'OptionStore.get_value_for/get_option_and_value_for/resolve_option', 'sanitize_prefix/sanitize_dir_option_value']
EXPLANATION = ('Symbolic execution of the real OptionStore: WHICH sources set the option is a vector of symbolic Booleans (3 at top level, 8 for a subproject: every subset '
               'is reached by forking on the presence bits), the values are symbolic (integers with symbolic min/max given as int or decimal string, booleans in either '
               'spelling, combo values chosen symbolically among choices plus an invalid string); the effective value is compared with the documented precedence, invalid '
               'values must raise MesonException and every stored value must satisfy the option\'s constraints.')
ASSUMPTIONS = ['option keys are concrete; one option under test at a time plus prefix/buildtype/debug/optimization', 'one subproject', 'native build (is_cross False) unless stated',
               'parsing of machine files / command line into dictionaries is outside (the dictionaries are the inputs)']
OUT = 'parsing machine files and the command line into dictionaries (cmdline.py, machinefile.py), compiler-specific option registration, optinterpreter'
MANIFEST = dict(
    text='Bounded symbolic decision over ALL subsets of value sources (2^3 top level, 2^8 subproject) and all values within the stated ranges at once: effective value = '
         'highest-priority present source, invalid value => MesonException, stored value always valid; prefix-dependent directory defaults (every prefix spelling with/without a trailing slash); buildtype expansion; per-machine options in native and cross builds incl. subproject keys; yielding options of every kind; the documented deprecated: forms.',
    note='Trusted: symx engine, z3, the precedence lists from docs/markdown/Builtin-options.md and Machine-files.md. Bounds: integer values -9..9, ranges -5..5, one option under test, one subproject.')

O = ME = None


def setup():
    global O, ME
    from mesonbuild import options as o
    from mesonbuild.mesonlib import MesonException
    from harness.common import quiet_mlog
    o.mlog = quiet_mlog()
    O, ME = o, MesonException


def new_store():
    st = O.OptionStore(False)
    st.init_builtins()
    return st


def ob_top_int():
    def h():
        store = new_store()
        lo = sym_int('lo', -5, 5); hi = sym_int('hi', -5, 5)
        assume(lo <= hi)
        dflt = sym_int('d', -9, 9)
        assume(sym_and(dflt >= lo, dflt <= hi))
        k = O.OptionKey('someint')
        store.add_system_option('someint', O.UserIntegerOption('someint', 'x', dflt, min_value=lo, max_value=hi))
        present = [sym_bool('p%d' % i) for i in range(3)]
        vals = [sym_int('v%d' % i, -9, 9) for i in range(3)]
        dicts = [{}, {}, {}]
        for i in range(3):
            if present[i]:
                dicts[i][k] = sym_str_of_int(vals[i], 1) if choose(2, 'asstr%d' % i) else vals[i]
        proj, mach, cmd = dicts
        exp = dflt
        invalid = False
        for i in (0, 1, 2):
            if dicts[i]:
                exp = vals[i]
                invalid = sym_or(invalid, vals[i] < lo, vals[i] > hi)
        try:
            store.initialize_from_top_level_project_call(proj, cmd, mach)
        except ME:
            check(invalid, 'MesonException only when some given value is outside [min, max]'); cover('rejected'); return
        check(sym_not(invalid), 'a value violating the range is always rejected')
        got = store.get_value_for(k)
        check(eq(got, exp), 'command line > machine file > project default_options > declared default')
        check(sym_and(got >= lo, got <= hi), 'stored value satisfies the range')
        cover('accepted')
    return h


def ob_top_kind(kind):
    def h():
        store = new_store()
        k = O.OptionKey('opt')
        if kind == 'bool':
            store.add_system_option('opt', O.UserBooleanOption('opt', 'x', decide(sym_bool('default'))))
            dflt = store.get_value_for(k)
        elif kind == 'combo':
            store.add_system_option('opt', O.UserComboOption('opt', 'x', 'c0', choices=['c0', 'c1', 'c2', 'c3']))
            dflt = 'c0'
        elif kind == 'feature':
            store.add_system_option('opt', O.UserFeatureOption('opt', 'x', 'auto'))
            dflt = 'auto'
        else:
            store.add_system_option('opt', O.UserStringOption('opt', 'x', 'dflt'))
            dflt = 'dflt'
        present = [sym_bool('p%d' % i) for i in range(3)]
        dicts = [{}, {}, {}]
        vals = [None] * 3
        bad = False
        for i in range(3):
            if present[i]:
                if kind == 'bool':
                    b = sym_bool('v%d' % i)
                    sp = choose(4, 'spell%d' % i)
                    if sp == 0: raw = b
                    else:
                        tv = decide(b)
                        raw = [None, ('true', 'false'), ('True', 'False'), ('TRUE', 'nope')][sp][0 if tv else 1]
                        if raw == 'nope': bad = True
                        b = tv
                    vals[i] = b; dicts[i][k] = raw
                elif kind == 'combo':
                    e = sym_enum(['c1', 'c2', 'c3', 'zz'], 'v%d' % i)
                    vals[i] = e; dicts[i][k] = e
                    bad = sym_or(bad, e == 'zz')
                elif kind == 'feature':
                    e = sym_enum(['enabled', 'disabled', 'auto', 'true'], 'v%d' % i)
                    vals[i] = e; dicts[i][k] = e
                    bad = sym_or(bad, e == 'true')
                else:
                    s = sym_str(2, 'v%d' % i, alphabet='ab ,')
                    vals[i] = s; dicts[i][k] = s
        proj, mach, cmd = dicts
        exp = dflt
        for i in (0, 1, 2):
            if dicts[i]: exp = vals[i]
        try:
            store.initialize_from_top_level_project_call(proj, cmd, mach)
        except ME:
            check(bad, 'MesonException only for a value outside the option\'s type/choices'); cover('rejected'); return
        check(sym_not(mkbool(bt_any(bad))) if not isinstance(bad, bool) else (not bad), 'an invalid value is always rejected')
        got = store.get_value_for(k)
        check(eq(got, exp), 'command line > machine file > project default_options > declared default')
        cover('accepted')
    return h


def ob_array():
    """array option with choices: every element must be a choice, whichever spelling (list or comma string) and source"""
    def h():
        store = new_store()
        k = O.OptionKey('arr')
        store.add_system_option('arr', O.UserStringArrayOption('arr', 'x', ['c0'], choices=['c0', 'c1', 'c2']))
        present = [sym_bool('p%d' % i) for i in range(3)]
        dicts = [{}, {}, {}]; vals = [None] * 3
        bad = False
        for i in range(3):
            if present[i]:
                e1 = sym_enum(['c0', 'c1', 'c2', 'zz'] + ([' c1'] if i == 1 else []), 'a%d' % i); e2 = sym_enum(['c1', 'c2', 'zz'] + ([''] if i == 2 else []), 'b%d' % i)       # '' : an EMPTY element ('c1,,c2', a trailing comma) is not a choice either
                bad = sym_or(bad, e1 == 'zz', e2 == 'zz', e1 == '', e2 == '')
                a, b = (e1.concretize() if hasattr(e1, 'concretize') else e1), (e2.concretize() if hasattr(e2, 'concretize') else e2)
                comma = choose(2, 'comma%d' % i)
                # an element with surrounding white space: the comma spelling strips it (documented: 'a, b'), a real list does not - there ' c1' is not a choice
                vals[i] = [a.strip(), b] if comma else [a, b]
                if not comma and a != a.strip(): bad = True
                dicts[i][k] = (a + ',' + b) if comma else [a, b]
        proj, mach, cmd = dicts
        exp = ['c0']
        for i in (0, 1, 2):
            if dicts[i]: exp = vals[i]
        try:
            store.initialize_from_top_level_project_call(proj, cmd, mach)
        except ME:
            check(bad, 'MesonException only for an element outside the choices'); cover('rejected'); return
        check(sym_not(mkbool(bt_any(bad))) if not isinstance(bad, bool) else not bad, 'an element outside the choices is always rejected')
        got = store.get_value_for(k)
        check(list(got) == list(exp), 'array value: command line > machine file > project default_options > default')
        check(all(x in ('c0', 'c1', 'c2') for x in got), 'every stored element is a choice')
        cover('accepted')
    return h


def ob_machine(is_cross):
    """per-machine options: build.opt is a separate option in a cross build and is ignored (mapped to the host option) natively"""
    def h():
        from mesonbuild.mesonlib import MachineChoice
        store = O.OptionStore(is_cross)
        store.init_builtins()
        kh = O.OptionKey('pkg_config_path'); kb = O.OptionKey('pkg_config_path', machine=MachineChoice.BUILD)
        hv = sym_str(1, 'host_value', alphabet='ab'); bv = sym_str(1, 'build_value', alphabet='cd')
        src = choose(3, 'source')
        dicts = [{}, {}, {}]
        give_h = decide(sym_bool('host_given')); give_b = decide(sym_bool('build_given'))
        if give_h: dicts[src][kh] = [hv]
        if give_b: dicts[src][kb] = [bv]
        proj, mach, cmd = dicts
        store.initialize_from_top_level_project_call(proj, cmd, mach)
        goth = store.get_value_for(kh); gotb = store.get_value_for(kb)
        check(eq(list(goth), [hv] if give_h else []), 'host option takes the host value')
        if is_cross:
            check(eq(list(gotb), [bv] if give_b else []), 'cross build: the build-machine option is separate')
        else:
            check(eq(list(gotb), list(goth)), 'native build: build-machine values are ignored, the build machine is the host')
        # ... and the same for a SUBPROJECT: sub:opt / sub:build.opt given on the command line (steps 7-8 of the order) are separate options in a cross build
        store.initialize_from_subproject_call('sub', {}, {}, {}, {})
        sh = sym_str(1, 'sub_host_value', alphabet='ef'); sb = sym_str(1, 'sub_build_value', alphabet='gh')
        give_sh = decide(sym_bool('sub_host_given')); give_sb = decide(sym_bool('sub_build_given'))
        cmd2 = {}
        if give_sh: cmd2[kh.evolve(subproject='sub')] = [sh]
        if give_sb: cmd2[kb.evolve(subproject='sub')] = [sb]
        if cmd2: store.set_from_configure_command(cmd2)
        gsh = store.get_value_for(kh.evolve(subproject='sub')); gsb = store.get_value_for(kb.evolve(subproject='sub'))
        exp_sh = [sh] if give_sh else list(goth)
        check(eq(list(gsh), exp_sh), 'subproject host option: its own command-line value, else the parent\'s')
        if is_cross:
            check(eq(list(gsb), [sb] if give_sb else list(gotb)), 'cross build: sub:build.opt is its own option (own value, else the parent\'s build value)')
        else:
            check(eq(list(gsb), exp_sh), 'native build: sub:build.opt is sub:opt')
        # ... and a second subproject whose OWN project(default_options) sets the host and / or the build-machine option (step 2 of the order): an un-prefixed
        # value from the machine file or the command line (steps 3-4) beats it, the parent's default_options (step 1) do not - per machine
        if is_cross:
            oh = sym_str(1, 'own_host_default', alphabet='ij'); ob_ = sym_str(1, 'own_build_default', alphabet='kl')
            own_h = decide(sym_bool('own_host_default_given')); own_b = decide(sym_bool('own_build_default_given'))
            own = {}
            if own_h: own[kh] = [oh]
            if own_b: own[kb] = [ob_]
            store.initialize_from_subproject_call('sub2', {}, own, cmd, mach)
            g2h = store.get_value_for(kh.evolve(subproject='sub2')); g2b = store.get_value_for(kb.evolve(subproject='sub2'))
            glob_h = give_h and src in (1, 2); glob_b = give_b and src in (1, 2)
            exp_h = [hv] if glob_h else ([oh] if own_h else list(goth))
            exp_b = [bv] if glob_b else ([ob_] if own_b else list(gotb))
            check(eq(list(g2h), exp_h), 'subproject host option: machine file / command line value, else its own default, else the parent\'s')
            check(eq(list(g2b), exp_b), 'subproject build-machine option: machine file / command line build. value, else its own build. default, else the parent\'s')
        cover('done')
    return h


PFX = ['/proj', '/usr', '/usr/local']


def ob_prefix():
    """prefix from three sources; prefix-dependent directory defaults follow the effective prefix"""
    def h():
        store = new_store()
        k = O.OptionKey('prefix')
        present = [sym_bool('p%d' % i) for i in range(3)]
        dicts = [{}, {}, {}]
        vals = [None] * 3
        for i in range(3):
            if present[i]:
                canon = PFX[choose(3, 'pfx%d' % i)]
                vals[i] = canon                                             # the effective prefix is the canonical spelling ...
                dicts[i][k] = canon + ['', '/'][choose(2, 'slash%d' % i)]   # ... whatever the spelling given (a trailing slash is dropped)
        sysconf_given = decide(sym_bool('sysconfdir_given'))
        if sysconf_given: dicts[0][O.OptionKey('sysconfdir')] = 'myetc'
        proj, mach, cmd = dicts
        store.initialize_from_top_level_project_call(proj, cmd, mach)
        exp = O.default_prefix()
        for i in (0, 1, 2):
            if dicts[i].get(k) is not None: exp = vals[i]
        got = store.get_value_for(k)
        check(eq(got, exp), 'prefix: command line > machine file > project default_options > default')
        tbl = {'sysconfdir': {'/usr': '/etc'}, 'localstatedir': {'/usr': '/var', '/usr/local': '/var/local'},
               'sharedstatedir': {'/usr': '/var/lib', '/usr/local': '/var/local/lib'}}
        dfl = {'sysconfdir': 'etc', 'localstatedir': 'var', 'sharedstatedir': 'com'}
        for name in tbl:
            if name == 'sysconfdir' and sysconf_given:
                check(eq(store.get_value_for(O.OptionKey(name)), 'myetc'), 'an explicitly given directory option is kept')
            else:
                check(eq(store.get_value_for(O.OptionKey(name)), tbl[name].get(exp, dfl[name])), 'prefix-dependent directory defaults follow the effective prefix')
        cover('done')
    return h


BT = {'plain': ('plain', False), 'debug': ('0', True), 'debugoptimized': ('2', True), 'release': ('3', False), 'minsize': ('s', True)}


def ob_buildtype():
    """buildtype sets debug/optimization unless they are given explicitly (same or higher-priority source) - in whichever order the entries of one source are
    written; the command line goes through the real cmdline.parse_cmd_line_options"""
    def h():
        import argparse
        from mesonbuild import cmdline
        store = new_store()
        bt = list(BT)[choose(len(BT), 'buildtype')]
        src = choose(3, 'bt_src')
        dicts = [{}, {}, {}]
        dbg_given = decide(sym_bool('debug_given')); opt_given = decide(sym_bool('opt_given'))
        dv = bool(choose(2, 'debug_value')); ov = ['0', '1', 'g', '2', '3', 's'][choose(6, 'opt_value')]
        explicit_first = (dbg_given or opt_given) and choose(2, 'explicit entries written before buildtype') == 1
        if not explicit_first: dicts[src][O.OptionKey('buildtype')] = bt
        if dbg_given: dicts[src][O.OptionKey('debug')] = dv
        if opt_given: dicts[src][O.OptionKey('optimization')] = ov
        if explicit_first: dicts[src][O.OptionKey('buildtype')] = bt
        proj, mach, cmd = dicts
        a = argparse.Namespace(builtin_keys=set(), d_keys=set(cmd), cmd_line_options=cmd)
        cmdline.parse_cmd_line_options(a); cmd = a.cmd_line_options
        store.initialize_from_top_level_project_call(proj, cmd, mach)
        btv = bt
        check(eq(store.get_value_for(O.OptionKey('buildtype')), btv), 'buildtype stored')
        check(eq(store.get_value_for(O.OptionKey('debug')), dv if dbg_given else BT[btv][1]), 'debug follows buildtype unless given explicitly')
        check(eq(store.get_value_for(O.OptionKey('optimization')), ov if opt_given else BT[btv][0]), 'optimization follows buildtype unless given explicitly')
        cover('done')
    return h


def ob_buildtype_sub():
    """the same for a subproject: buildtype and explicit debug / optimization given for the subproject in one of its sources (its own project(default_options),
    the subproject() call, the command line as sub:opt), in either order"""
    def h():
        store = new_store()
        K = O.OptionKey
        store.initialize_from_top_level_project_call({}, {}, {})          # the parent keeps buildtype=debug, debug=true, optimization=0
        bt = list(BT)[choose(len(BT), 'buildtype')]
        src = choose(3, 'bt_src')           # 0: the subproject's project(default_options)   1: subproject(default_options:)   2: command line sub:opt
        sub = lambda n: K(n, subproject='subp') if src == 2 else K(n)
        d = {}
        dbg_given = decide(sym_bool('debug_given')); opt_given = decide(sym_bool('opt_given'))
        dv = bool(choose(2, 'debug_value')); ov = ['0', '1', 'g', '2', '3', 's'][choose(6, 'opt_value')]
        explicit_first = (dbg_given or opt_given) and choose(2, 'explicit entries written before buildtype') == 1
        if not explicit_first: d[sub('buildtype')] = bt
        if dbg_given: d[sub('debug')] = dv
        if opt_given: d[sub('optimization')] = ov
        if explicit_first: d[sub('buildtype')] = bt
        sub_defaults, spcall, cmd = [d if src == i else {} for i in range(3)]
        store.initialize_from_subproject_call('subp', spcall, sub_defaults, cmd, {})
        check(eq(store.get_value_for('buildtype', 'subp'), bt), 'subproject buildtype stored')
        check(eq(store.get_value_for('debug', 'subp'), dv if dbg_given else BT[bt][1]), 'subproject: debug follows its buildtype unless given explicitly')
        check(eq(store.get_value_for('optimization', 'subp'), ov if opt_given else BT[bt][0]), 'subproject: optimization follows its buildtype unless given explicitly')
        check(eq(store.get_value_for('debug'), True) and eq(store.get_value_for('optimization'), '0') and eq(store.get_value_for('buildtype'), 'debug'), 'the parent keeps its own values')
        cover('done')
    return h


VALS = ['v1', 'v2', 'v3', 'v4', 'v5', 'v6', 'v7', 'v8']


def ob_sub8(kind):
    """the documented eight-step order for a subproject; kind: system option | project option (yielding or not)"""
    def h():
        name = 'someopt'; subp = 'subp'
        store = new_store()
        K = O.OptionKey
        k = K(name); ks = K(name, subproject=subp)
        if kind == 'system':
            store.add_system_option(name, O.UserComboOption(name, 'x', 'dflt', choices=['dflt'] + VALS))
        P = [decide(sym_bool('p%d' % i)) for i in range(8)]
        top_defaults = {}; sub_defaults = {}; machine = {}; cmd = {}; spcall = {}
        if P[0]: top_defaults[k] = VALS[0]          # 1 parent default_options opt
        if P[1]: sub_defaults[k] = VALS[1]          # 2 subproject's own default_options opt
        if P[2]: machine[k] = VALS[2]               # 3 machine file opt
        if P[3]: cmd[k] = VALS[3]                   # 4 command line opt
        if P[4]: top_defaults[ks] = VALS[4]         # 5 parent default_options subp:opt
        if P[5]: spcall[k] = VALS[5]                # 6 subproject(default_options:) opt
        if P[6]: machine[ks] = VALS[6]              # 7 machine file subp:opt
        if P[7]: cmd[ks] = VALS[7]                  # 8 command line subp:opt
        if kind == 'system':
            store.initialize_from_top_level_project_call(top_defaults, cmd, machine)
            store.initialize_from_subproject_call(subp, spcall, sub_defaults, cmd, machine)
            exp = 'dflt'
            for i in range(8):
                if P[i]: exp = VALS[i]
            check(eq(store.get_value_for(name, subp), exp), 'subproject value follows the documented eight-step order')
            expt = 'dflt'
            for i in (0, 2, 3):
                if P[i]: expt = VALS[i]
            check(eq(store.get_value_for(name), expt), 'top-level value: command line > machine file > default_options')
        else:
            # a project option of the subproject (and, for yielding, a same-named option in the parent)
            yielding = kind == 'yielding'
            store.add_project_option(K(name, subproject=''), O.UserComboOption(name, 'x', 'pdflt', choices=['pdflt', 'dflt'] + VALS))
            store.initialize_from_top_level_project_call(top_defaults, cmd, machine)
            o = O.UserComboOption(name, 'x', 'dflt', choices=['pdflt', 'dflt'] + VALS, yielding=yielding)
            store.add_project_option(ks, o)
            store.initialize_from_subproject_call(subp, spcall, sub_defaults, cmd, machine)
            parent = 'pdflt'
            for i in (0, 2, 3):
                if P[i]: parent = VALS[i]
            check(eq(store.get_value_for(name, ''), parent), 'parent project option: command line > machine file > default_options')
            # for a project option the un-prefixed machine-file / command-line entries name the PARENT's option, not the subproject's
            exp = None
            for i in (1, 4, 5, 6, 7):
                if P[i]: exp = VALS[i]
            if exp is None:
                exp = parent if yielding else 'dflt'
            check(eq(store.get_value_for(name, subp), exp), 'subproject project option: explicit subproject sources in order, else yields to the parent / own default')
        cover('done')
    return h


def ob_yield_kinds():
    """a yielding project option of every kind takes the parent's value WHATEVER that value is (false, 0, '', [], 'disabled'), also after the parent is
    set from the command line; a parent of another type is not yielded to"""
    def h():
        K = O.OptionKey
        store = new_store()
        kind = choose(6, 'kind')
        same_type = choose(2, 'sametype') == 0
        if kind == 0:
            pv = decide(sym_bool('parent')); cv = decide(sym_bool('child'))
            mk = lambda v, **kw: O.UserBooleanOption('o', 'x', v, **kw)
            nv = decide(sym_bool('new')); raw = 'true' if nv else 'false'
        elif kind == 1:
            pv = sym_int('parent', -2, 2); cv = sym_int('child', -2, 2)
            mk = lambda v, **kw: O.UserIntegerOption('o', 'x', v, min_value=-2, max_value=2, **kw)
            nv = sym_int('new', -2, 2); raw = nv
        elif kind == 2:
            pv = sym_str(choose(2, 'lp'), 'parent', alphabet='a '); cv = sym_str(choose(2, 'lc'), 'child', alphabet='a ')
            mk = lambda v, **kw: O.UserStringOption('o', 'x', v, **kw)
            nv = sym_str(choose(2, 'ln'), 'new', alphabet='a '); raw = nv
        elif kind == 3:
            F = ['enabled', 'disabled', 'auto']
            pv = F[choose(3, 'parent')]; cv = F[choose(3, 'child')]
            mk = lambda v, **kw: O.UserFeatureOption('o', 'x', v, **kw)
            nv = F[choose(3, 'new')]; raw = nv
        elif kind == 4:
            C = ['c0', 'c1', 'c2']
            pv = C[choose(3, 'parent')]; cv = C[choose(3, 'child')]
            mk = lambda v, **kw: O.UserComboOption('o', 'x', v, choices=list(C), **kw)
            nv = C[choose(3, 'new')]; raw = nv
        else:
            A = [[], ['a'], ['a', 'b']]
            pv = A[choose(3, 'parent')]; cv = A[choose(3, 'child')]
            mk = lambda v, **kw: O.UserStringArrayOption('o', 'x', list(v), **kw)
            nv = A[choose(3, 'new')]; raw = list(nv)
        if same_type:
            store.add_project_option(K('o', subproject=''), mk(pv))
        else:
            # another type - also a SUBCLASS of the child's type: a feature option is a combo option in the code, not in the build-options manual
            other = O.UserStringOption('o', 'x', 'other') if kind != 2 else O.UserBooleanOption('o', 'x', True)
            if kind == 4 and choose(2, 'parent is a feature option') == 1: other = O.UserFeatureOption('o', 'x', 'auto')
            store.add_project_option(K('o', subproject=''), other)
        store.initialize_from_top_level_project_call({}, {}, {})
        store.add_project_option(K('o', subproject='sub'), mk(cv, yielding=True))
        store.initialize_from_subproject_call('sub', {}, {}, {}, {})
        got = store.get_value_for('o', 'sub')
        if same_type:
            check(eq(got, pv), 'a yielding option takes the parent\'s value')
            store.set_from_configure_command({K('o', subproject=''): raw})
            check(eq(store.get_value_for('o', ''), nv), 'parent set from the command line')
            check(eq(store.get_value_for('o', 'sub'), nv), 'the yielding option follows the parent\'s new value')
            cover('yields')
        else:
            check(eq(got, cv), 'a parent option of a different type is not yielded to')
            cover('different-type')
    return h


def ob_deprecated():
    """Build-options.md "deprecated:": a replaced value is stored as its replacement (and must then be valid), a deprecated-but-listed value is kept, a
    renamed option forwards the value to the new option; anything else outside the choices is still rejected"""
    def h():
        K = O.OptionKey
        store = new_store()
        form = choose(4, 'form')
        if form == 0:      # dict on a feature option
            opt = O.UserFeatureOption('o', 'x', 'auto', deprecated={'true': 'enabled', 'false': 'disabled'})
            v = sym_enum(['true', 'false', 'enabled', 'disabled', 'auto', 'bogus'], 'value')
            exp = {'true': 'enabled', 'false': 'disabled', 'enabled': 'enabled', 'disabled': 'disabled', 'auto': 'auto', 'bogus': None}
        elif form == 1:    # dict on an array option: each element is replaced
            opt = O.UserStringArrayOption('o', 'x', ['b'], choices=['a', 'b', 'c'], deprecated={'a': 'c'})
            v = sym_enum(['a', 'b', 'a,b', 'b,a', 'c', 'z', 'a,z'], 'value')
            exp = {'a': ['c'], 'b': ['b'], 'a,b': ['c', 'b'], 'b,a': ['b', 'c'], 'c': ['c'], 'z': None, 'a,z': None}
        elif form == 2:    # list: the value is deprecated but still the value
            opt = O.UserComboOption('o', 'x', 'b', choices=['a', 'b'], deprecated=['a'])
            v = sym_enum(['a', 'b', 'z'], 'value')
            exp = {'a': 'a', 'b': 'b', 'z': None}
        else:              # str: the option was renamed
            opt = O.UserComboOption('o', 'x', 'b', choices=['a', 'b'], deprecated='n')
            store.add_project_option(K('n', subproject=''), O.UserComboOption('n', 'x', 'b', choices=['a', 'b']))
            v = sym_enum(['a', 'b', 'z'], 'value')
            exp = {'a': 'a', 'b': 'b', 'z': None}
        store.add_project_option(K('o', subproject=''), opt)
        cv = v.concretize() if hasattr(v, 'concretize') else v
        # the value as a machine file or a default_options dictionary may deliver it: a string, or a LIST of strings. A single-valued option takes one value:
        # a list of two is invalid whatever its first element is, and an empty list is no value at all
        shape = choose(4, 'value given as')
        if shape and form != 1:
            if shape == 1: given = [cv]
            elif shape == 2:
                w = sym_enum(['enabled', 'a', 'b', 'bogus'], 'second'); given = [cv, w.concretize() if hasattr(w, 'concretize') else w]
            else: given = []
            try:
                store.set_option(K('o', subproject=''), given)
            except ME:
                cover('rejected'); return          # a list is not the option's type: rejecting it is always right (the code accepts a one-element list only where a replacement table applies)
            check(shape == 1 and exp[cv] is not None, 'a list that is not exactly one valid value is rejected for a single-valued option')
            got = store.get_value_for(K('o', subproject=''))
            check(got == exp[cv], 'the stored value is the (replaced) value')
            cover('accepted'); return
        if shape and form == 1:
            if shape == 3: return
            given = cv.split(',')
            if shape == 2 and len(given) < 2: return
            cv_list = given
        try:
            store.set_option(K('o', subproject=''), cv if not (shape and form == 1) else cv_list)
        except ME:
            check(exp[cv] is None, 'MesonException only for a value that is invalid after the documented replacement'); cover('rejected'); return
        check(exp[cv] is not None, 'an invalid value is rejected')
        got = store.get_value_for(K('o', subproject=''))
        check(got == exp[cv], 'the stored value is the (replaced) value')
        if form == 3: check(store.get_value_for(K('n', subproject='')) == exp[cv], 'a renamed option forwards the value to the new option')
        cover('accepted')
    return h


DECLS = [   # (declaration, expected declared default - what the option has when no other source sets it; None = the declaration is rejected)
    ("option('o', type : 'array', choices : ['x', 'y', 'z'], value : [])", []),
    ("option('o', type : 'array', choices : ['x', 'y', 'z'])", ['x', 'y', 'z']),
    ("option('o', type : 'array', choices : ['x', 'y', 'z'], value : ['y'])", ['y']),
    ("option('o', type : 'array', value : [])", []),
    ("option('o', type : 'array', choices : ['x'], value : ['q'])", None),
    ("option('o', type : 'string', value : '')", ''),
    ("option('o', type : 'string')", ''),
    ("option('o', type : 'integer', value : 0, min : -1, max : 1)", 0),
    ("option('o', type : 'integer', value : 0, min : 1)", None),
    ("option('o', type : 'boolean', value : false)", False),
    ("option('o', type : 'boolean')", True),
    ("option('o', type : 'combo', choices : ['b', 'a'])", 'b'),
    ("option('o', type : 'combo', choices : ['b', 'a'], value : 'a')", 'a'),
    ("option('o', type : 'feature')", 'auto'),
    ("option('o', type : 'feature', value : 'disabled')", 'disabled'),
]


def ob_declared_default():
    """the lowest rung of the precedence ladder - "then the declared default" - through the real option-file interpreter (optinterpreter.OptionInterpreter on a
    real file): an option declared with an explicit value has that value, FALSY ones included ([] , '', 0, false); without one it has the documented default of
    its type; a default violating the declaration's own choices / range is rejected. A value from the command line (symbolic presence) still wins"""
    def h():
        import tempfile, os as _os
        import mesonbuild.interpreter        # first: importing optinterpreter on its own runs into a circular import at this commit
        from mesonbuild import optinterpreter
        decl, exp = DECLS[choose(len(DECLS), 'declaration')]
        d = tempfile.mkdtemp(prefix='c07opt')
        try:
            fn = _os.path.join(d, 'meson.options')
            with open(fn, 'w') as f: f.write(decl + "\n")
            store = new_store()
            oi = optinterpreter.OptionInterpreter(store, '')
            try:
                oi.process(fn)
            except ME:
                check(exp is None, 'a declaration is rejected only if its default violates its own choices / range'); cover('rejected'); return
            check(exp is not None, 'a default that violates the declared choices / range is rejected')
            if exp is None: return
            k = O.OptionKey('o', subproject='')
            for key, opt in oi.options.items(): store.add_project_option(key, opt)
            given = decide(sym_bool('command line sets it')) and isinstance(exp, list) and 'choices' in decl
            cmd = {k: ['z']} if given else {}
            store.initialize_from_top_level_project_call({}, cmd, {})
            got = store.get_value_for(k)
            check(got == (['z'] if given else exp), 'the effective value is the command line value, else exactly the declared default')
            cover('accepted')
        finally:
            import shutil; shutil.rmtree(d, ignore_errors=True)
    return h


def ob_std_option():
    """c_std / cpp_std (the real UserStdOption.validate_value): a preference list of 1-3 standards, each `c` or `gnu` + two symbolic digits, given as a list or as
    a comma string, against a compiler that supports c99 and c11 (GNU spellings supported or deprecated). A list naming something that is no standard at all is
    rejected wherever it stands; otherwise the first supported entry wins, then the first deprecated GNU spelling (as its plain standard), else rejection"""
    def h():
        ALL = ['c89', 'c99', 'c11', 'c18', 'gnu89', 'gnu99', 'gnu11', 'gnu18']
        opt = O.UserStdOption('c', list(ALL))
        dep = decide(sym_bool('gnu_deprecated'))
        opt.set_versions(['c99', 'c11'], gnu=True, gnu_deprecated=dep)
        n = 1 + choose(3, 'entries')
        ents = [['c', 'gnu'][choose(2, 'prefix%d' % i)] + sym_str(2, 'digits%d' % i, alphabet='189') for i in range(n)]
        val = list(ents) if choose(2, 'spelling') == 0 else mkjoin(ents)
        supported = ['c99', 'c11'] + ([] if dep else ['gnu99', 'gnu11'])
        mapped = {'gnu99': 'c99', 'gnu11': 'c11'} if dep else {}
        isin = lambda s, pool: any(decide(bt_any(s == p)) for p in pool)
        exp = None
        if all(isin(e, ALL) for e in ents):
            for e in ents:
                if isin(e, supported): exp = e; break
            if exp is None:
                for e in ents:
                    for k, v in mapped.items():
                        if exp is None and decide(bt_any(e == k)): exp = v
        try:
            got = opt.validate_value(val)
        except ME:
            check(exp is None, 'a preference list of known standards with a usable entry is accepted'); cover('rejected'); return
        check(exp is not None, 'a list that names an unknown standard, or nothing the compiler supports, is rejected')
        if exp is not None: check(decide(bt_any(got == exp)), 'the first supported entry wins, then the first deprecated GNU spelling as its plain standard')
        cover('accepted')
    return h


def mkjoin(parts):
    s = parts[0]
    for p in parts[1:]: s = s + ',' + p
    return s


def obligations(tier):
    out = [Obligation('top/integer', ob_top_int(), dict(sources='2^3', values='-9..9 as int or 1-digit string', range='symbolic in -5..5'), labels=('accepted', 'rejected'), max_paths=2000000)]
    for kind in ('bool', 'combo', 'feature', 'string'):
        out.append(Obligation('top/' + kind, ob_top_kind(kind), dict(sources='2^3', kind=kind), labels=('accepted',) + (() if kind == 'string' else ('rejected',)), max_paths=2000000))
    out.append(Obligation('top/array', ob_array(), dict(sources='2^3', elements='2 per source among choices + invalid', spelling='list | comma string'), labels=('accepted', 'rejected'), max_paths=2000000))
    out.append(Obligation('std-option', ob_std_option(), dict(real='UserStdOption.set_versions / validate_value', entries="1-3, each c|gnu + 2 digits over {1, 8, 9}", spelling='list | comma string', compiler='c99, c11; GNU spellings supported | deprecated'), labels=('accepted', 'rejected'), max_paths=3000000))
    for cross in (False, True):
        out.append(Obligation('per-machine/%s' % ('cross' if cross else 'native'), ob_machine(cross), dict(option='pkg_config_path / build.pkg_config_path', source='any of 3'), labels=('done',)))
    out.append(Obligation('top/prefix', ob_prefix(), dict(sources='2^3', prefixes=PFX), labels=('done',)))
    out.append(Obligation('top/buildtype', ob_buildtype(), dict(buildtype='all', source='any of 3', debug_opt='given or not, written before or after buildtype'), labels=('done',)))
    out.append(Obligation('subproject/buildtype', ob_buildtype_sub(), dict(buildtype='all', source="the subproject's project() | subproject() call | command line sub:opt", debug_opt='given or not, written before or after buildtype'), labels=('done',)))
    out.append(Obligation('declared-default', ob_declared_default(), dict(real='optinterpreter.OptionInterpreter.process on a real option file, OptionStore.add_project_option / initialize_from_top_level_project_call', declarations=len(DECLS), kinds='array (with / without choices, empty / absent / invalid default), string, integer, boolean, combo, feature'), labels=('accepted', 'rejected')))
    out.append(Obligation('deprecated', ob_deprecated(), dict(forms='dict on feature | dict on array | list on combo | renamed option', value='symbolic among valid, deprecated and invalid spellings; given as a string, a one-element list, a two-element list or an empty list'), labels=('accepted', 'rejected')))
    out.append(Obligation('yielding/kinds', ob_yield_kinds(), dict(kinds='boolean, integer -2..2, string <=1, feature, combo, array', parent='symbolic value, then set from the command line'),
                          labels=('yields', 'different-type'), max_paths=2000000))
    for kind in ('system', 'project', 'yielding'):
        out.append(Obligation('subproject/8-step/' + kind, ob_sub8(kind), dict(sources='2^8 subsets', kind=kind), labels=('done',)))
    return out
