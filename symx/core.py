"""symx core: fork-by-re-execution over the light term layer, z3 deciding every branch.

Two context kinds share one API (`branch`, `choose`, `assume`, `check`, `cover`, `observe`,
`sym_*` in values.py):

* `SymCtx`  — symbolic path under a decision prefix; z3 decides feasibility of each new branch.
* `ConCtx`  — concrete run on a recorded input vector (model validation and violation replay);
              needs no z3 and runs on the un-instrumented modules.
"""
import time
from . import terms as T


class Unsupported(BaseException):
    """the engine cannot model an operation: the path (and the obligation) is inconclusive"""


class PathAbort(BaseException):
    """assume() failed / infeasible / outside the stated bound"""


class ReplayDivergence(BaseException):
    """a prefix did not replay the same decisions: state leaked between paths"""


class CheckFailed(BaseException):
    """concrete mode: a check() evaluated to False"""
    def __init__(self, label):
        BaseException.__init__(self, label)
        self.label = label


CTX = None
import os as _os
PARANOID = bool(_os.environ.get('SYMX_PARANOID'))


def ctx():
    return CTX


# ------------------------------------------------------------------ persistent incremental solver
class _Solver:
    """one z3 solver per process; its assertion stack mirrors a prefix of the path's constraint
    list, so sibling paths (DFS order) share the common prefix without re-asserting it"""
    def __init__(self):
        z3 = T._z3()
        self.z3 = z3
        self.s = z3.Solver()
        self.stack = []      # list of term objects (identity)
        self.nchecks = 0
        self.nsat = self.nunsat = self.nunknown = 0
        self.time = 0.0
        self.samples = []        # (z3 verdict, SMT-LIB2 text) of a few queries, re-checked with cvc5 by the driver
        self.sample_every = 0

    def reset(self):
        self.s = self.z3.Solver()
        self.stack = []

    def sync(self, cons):
        st = self.stack
        n = min(len(st), len(cons))
        i = 0
        while i < n and st[i] is cons[i]:
            i += 1
        if i < len(st):
            self.s.pop(len(st) - i)
            del st[i:]
        for t in cons[i:]:
            self.s.push()
            self.s.add(T.to_z3(t))
            st.append(t)

    def check(self, cons, extra, ivars, bvars):
        """-> (True, model-dict) | (False, None); raises Unsupported on unknown"""
        self.sync(cons)
        z3 = self.z3
        t0 = time.time()
        self.nchecks += 1
        if extra is not None:
            self.s.push()
            self.s.add(T.to_z3(extra))
        r = self.s.check()
        if self.sample_every and self.nchecks % self.sample_every == 0 and len(self.samples) < 4 and r != z3.unknown:
            try:
                self.samples.append(('sat' if r == z3.sat else 'unsat', self.s.to_smt2()))
            except Exception:
                pass
        m = None
        if r == z3.sat:
            self.nsat += 1
            zm = self.s.model()
            m = {}
            for idx in ivars:
                v = zm.eval(z3.Int('i%d' % idx), model_completion=True)
                m[idx] = v.as_long()
            for idx in bvars:
                v = zm.eval(z3.Bool('b%d' % idx), model_completion=True)
                m[idx] = z3.is_true(v)
        elif r == z3.unsat:
            self.nunsat += 1
        else:
            self.nunknown += 1
        if extra is not None:
            self.s.pop()
        self.time += time.time() - t0
        if r == z3.unknown:
            raise Unsupported('solver returned unknown')
        return (r == z3.sat), m


_SOLVER = None


def solver():
    global _SOLVER
    if _SOLVER is None:
        _SOLVER = _Solver()
    return _SOLVER


# ------------------------------------------------------------------ symbolic context
class SymCtx:
    concrete = False

    def __init__(self, prefix, model):
        self.prefix = prefix        # list of (take, cond-hash)
        self.pos = 0
        self.trail = []             # decisions so far: (take, cond-hash)
        self.cons = []              # asserted constraint terms, in order
        self.pending = []           # (prefix, model) to explore later
        self.model = dict(model) if model is not None else None
        self.start_model = model
        self.ivars = []
        self.bvars = []
        self.nvars = 0
        self.inputs = []            # (kind, name, payload) in creation order
        self.violations = []
        self.labels = set()
        self.observations = []
        self.taint = False
        self.deferred = []
        self.bind = {}
        self.bounds = {}
        self.dom = {}
        T.BIND = self.bind
        T.BOUNDS = self.bounds
        T.DOM = self.dom

    # -- variables
    def new_ivar(self, name, default=0):
        self.nvars += 1
        idx = self.nvars
        self.ivars.append(idx)
        if self.model is not None and idx not in self.model:
            self.model[idx] = default
        return T.ivar(idx, name)

    def new_bvar(self, name, default=False):
        self.nvars += 1
        idx = self.nvars
        self.bvars.append(idx)
        if self.model is not None and idx not in self.model:
            self.model[idx] = default
        return T.bvar(idx, name)

    # -- constraints
    def add(self, t):
        """assert a constraint that is known to be consistent with the cached model or for which
        the caller invalidates the model"""
        if t is True:
            return
        if self.deferred:
            self.flush_checks()
        self.cons.append(t)
        T.note_constraint(t)

    def flush_checks(self):
        """decide the check() assertions collected since the last constraint was added (same path
        condition for all of them): one query for their conjunction, individual queries only if it fails"""
        d, self.deferred = self.deferred, []
        if not d:
            return
        if len(d) > 1:
            bad, m = self.sat(T.bor([T.bnot(t) for _, t in d]))
            if not bad:
                return
        for label, t in d:
            bad, m = self.sat(T.bnot(t))
            if bad:
                self.violations.append((label, m))

    def sat(self, extra=None):
        return solver().check(self.cons, extra, self.ivars, self.bvars)

    def need_model(self):
        if self.model is None:
            ok, m = self.sat()
            if not ok:
                raise PathAbort('infeasible')
            self.model = m
        return self.model


def peek_aux():
    """while replaying a prefix: the auxiliary value recorded with the next decision (else None)"""
    c = CTX
    if c.pos < len(c.prefix):
        return c.prefix[c.pos][2]
    return None


def peek_decision():
    """while replaying a prefix: (condition hash, auxiliary value) of the next recorded decision (else None)"""
    c = CTX
    if c.pos < len(c.prefix):
        return c.prefix[c.pos][1], c.prefix[c.pos][2]
    return None


def branch(cond, aux=None):
    """decide a Boolean term under the current path condition; forks when both sides are feasible"""
    if cond is True or cond is False:
        return cond
    c = CTX
    if c.concrete:
        raise TypeError('symbolic condition in concrete mode')
    cond2 = T.simplify_under(cond)
    if cond2 is True or cond2 is False:
        return cond2
    h = cond.h
    if c.pos < len(c.prefix):
        take, eh, _ = c.prefix[c.pos]
        if eh != h:
            raise ReplayDivergence('decision %d: condition differs from the recorded one (%s)' % (c.pos, T.show(cond)))
        c.pos += 1
    else:
        m = c.need_model()
        cur = T.ev(cond, m)
        if PARANOID:
            okc, _ = c.sat(cond if cur else T.bnot(cond))
            if not okc:
                bad = [T.show(t) for t in c.cons if not T.ev(t, m)]
                raise ReplayDivergence('stale model: taken side infeasible for %s; violated: %s' % (T.show(cond), bad[:3]))
        other = T.bnot(cond) if cur else cond
        ok, m2 = c.sat(other)
        take = cur
        if ok:
            c.pending.append((c.trail + [(not cur, h, aux)], m2))
        c.pos += 1
    c.trail.append((take, h, aux))
    c.add(cond if take else T.bnot(cond))
    return take


def _resubst(t):
    """cheap re-simplification of a comparison under the path's bindings"""
    if t.__class__ is T.Cmp and T.BIND:
        return T._cmp(t.op, t.d)
    return t


def choose(n, name='choice'):
    """fork over 0..n-1 (harness-level nondeterminism: grammar productions, which test finishes next)"""
    c = CTX
    if c.concrete:
        return c.next_input('choice', name, n)
    r = n - 1
    vs = []
    for i in range(n - 1):
        v = c.new_bvar(name)
        vs.append(v)
        if branch(v):
            r = i
            break
    c.inputs.append(('choice', name, (n, vs)))
    return r


def assume(cond):
    c = CTX
    t = cond.t if hasattr(cond, 't') else bool(cond)
    if c.concrete:
        if not t:
            raise PathAbort('assume')
        return
    if t is True:
        return
    if t is False:
        raise PathAbort('assume')
    if c.pos < len(c.prefix):
        c.add(t)
        return
    m = c.model
    if m is not None and T.ev(t, m):
        c.add(t)
        return
    c.add(t)
    c.model = None
    ok, m = c.sat()
    if not ok:
        raise PathAbort('assume')
    c.model = m


def constrain(t, model_ok=False):
    """engine-internal: assert an auxiliary constraint (digits of a rendered int, quotient/remainder)"""
    c = CTX
    c.add(t)
    if not model_ok and c.pos >= len(c.prefix):
        c.model = None


def check(cond, label=''):
    """the property's assertion: ask the solver for pc and not cond"""
    c = CTX
    t = cond.t if hasattr(cond, 't') else bool(cond)
    c.nasserts = getattr(c, 'nasserts', 0) + 1
    if c.concrete:
        c.checks.append((label, bool(t)))
        if not t:
            raise CheckFailed(label)
        return
    if c.taint:
        raise Unsupported('tainted value reached check(%s)' % label)
    if t is True:
        return
    if c.pos < len(c.prefix):
        # replaying: this check was already decided on the path that forked here
        return
    if t is False:
        c.flush_checks()
        bad, m = c.sat(None)
        if bad:
            c.violations.append((label, m))
        return
    c.deferred.append((label, t))


def cover(label):
    CTX.labels.add(label)


def observe(name, value):
    """record a value for model validation: the symbolic value evaluated under the path's model
    must equal what the concrete re-run observes"""
    CTX.observations.append((name, value))


# ------------------------------------------------------------------ concrete context
class ConCtx:
    concrete = True

    def __init__(self, inputs):
        self.inputs = list(inputs)   # [kind, name, value]
        self.ipos = 0
        self.labels = set()
        self.observations = []
        self.checks = []
        self.taint = False
        self.violations = []

    def next_input(self, kind, name, *info):
        if self.ipos >= len(self.inputs):
            raise ReplayDivergence('concrete run asks for more inputs than recorded (%s %s)' % (kind, name))
        k, n, v = self.inputs[self.ipos]
        if k != kind or n != name:
            raise ReplayDivergence('concrete run asks for %s %s, recorded %s %s' % (kind, name, k, n))
        self.ipos += 1
        return v


def concretize_inputs(inputs, m):
    """evaluate the recorded input descriptors under model m -> JSON-able list"""
    out = []
    for kind, name, payload in inputs:
        if kind == 'int':
            out.append([kind, name, T.ev(payload, m)])
        elif kind == 'bool':
            out.append([kind, name, bool(T.ev(payload, m))])
        elif kind == 'str':
            out.append([kind, name, ''.join(chr(T.ev(ch, m)) for ch in payload)])
        elif kind == 'choice':
            n, vs = payload
            r = n - 1
            for i, v in enumerate(vs):
                if T.ev(v, m):
                    r = i
                    break
            out.append([kind, name, r])
        elif kind == 'enum':
            out.append([kind, name, payload[0][T.ev(payload[1], m)]])
        else:
            raise Unsupported('input kind %s' % kind)
    return out


# ------------------------------------------------------------------ path runner
def run_path(harness, prefix, model, outcome_of=None):
    """run one symbolic path; returns a dict describing it"""
    global CTX
    try:
        from . import instr as _instr
        _instr.SYMKEY_DICTS.clear()
    except Exception:
        pass
    c = CTX = SymCtx(prefix, model)
    res = dict(status='ok', exc=None)
    try:
        harness()
    except PathAbort:
        res['status'] = 'aborted'
    except Unsupported as e:
        import traceback
        res['status'] = 'unsupported'
        res['exc'] = repr(e)
        res['tb'] = traceback.format_exc()[-1500:]
    except ReplayDivergence as e:
        res['status'] = 'divergence'
        res['exc'] = repr(e)
    except RecursionError as e:
        res['status'] = 'unsupported'
        res['exc'] = 'RecursionError'
    except (KeyboardInterrupt, GeneratorExit):
        raise
    except BaseException as e:   # an exception the harness did not declare (including BaseException subclasses of the code under test): candidate violation
        import traceback
        res['status'] = 'exception'
        res['exc'] = '%s: %s' % (type(e).__name__, str(e)[:200])
        res['exc_type'] = type(e).__name__
        res['tb'] = traceback.format_exc()[-1500:]
    finally:
        if res['status'] == 'ok' and c.deferred:
            try:
                c.flush_checks()
            except Unsupported as e:
                res['status'] = 'unsupported'; res['exc'] = repr(e)
        CTX = None
        T.BIND = None
        T.BOUNDS = None
        T.DOM = None
    if c.pos < len(c.prefix) and res['status'] in ('ok',):
        res['status'] = 'divergence'
        res['exc'] = 'path ended before its prefix was consumed (%d of %d)' % (c.pos, len(c.prefix))
    res['ctx'] = c
    return res


def run_concrete(harness, inputs):
    """run the harness on a recorded input vector; returns outcome dict (JSON-able)"""
    global CTX
    c = CTX = ConCtx(inputs)
    out = dict(status='ok', exc=None, exc_type=None, failed=None)
    try:
        harness()
    except PathAbort:
        out['status'] = 'aborted'
    except CheckFailed as e:
        out['status'] = 'check-failed'
        out['failed'] = e.label
    except ReplayDivergence as e:
        out['status'] = 'divergence'
        out['exc'] = repr(e)
    except Unsupported as e:
        out['status'] = 'unsupported'
        out['exc'] = repr(e)
    except (KeyboardInterrupt, GeneratorExit):
        raise
    except BaseException as e:
        import traceback
        out['status'] = 'exception'
        out['exc'] = '%s: %s' % (type(e).__name__, str(e)[:200])
        out['exc_type'] = type(e).__name__
        out['tb'] = traceback.format_exc()[-1500:]
        tb = e.__traceback__
        while tb.tb_next is not None:
            tb = tb.tb_next
        fn = tb.tb_frame.f_code.co_filename
        if '/harness/' in fn or '/symx/' in fn:
            # raised by the harness itself, not by the code under test: a harness bug, never a violation
            out['status'] = 'harness-exception'
    finally:
        CTX = None
    out['labels'] = sorted(c.labels)
    out['observations'] = [[n, _jsonable(v)] for n, v in c.observations]
    out['unused_inputs'] = len(c.inputs) - c.ipos
    return out


def _jsonable(v):
    if isinstance(v, (str, int, bool, type(None))):
        return v
    if isinstance(v, (list, tuple)):
        return [_jsonable(x) for x in v]
    if isinstance(v, dict):
        return {str(k): _jsonable(x) for k, x in v.items()}
    return repr(v)
