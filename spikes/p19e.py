import typing as T
from mesonbuild.utils.universal import Version, Range

def mk(has_min: bool, mn: int, mneq: bool, has_max: bool, mx: int, mxeq: bool, empty: bool) -> Range:
    if empty:
        return Range(is_empty=True)
    return Range(min=mn if has_min else None, min_eq=mneq, max=mx if has_max else None, max_eq=mxeq)

def intersect_sound(a1: bool, a2: int, a3: bool, a4: bool, a5: int, a6: bool, a7: bool,
                    b1: bool, b2: int, b3: bool, b4: bool, b5: int, b6: bool, b7: bool, x: int) -> bool:
    """
    post: _
    """
    A = mk(a1, a2, a3, a4, a5, a6, a7)
    B = mk(b1, b2, b3, b4, b5, b6, b7)
    return (x in A.intersect(B)) == ((x in A) and (x in B))
