import sys, time, os, types
sys.path.insert(0, __import__('os').path.dirname(__import__('os').path.abspath(__file__))); sys.path.insert(0, '/repo')
from sx import instr, core
from sx.values import *
from sx.core import choose, check, cover
instr.install()
from mesonbuild.wrap import wrap as W
from mesonbuild.wrap.wrap import Resolver, WrapException, WrapMode
from mesonbuild import mlog
import z3
mlog.log = lambda *a, **k: None
mlog.warning = lambda *a, **k: None

class FakeWrap:
    def __init__(self, values, filesdir): self.values = values; self.filesdir = filesdir; self.name = 'pkg'
    def get(self, k):
        if k not in self.values: raise WrapException('Missing key %r' % k)
        return self.values[k]

class World:
    """symbolic file system / network: each file has an arbitrary digest"""
    def __init__(self):
        self.digest = {}     # path -> SymStr digest of the bytes currently there
        self.exists = {}     # path -> bool (decided lazily)
        self.removed = []; self.downloads = 0
    def ex(self, p):
        if p not in self.exists: self.exists[p] = bool(sym_bool('exists'))
        return self.exists[p]
    def dg(self, p):
        if p not in self.digest: self.digest[p] = sym_str(2, 'dg', alphabet='ab')
        return self.digest[p]

def harness():
    w = World()
    fos = types.SimpleNamespace()
    fos.path = types.SimpleNamespace(exists=w.ex, join=os.path.join)
    def remove(p): w.removed.append(p); w.exists[p] = False
    def rename(a, b): w.digest[b] = w.dg(a); w.exists[b] = True; w.exists[a] = False
    fos.remove = remove; fos.rename = rename; fos.makedirs = lambda *a, **k: None
    W.os = fos
    class FakePath:
        def __init__(self, p): self.p = p
        def __truediv__(self, o): return FakePath(os.path.join(self.p, o))
        def exists(self): return w.ex(self.p)
        def as_posix(self): return self.p
        def __str__(self): return self.p
    W.Path = FakePath
    r = object.__new__(Resolver)
    expected = sym_str(2, 'exp', alphabet='ab')
    values = {'source_filename': 'f.tgz', 'source_hash': expected}
    kind = choose(3, 'kind')   # 0: url only, 1: url + fallback url, 2: packagefiles (no url)
    if kind in (0, 1): values['source_url'] = 'http://x/f.tgz'
    if kind == 1: values['source_fallback_url'] = 'http://y/f.tgz'
    if kind == 2 and choose(2, 'nohash'): del values['source_hash']
    r.wrap = FakeWrap(values, '/pf'); r.cachedir = '/cache'
    r.wrap_mode = [WrapMode.default, WrapMode.nodownload][choose(2, 'wm')]
    r.hash_file = lambda path: w.dg(path)
    ntmp = [0]
    def get_data_with_backoff(url):
        w.downloads += 1
        if choose(2, 'dlfail'): raise WrapException('download failed')
        ntmp[0] += 1
        tmp = '/tmp/dl%d' % ntmp[0]
        w.exists[tmp] = True
        return w.dg(tmp), tmp
    r.get_data_with_backoff = get_data_with_backoff
    try:
        path = r._get_file_internal('source', 'pkg')
    except WrapException:
        cover('refused')
        if r.wrap_mode is WrapMode.nodownload: check(w.downloads == 0, 'nothing fetched under nodownload')
        return
    cover('returned')
    if 'source_hash' in values:
        check(w.dg(path) == expected, 'returned file has the recorded digest')
    if r.wrap_mode is WrapMode.nodownload: check(w.downloads == 0, 'nothing fetched under nodownload')
    for t in range(1, ntmp[0] + 1):
        tmp = '/tmp/dl%d' % t
        # a temp file with a wrong digest must not survive
        if w.exists.get(tmp, False): check(w.dg(tmp) == expected, 'surviving temp file has the right digest')

if __name__ == '__main__':
    st = core.explore(harness, max_paths=5000)
    print('paths', st['paths'], 'viol', len(st['violations']), 'errors', len(st['errors']), st['labels'], 'time %.1f' % st['time'])
    for e in st['errors'][:3]: print('   ', e[:2])
    seen = set()
    for v in st['violations']:
        if v[0] in seen: continue
        seen.add(v[0]); print('   V', v[0], str(v[1]).replace('\n', ' ')[:300])
