#!/bin/sh
# usage: tools/seeds_regress.sh [names...]
# Re-applies every kept seed to a SCRATCH worktree of /repo (never /repo itself), runs the property's quick check against that tree
# (SYMX_REPO), expects exit 1, and removes the worktree at the end. Evidence of these runs goes to a scratch directory.
cd /verif
NAMES="$@"; [ -z "$NAMES" ] && NAMES=$(ls seeded)
W=/tmp/seedreg; T=$W/tree.$$
mkdir -p $W; git -C /repo worktree remove --force $T 2>/dev/null; git -C /repo worktree add -q --detach $T HEAD || exit 2
for N in $NAMES; do
  ID=$(echo $N | cut -c1-3)
  if grep -q '"check_result": "superseded"' /verif/seeded/$N/meta.json; then echo "$N: superseded by a fix commit (see its meta.json)"; continue; fi
  if grep -q '"check_result": "missed"' /verif/seeded/$N/meta.json; then echo "$N: recorded as missed - outside the stated claim (see its meta.json)"; continue; fi
  if ! git -C $T apply --check /verif/seeded/$N/patch.diff 2>/dev/null; then echo "$N: patch does not apply to the current tree (re-base needed)"; continue; fi
  git -C $T apply /verif/seeded/$N/patch.diff
  SYMX_REPO=$T SYMX_EVIDENCE_DIR=$W/evidence SYMX_NPROC=${SYMX_NPROC:-8} ./check $ID --tier quick > $W/$N.log 2>&1; rc=$?
  git -C $T checkout -- .
  echo "$N: check exit $rc $( [ $rc = 1 ] && echo caught || echo NOT-CAUGHT ) $(grep -c '^VIOLATION' $W/$N.log) violation lines"
done
git -C /repo worktree remove --force $T; git -C /repo worktree prune
