#!/usr/bin/env python3
"""list every obligation of every harness per tier (no exploration): tools/list_obligations.py [ids]"""
import sys, os, importlib, re
ROOT = os.path.dirname(os.path.dirname(os.path.abspath(__file__)))
sys.path.insert(0, ROOT); sys.path.insert(0, os.environ.get('SYMX_REPO', '/repo'))
from symx import instr
ids = sys.argv[1:] or sorted(f[:-3] for f in os.listdir(os.path.join(ROOT, 'harness')) if re.fullmatch(r'c\d\d\.py', f))
for i in ids:
    mod = importlib.import_module('harness.' + i.lower())
    q = [o.name for o in mod.obligations('quick')]
    t = [o.name for o in mod.obligations('thorough')]
    print(mod.PROPERTY, 'quick', len(q), 'thorough', len(t))
    print('  quick:', ' '.join(q))
    print('  thorough only:', ' '.join(n for n in t if n not in q))
