import sys, time
sys.path.insert(0, __import__('os').path.dirname(__import__('os').path.abspath(__file__))); sys.path.insert(0, '/repo')
from sx import instr, core
from sx.values import *
from sx.core import choose, check, cover
instr.install()
from mesonbuild.options import *
from mesonbuild.mesonlib import MesonException
import z3

def harness():
    # top level: integer system option 'wrap_x' hmm -> use a builtin-like system option name; value sources symbolic
    store = OptionStore(False)
    store.add_system_option('prefix', UserStringOption('prefix', 'p', '/usr'))
    lo = sym_int('lo', -5, 5); hi = sym_int('hi', -5, 5)
    assume = core.assume
    assume(lo <= hi)
    dflt = sym_int('d', -9, 9)
    assume((dflt >= lo) & (dflt <= hi))
    k = OptionKey('someint')
    store.add_system_option('someint', UserIntegerOption('someint', 'x', dflt, min_value=lo, max_value=hi))
    srcs = []
    present = [sym_bool('p%d' % i) for i in range(3)]
    vals = [sym_int('v%d' % i, -9, 9) for i in range(3)]
    asstr = [choose(2, 'asstr') for i in range(3)]
    dicts = [{}, {}, {}]
    for i in range(3):
        if present[i]:
            dicts[i][k] = sym_str_of_int(vals[i], 1) if asstr[i] else vals[i]
    proj, mach, cmd = dicts
    # expected: highest priority present source: cmd > mach > proj > default
    exp = dflt
    for i in (0, 1, 2):
        if dicts[i]: exp = vals[i]
    # any present invalid value -> exception expected
    invalid = False
    for i in range(3):
        if dicts[i] and bool((vals[i] < lo) | (vals[i] > hi)): invalid = True
    try:
        store.initialize_from_top_level_project_call(proj, cmd, mach)
        raised = False
    except MesonException:
        raised = True
    check(raised == invalid, 'rejects exactly invalid')
    if not raised:
        got = store.get_value_for(k)
        check(got == exp, 'precedence')
        check((got >= lo) & (got <= hi), 'stored value valid')
    cover('done')

if __name__ == '__main__':
    st = core.explore(harness, max_paths=20000)
    print('paths', st['paths'], 'checks', st['checks'], 'viol', len(st['violations']), 'errors', len(st['errors']), st['labels'], 'time %.1f' % st['time'], st.get('truncated'), flush=True)
    for e in st['errors'][:3]: print('   ', e[:2])
    for v in st['violations'][:3]: print('   V', v[0], v[1])
