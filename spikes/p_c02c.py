import sys, time
sys.path.insert(0, __import__('os').path.dirname(__import__('os').path.abspath(__file__))); sys.path.insert(0, '/repo')
from p_c02 import *

def ctok(kind, i):
    return Token(kind, 'f', 0, sym_int('ln', 1), sym_int('col', 0), (sym_int('bs', 0), sym_int('be', 0)), Atom('c%s%d' % (kind, i)))

CONTEXTS = {
 'top': ([], []),
 'call': (['id', 'lparen'], ['rparen']),
 'array': (['id', 'assign', 'lbracket'], ['rbracket']),
 'dict': (['id', 'assign', 'lcurl'], ['rcurl']),
 'if': (['if'], ['eol', 'endif']),
 'ifbody': (['if', 'id', 'eol'], ['eol', 'endif']),
 'foreach': (['foreach', 'id', 'colon'], ['eol', 'endforeach']),
 'ternary': (['id', 'questionmark'], ['colon', 'id']),
 'method': (['id', 'dot'], []),
 'kwarg': (['id', 'lparen', 'id', 'colon'], ['rparen']),
 'afternot': (['not'], []),
 'afterop': (['id', 'plus'], []),
}
WORD = {'id', 'true', 'false', 'if', 'else', 'elif', 'endif', 'and', 'or', 'not', 'foreach', 'endforeach', 'in', 'continue', 'break'}
def isword(t):
    if isinstance(t.tid, str): return t.tid in WORD or t.tid == 'number'
    return t.tid._is(lambda nm: nm in WORD or nm == 'number')

def harness(ctx, n):
    pre, post = CONTEXTS[ctx]
    def h():
        toks = [ctok(k, i) for i, k in enumerate(pre)]
        win = []
        for i in range(n):
            k = SymEnum(KINDS, 'k%d' % i)
            t = Token(k, 'f', 0, sym_int('ln%d' % i, 1), sym_int('col%d' % i, 0), (sym_int('bs%d' % i, 0), sym_int('be%d' % i, 0)), Atom('t%d' % i))
            win.append(t)
        toks = toks + win + [ctok(k, 100 + i) for i, k in enumerate(post)]
        for a, b in zip(toks, toks[1:]):
            wa, wb = isword(a), isword(b)
            both = (wa and wb) if isinstance(wa, bool) and isinstance(wb, bool) else (mkbool(bt(wa) if not isinstance(wa, bool) else z3.BoolVal(wa)) & mkbool(bt(wb) if not isinstance(wb, bool) else z3.BoolVal(wb)))
            core.assume(sym_not(both) if not isinstance(both, bool) else (not both))
        p = object.__new__(Parser)
        p.lexer = FakeLexer(); p.stream = iter(toks)
        p.current = Token('eof', '', 0, 0, 0, (0, 0), None); p.previous = p.current; p.current_ws = []; p.in_ternary = False
        p.getsym()
        try:
            ast = p.parse()
        except ParseException:
            cover('reject'); return
        except core.PathAbort: raise
        except core.Unsupported: raise
        except Exception as e:
            check(False, 'internal error %s: %s' % (type(e).__name__, e)); return
        cover('accept')
        pr = RawPrinter(); ast.accept(pr); res = pr.result
        parts = Rope.of(res) if not isinstance(res, str) else ([res] if res else [])
        names = [x.name for x in parts if isinstance(x, Atom)]
        exp = []
        for t in toks:
            fixed = (t.tid in ('true', 'false', 'continue', 'break')) if isinstance(t.tid, str) else bool(t.tid._is(lambda nm: nm in ('true', 'false', 'continue', 'break')))
            if fixed: continue
            exp.append(t.value.name)
        check(names == exp, 'lossless')
    return h

if __name__ == '__main__':
    n = int(sys.argv[1]) if len(sys.argv) > 1 else 2
    for ctx in CONTEXTS:
        st = core.explore(harness(ctx, n), max_paths=60000)
        print(ctx, n, 'paths', st['paths'], 'viol', len(st['violations']), 'errors', len(st['errors']), st['labels'], 'time %.1f' % st['time'], st.get('truncated'), flush=True)
        errs = {}
        for e in st['errors']: errs[e[1]] = errs.get(e[1], 0) + 1
        if errs: print('   errors', errs)
        seen = {}
        for v in st['violations']:
            ks = tuple(KINDS[v[1].eval(z3.Int(d.name()), model_completion=True).as_long()] for d in sorted(v[1].decls(), key=lambda d: d.name()) if d.name().startswith('k'))
            key = (v[0][:60], ks)
            if key in seen: continue
            seen[key] = 1
        for key in list(seen)[:12]: print('   V', key)
