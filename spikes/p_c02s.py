import sys, time
sys.path.insert(0, __import__('os').path.dirname(__import__('os').path.abspath(__file__))); sys.path.insert(0, '/repo')
from sx import instr, core
from sx.values import *
from sx.core import choose, check, cover
instr.install()
from mesonbuild import mparser, mlog
from mesonbuild.mesonlib import MesonException
import z3
mlog.warning = lambda *a, **k: None

def nl_before(text, pos):
    # symbolic count of newlines in text[:pos] and offset of last newline + 1 (as python ints via forks on each char -- kept symbolic instead)
    cs = chars_of(text)
    cnt = 0; last = 0
    for i in range(pos):
        ch = cs[i]
        isnl = (ch == 10) if isinstance(ch, int) else decide(ch == 10)
        if isnl: cnt += 1; last = i + 1
    return cnt, last

SKEL = [
  lambda b: "x = '''" + b + "'''\ny = [1]\n",
  lambda b: "f('''" + b + "''', '''" + b + "''')\nz = g(1)\n",
  lambda b: "x = 1 \\\n + '''" + b + "''' # c\ny = h()\n",
  lambda b: "a = [\n '''" + b + "''',\n 2]\nb = k(3)\n",
]
def harness(si, n):
    def h():
        body = sym_str(n, 'b', alphabet='a\n\'')
        text = SKEL[si](body)
        try:
            toks = list(mparser.Lexer(text).lex('f'))
        except MesonException:
            cover('reject'); return
        for t in toks:
            st = t.bytespan[0]
            cnt, last = nl_before(text, st)
            check(t.lineno == cnt + 1, 'lineno of %s' % t.tid)
            check(t.colno == st - last, 'colno of %s' % t.tid)
            check(t.line_start == last, 'line_start of %s' % t.tid)
        # parser-level: FunctionNode/ArrayNode extents
        try:
            ast = mparser.Parser(text, 'f').parse()
        except MesonException:
            cover('parse-reject'); return
        from mesonbuild.ast.visitor import AstVisitor
        nodes = []
        class V(AstVisitor):
            def visit_FunctionNode(self, node): nodes.append(node); super().visit_FunctionNode(node)
            def visit_ArrayNode(self, node): nodes.append(node); super().visit_ArrayNode(node)
        ast.accept(V())
        # line offsets as the rewriter computes them
        cs = chars_of(text); offs = [0]
        for i, ch in enumerate(cs):
            isnl = (ch == 10) if isinstance(ch, int) else decide(ch == 10)
            if isnl: offs.append(i + 1)
        for nd in nodes:
            s = offs[nd.lineno - 1] + nd.colno; e = offs[nd.end_lineno - 1] + nd.end_colno
            frag = text[s:e]
            opener = '[' if isinstance(nd, mparser.ArrayNode) else None
            check(frag.endswith(']' if opener else ')'), 'extent ends at closer')
            if opener: check(frag.startswith('['), 'array extent starts at [')
        cover('accept')
    return h
if __name__ == '__main__':
    for si in range(len(SKEL)):
        for n in (1, 2):
            st = core.explore(harness(si, n), max_paths=20000)
            print(si, n, 'paths', st['paths'], 'viol', len(st['violations']), 'errors', len(st['errors']), st['labels'], 'time %.1f' % st['time'], st.get('truncated'), flush=True)
            for e in st['errors'][:2]: print('   ', e[:2])
            seen = set()
            for v in st['violations']:
                if v[0] in seen: continue
                seen.add(v[0]); print('   V', v[0], str(v[1]).replace('\n', ' ')[:200])
