import sys, time, argparse
sys.path.insert(0, __import__('os').path.dirname(__import__('os').path.abspath(__file__))); sys.path.insert(0, '/repo')
from sx import instr, core
from sx.values import *
from sx.core import choose, check, cover
instr.install()
from mesonbuild import mtest
from mesonbuild.mtest import TestHarness, TestResult, TestRunExitCode, TestRun
import z3

def mkrun(rc, exp, should_fail, pre):
    r = object.__new__(TestRunExitCode)
    r.res = pre; r.returncode = rc
    r.test = argparse.Namespace(should_fail=should_fail, name='t', expected_exitcode=exp) if False else None
    r.expected_fail = should_fail; r.expected_exitcode = exp
    r.stdo = ''; r.stde = ''; r.starttime = 0.0; r.interactive = False; r.verbose = False; r.is_parallel = True
    return r

def ref(rc, exp, should_fail, pre):
    if pre is not TestResult.RUNNING: res = pre
    else:
        e = exp if exp else 0
        if bool(rc == e): res = TestResult.OK
        elif bool(rc == 77): res = TestResult.SKIP
        elif bool(rc == 99): res = TestResult.ERROR
        else: res = TestResult.FAIL
    if should_fail and res in (TestResult.OK, TestResult.FAIL):
        res = TestResult.UNEXPECTEDPASS if res is TestResult.OK else TestResult.EXPECTEDFAIL
    return res

def harness(n):
    def h():
        hh = object.__new__(TestHarness)
        hh.loggers = []; hh.fail_count = 0; hh.maxfail_reached = False; hh.collected_failures = []
        for a in ('timeout_count','skip_count','ignored_count','success_count','expectedfail_count','unexpectedpass_count'): setattr(hh, a, 0)
        exps = []
        for i in range(n):
            rc = sym_int('rc'); exp = [0, 3][choose(2, 'exp')]; sf = bool(sym_bool('sf'))
            pre = [TestResult.RUNNING, TestResult.TIMEOUT, TestResult.INTERRUPT][choose(3, 'pre')]
            r = mkrun(rc, exp, sf, pre)
            r.complete()
            e = ref(rc, exp, sf, pre)
            check(r.res is e, 'classification')
            exps.append(e)
            hh.process_test_result(r)
        bad = sum(1 for e in exps if e in (TestResult.FAIL, TestResult.ERROR, TestResult.TIMEOUT, TestResult.UNEXPECTEDPASS, TestResult.INTERRUPT))
        nonzero = hh.total_failure_count() > 0
        check(nonzero == (bad > 0), 'exit status iff something bad: %s' % [e.name for e in exps])
        cover('done')
    return h
if __name__ == '__main__':
    for n in (1, 2):
        st = core.explore(harness(n), max_paths=40000)
        print(n, 'paths', st['paths'], 'viol', len(st['violations']), 'errors', len(st['errors']), st['labels'], 'time %.1f' % st['time'], flush=True)
        for e in st['errors'][:2]: print('   ', e[:2])
        seen = set()
        for v in st['violations']:
            if v[0] in seen: continue
            seen.add(v[0]); print('   V', v[0], str(v[1]).replace('\n', ' ')[:200])
