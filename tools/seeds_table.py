#!/usr/bin/env python3
"""print the markdown table of seeded changes from /verif/seeded/*/meta.json"""
import json, glob, os
rows = []
for f in sorted(glob.glob(os.path.join(os.path.dirname(os.path.dirname(os.path.abspath(__file__))), 'seeded', '*', 'meta.json'))):
    d = json.load(open(f))
    rows.append('| %s | %s | %s — %s |' % (d['seed'], d['needs_to_manifest'].replace('|', '\\|'), d['check_result'], d['what_was_run'].replace('|', '\\|')))
print('| seed | needs, to manifest | result |\n|---|---|---|')
print('\n'.join(rows))
