"""C12 - meson test runs each test once, isolates serial tests, reports truthfully."""
import asyncio, argparse, os, types
from symx.api import *

PROPERTY = 'C12'
LEVEL = 'model_checking'
FILES = ['mesonbuild/mtest.py', 'mesonbuild/build.py']
ENCODED = ['TestRunRust.parse (RUST_TEST_RE / RUST_DOCTEST_RE on the regex interpreter)', 'mtest.TestHarness._run_tests (the real coroutine with its asyncio.Semaphore, futures deque, complete/complete_all, done callbacks, cancel_all_tests)',
           'TestHarness.process_test_result/is_bad_result/total_failure_count', 'TestRunExitCode.complete', 'TestRun._complete/complete_skip',
           'TestResult.is_ok/is_bad', 'SingleTestRunner.__init__ (time limit from test timeout x --timeout-multiplier, is_parallel)', 'TestSubprocess.wait / complete_all / TestSubprocess._kill (virtual clock, stub process, os.killpg recorded)', 'TestHarness.doit (job-count clamp, runner creation; rebuild and run_tests stubbed)', 'mtest.test_slice', 'TestHarness.get_tests/test_suitable/test_in_suites/split_suite_string']
EXPLANATION = ('The real _run_tests coroutine is driven on a manually stepped asyncio event loop: SingleTestRunner.run is a stub awaiting a future that only the harness '
               'resolves, so WHICH running test completes next at every quiescent point is a choose() explored exhaustively, while is_parallel of every runner is a '
               'symbolic Boolean, the result class symbolic, and job count / repeat / maxfail enumerated. Classification runs TestRunExitCode.complete on a symbolic '
               '(unbounded integer) return code. Slicing parses a symbolic SLICE/NUM string with the real test_slice and checks the partition through get_tests.')
ASSUMPTIONS = ['in the scheduling obligations SingleTestRunner.run is replaced by a stub (no subprocesses); the time limit is decided separately: the real SingleTestRunner.__init__ / TestSubprocess.wait / complete_all / _kill run against a stub process on an asyncio loop whose clock only the harness moves, os.killpg is recorded and ends the stub process', 'signal handlers are installed but never triggered (no SIGINT/SIGTERM)',
               'loggers list empty (console/log rendering and testlog.json serialisation outside)', 'at most 4 (quick) / 5 (thorough) runners, 1-3 jobs']
OUT = 'real subprocesses and real time (the limit is enforced on a virtual clock; a program that ignores SIGTERM, the SIGKILL escalation timing), SIGINT handling, console/log rendering, testlog.json serialisation, priority sorting in the backend'
MANIFEST = dict(
    text='Bounded model checking of the real scheduler coroutine over ALL completion orders (interleavings are a solver-visible choice), all parallel/serial flag '
         'assignments and result classes up to the bound; the classification rule for every integer exit status; the slice partition for every n<=6; selection by (overlapping) name patterns; the process exit status for ANY number of bad results.',
    note='Trusted: symx engine, z3, CPython asyncio on a stepped loop. Stub: SingleTestRunner.run. Bounds: <=4/5 runners, jobs 1-3, repeat 1-2, maxfail 0-2, <=3 results for the tally.')

M = None


def setup():
    global M
    from mesonbuild import mtest as m
    from harness.common import quiet_mlog
    m.mlog = quiet_mlog()
    M = m


class FakeRun:
    def __init__(self, res): self.res = res


class RecLogger:
    """stands for testlog.json / the console: records every result that is reported"""
    def __init__(self): self.seen = []
    def start(self, harness): pass
    def log(self, harness, result): self.seen.append(result.res)
    async def finish(self, harness): pass


class FakeRunner:
    def __init__(self, name, parallel, resk, st):
        self.visible_name = name; self.is_parallel = parallel; self.fut = None; self.started = 0; self.finished = 0; self.st = st; self.resk = resk

    async def run(self, harness):
        self.started += 1
        st = self.st
        st['running'].append(self)
        check(len(st['running']) <= st['nproc'], 'never more tests running than jobs')
        if len(st['running']) > 1:
            for r in st['running']:
                check(r.is_parallel, 'a non-parallel test never overlaps another test')
        self.fut = asyncio.get_running_loop().create_future()
        try:
            await self.fut
        except asyncio.CancelledError:
            # the real runner (TestSubprocess.wait) swallows the cancellation, kills the child and reports INTERRUPT
            self.finished += 1; self.resk = M.TestResult.INTERRUPT
            return FakeRun(self.resk)
        finally:
            st['running'].remove(self)
        self.finished += 1
        return FakeRun(self.resk)


def mk_harness(nproc, repeat, maxfail):
    hh = object.__new__(M.TestHarness)
    hh.options = argparse.Namespace(num_processes=nproc, repeat=repeat, maxfail=maxfail)
    hh.loggers = []; hh.fail_count = 0; hh.maxfail_reached = False
    for a in ('timeout_count', 'skip_count', 'ignored_count', 'success_count', 'expectedfail_count', 'unexpectedpass_count'): setattr(hh, a, 0)
    hh.collected_failures = []
    return hh


def ob_sched(n, nproc, repeat, maxfail, kinds):
    def h():
        RES = [M.TestResult.OK, M.TestResult.FAIL, M.TestResult.SKIP, M.TestResult.TIMEOUT]
        st = {'running': [], 'nproc': nproc}
        runners = []
        for rep in range(repeat):
            for i in range(n):
                par = sym_bool('par%d' % i) if rep == 0 else runners[i].is_parallel
                runners.append(FakeRunner('t%d.%d' % (i, rep), par, RES[choose(kinds, 'res%d.%d' % (i, rep))], st))
        hh = mk_harness(nproc, repeat, maxfail)
        rec = RecLogger(); hh.loggers = [rec]
        loop = asyncio.new_event_loop(); asyncio.set_event_loop(loop)
        task = None
        try:
            task = loop.create_task(hh._run_tests(runners))
            while not task.done():
                for _ in range(40):
                    loop.call_soon(loop.stop); loop.run_forever()
                if task.done(): break
                pend = [r for r in runners if r.fut is not None and not r.fut.done()]
                check(len(pend) > 0, 'no deadlock: some test is running whenever the run is not finished')
                if not pend: return
                k = choose(len(pend), 'next')
                pend[k].fut.set_result(None)
            task.result()
            nbad = sum(1 for r in runners if r.finished and r.resk in (M.TestResult.FAIL, M.TestResult.TIMEOUT))
            cut = (maxfail and hh.fail_count >= maxfail) or (repeat > 1 and hh.fail_count > 0)
            for r in runners:
                check(r.started <= 1, 'no test is started twice')
                if not cut:
                    check(r.started == 1 and r.finished == 1, 'every selected test runs exactly once per repetition')
            done = [r for r in runners if r.finished]
            cnt = lambda k: sum(1 for r in done if r.resk is k)
            check(hh.success_count == cnt(M.TestResult.OK) and hh.fail_count == cnt(M.TestResult.FAIL) + cnt(M.TestResult.INTERRUPT) and hh.skip_count == cnt(M.TestResult.SKIP)
                  and hh.timeout_count == cnt(M.TestResult.TIMEOUT), 'totals equal the tally of the classifications')
            lg = lambda k: sum(1 for x in rec.seen if x is k)
            check(len(rec.seen) == len(done) and all(lg(k) == cnt(k) for k in RES + [M.TestResult.INTERRUPT]), 'every run that finished (interrupted ones too) is reported exactly once')
            check(hh.success_count + hh.fail_count + hh.skip_count + hh.timeout_count == len(rec.seen), 'the printed totals add up to the number of reported runs')
            if any(r.resk is M.TestResult.INTERRUPT for r in done): cover('interrupted')
            check((hh.total_failure_count() > 0) == (nbad > 0), 'exit status non-zero iff some test failed or timed out')
            cover('cut' if cut else 'complete')
        finally:
            if task is not None and not task.done():
                task.cancel()
                try:
                    loop.call_soon(loop.stop); loop.run_forever()
                except Exception: pass
            loop.close()
    return h


def ref_class(rc, expected, pre, should_fail):
    """DESIGN.md A.4: returns an index into NAMES, as nested symbolic selection"""
    def inv(k):
        return sym_ite(should_fail, {'OK': K['UNEXPECTEDPASS'], 'FAIL': K['EXPECTEDFAIL']}.get(k, K[k]), K[k])
    if pre != 'RUNNING':
        return K[pre]       # already decided (TIMEOUT / INTERRUPT / SKIP by the harness): unchanged, never inverted
    exp = expected if expected is not None else 0
    return sym_ite(rc == exp, inv('OK'), sym_ite(rc == 77, inv('SKIP'), sym_ite(rc == 99, inv('ERROR'), inv('FAIL'))))


NAMES = ['OK', 'SKIP', 'ERROR', 'FAIL', 'EXPECTEDFAIL', 'UNEXPECTEDPASS', 'TIMEOUT', 'INTERRUPT']
K = {n: i for i, n in enumerate(NAMES)}
BAD = ('FAIL', 'ERROR', 'TIMEOUT', 'UNEXPECTEDPASS', 'INTERRUPT')


def mk_run(tag):
    r = object.__new__(M.TestRunExitCode)
    pre = ['RUNNING', 'RUNNING', 'TIMEOUT', 'INTERRUPT', 'SKIP'][choose(5, tag + 'pre')]
    r.res = getattr(M.TestResult, pre)
    r.returncode = sym_int(tag + 'rc')
    ek = choose(3, tag + 'expk')
    r.expected_exitcode = None if ek == 0 else (0 if ek == 1 else sym_int(tag + 'exp'))
    r.expected_fail = sym_bool(tag + 'xfail')
    r.stdo = ''; r.stde = ''; r.starttime = 0.0
    return r, pre


def ob_classify(nres):
    def h():
        hh = mk_harness(1, 1, 0)
        exp_bad = False
        counts = {n: 0 for n in NAMES}
        for i in range(nres):
            r, pre = mk_run('r%d' % i)
            want = ref_class(r.returncode, r.expected_exitcode, pre, r.expected_fail)
            r.complete()
            got = K[r.res.name]           # forks on the classification actually taken
            check(eq(want, got), 'classification follows the documented rule')
            hh.process_test_result(r)
            # the failure summary and the is_fail flag of testlog.json (both res.is_bad()) name exactly the runs that make the exit status non-zero
            check((r in hh.collected_failures) == (r.res.name in BAD) and r.res.is_bad() == (r.res.name in BAD), 'the failure list / is_fail flag agree with the classification')
            counts[r.res.name] += 1
            exp_bad = exp_bad or r.res.name in BAD
            cover(r.res.name)
        check(hh.success_count == counts['OK'] and hh.skip_count == counts['SKIP'] and hh.timeout_count == counts['TIMEOUT']
              and hh.fail_count == counts['FAIL'] + counts['ERROR'] + counts['INTERRUPT'] and hh.expectedfail_count == counts['EXPECTEDFAIL']
              and hh.unexpectedpass_count == counts['UNEXPECTEDPASS'], 'totals equal the tally')
        check((hh.total_failure_count() > 0) == exp_bad, 'exit status non-zero iff some FAIL/ERROR/TIMEOUT/UNEXPECTEDPASS')
    return h


def ob_classify_parsed():
    """the classification of a test with a PARSED protocol (tap, rust) once its stream has been folded into a verdict (RUNNING = every subtest passed, FAIL, SKIP,
    ERROR, or TIMEOUT / INTERRUPT decided by the harness): the real TestRunTAP.complete / TestRun.complete / _complete with a symbolic exit status and should_fail.
    All passed -> OK, inverted to UNEXPECTEDPASS by should_fail; FAIL inverted to EXPECTEDFAIL; for tap a non-zero exit status makes a not-bad result ERROR;
    everything else unchanged - and the totals / exit status follow"""
    def h():
        hh = mk_harness(1, 1, 0)
        tap = choose(2, 'protocol (rust | tap)') == 1
        r = object.__new__(M.TestRunTAP if tap else M.TestRunRust)
        pre = ['RUNNING', 'FAIL', 'SKIP', 'ERROR', 'TIMEOUT', 'INTERRUPT'][choose(6, 'verdict of the stream')]
        r.res = getattr(M.TestResult, pre)
        r.returncode = sym_int('rc'); xf = sym_bool('should_fail'); r.expected_fail = xf
        r.stdo = ''; r.stde = ''; r.starttime = 0.0; r.interactive = False; r.verbose = False; r.is_parallel = True
        r.complete()
        base = pre
        if tap and decide(r.returncode != 0) and pre in ('RUNNING', 'SKIP'): base = 'ERROR'
        if base == 'RUNNING': base = 'OK'
        if decide(bt_any(xf)) and base in ('OK', 'FAIL'): base = 'UNEXPECTEDPASS' if base == 'OK' else 'EXPECTEDFAIL'
        check(r.res.name == base, 'a test with a parsed protocol is classified by the documented rule')
        hh.process_test_result(r)
        check((hh.total_failure_count() > 0) == (base in BAD), 'exit status non-zero iff the test failed, errored, timed out or unexpectedly passed')
        check(hh.unexpectedpass_count == (1 if base == 'UNEXPECTEDPASS' else 0) and hh.expectedfail_count == (1 if base == 'EXPECTEDFAIL' else 0) and hh.success_count == (1 if base == 'OK' else 0), 'totals equal the tally')
        cover(base)
    return h


RUST_RESULTS = [('ok', 'OK'), ('FAILED', 'FAIL'), ('ignored', 'SKIP'), ('ignored, ', 'SKIP'), ('bench', 'ERROR')]
RUST_NOISE = ['', 'running 2 tests', 'test result: ok. 1 passed; 0 failed; 1 ignored', 'failures:']


def ob_rust_stream():
    """the real TestRunRust.parse over a stream of 1-3 lines as libtest prints them (`test <name> ... ok | FAILED | ignored | ignored, <reason>`, the summary and
    other lines): one subtest per test line - ok passes, FAILED fails, ignored WITH OR WITHOUT a reason is skipped, anything else is an error - and the verdict
    of the stream is SKIP when nothing ran, ERROR / FAIL when some subtest did, else all passed"""
    def h():
        n = 1 + choose(3, 'lines')
        lines = []; want = []
        for i in range(n):
            k = choose(len(RUST_RESULTS) + 1, 'line %d' % i)
            if k == len(RUST_RESULTS):
                lines.append(RUST_NOISE[choose(len(RUST_NOISE), 'noise %d' % i)]); continue
            word, verdict = RUST_RESULTS[k]
            if word.endswith(', '): word = word + sym_str(1 + choose(2, 'reason length %d' % i), 'reason %d' % i, alphabet='a ,:')
            lines.append('test m::t%d ... ' % i + word); want.append(('m.t%d' % i, verdict))
        r = object.__new__(M.TestRunRust)
        r.results = []; r.res = M.TestResult.RUNNING
        logged = []
        hh = types.SimpleNamespace(log_subtest=lambda run, name, res, *a: logged.append((name, res.name)))
        async def stream():
            for l in lines: yield l
        co = r.parse(hh, stream())
        try:
            co.send(None); check(False, 'harness: the parser suspended'); return
        except StopIteration:
            pass
        got = [(t.name, t.result.name) for t in r.results]
        check(got == want, 'one subtest per test line of the stream, classified as libtest documents its result words')
        check(logged == want, 'every subtest is reported as it is classified')
        vs = [v for _, v in want]
        exp = 'SKIP' if all(v == 'SKIP' for v in vs) else ('ERROR' if 'ERROR' in vs else ('FAIL' if 'FAIL' in vs else 'RUNNING'))
        check(r.res.name == exp, 'the verdict of the stream: SKIP iff nothing ran, ERROR / FAIL iff some subtest did, otherwise all passed')
        cover(exp)
    return h


def ob_doit():
    """TestHarness.doit: the job count handed to the scheduler never exceeds the requested one (and every selected test gets one runner per repetition)"""
    def h():
        import os
        n = 1 + choose(3, 'ntests')
        jobs = sym_int('num_processes', 1, 6); repeat = sym_int('repeat', 1, 3)
        hh = object.__new__(M.TestHarness)
        tests = [FakeTest('t%d' % i, ['p:s']) for i in range(n)]
        hh.is_run = False; hh.tests = tests
        hh.get_tests = lambda: tests
        hh.options = argparse.Namespace(num_processes=jobs, repeat=repeat, no_rebuild=True, wd=os.getcwd(), benchmark=False)
        hh.get_pretty_suite = lambda t: t.name
        seen = {}

        class R:
            timeout = 30; console_mode = M.ConsoleUser.LOGGER
            def __init__(self, t, i): self.t, self.i = t, i
        hh.get_test_runner = lambda t, i: R(t, i)
        def run_tests(runners):
            seen['jobs'] = hh.options.num_processes; seen['runners'] = list(runners)
        hh.run_tests = run_tests
        # the number of bad results of a run is an arbitrary natural number (a run may have any number of tests): what the PROCESS reports is the low
        # 8 bits of the value handed to sys.exit()
        nbad = sym_int('bad_results', 0, 1023)
        hh.total_failure_count = lambda: nbad
        rc = hh.doit()
        status = rc & 255 if not isinstance(rc, bool) else int(rc)
        check(eq(status != 0, nbad > 0) if is_sym(status) or is_sym(nbad) else ((status != 0) == (nbad > 0)), 'the exit status is non-zero iff some result was bad (whatever their number)')
        check(seen['jobs'] <= jobs, 'the scheduler never gets more jobs than requested')
        check(seen['jobs'] >= 1, 'at least one job')
        rep = concretize_int(repeat) if is_sym(repeat) else repeat
        check(len(seen['runners']) == n * rep, 'one runner per selected test and repetition')
        for t in tests:
            check(sum(1 for r in seen['runners'] if r.t is t) == rep, 'each test once per repetition')
        cover('done')
    return h


class FakeTest:
    def __init__(self, name, suite): self.name = name; self.suite = suite; self.project_name = 'p'


def ob_slice(ntests):
    def h():
        s = sym_str(1, 'i', alphabet='0123456789') + '/' + sym_str(1, 'n', alphabet='0123456789')
        try:
            sub, nsl = M.test_slice(s)
        except argparse.ArgumentTypeError:
            cover('rejected'); 
            a, b = sym_int_of_str(s[0]), sym_int_of_str(s[2])
            check(sym_or(a <= 0, b <= 0, a > b), 'a well-formed SLICE/NUM with 1<=SLICE<=NUM is accepted'); return
        check(sym_and(sub >= 1, sub <= nsl), 'accepted slice is within 1..NUM')
        nsl = concretize_int(nsl)
        tests = [FakeTest('t%d' % i, ['p:s']) for i in range(ntests)]
        hh = object.__new__(M.TestHarness)
        hh.tests = tests
        hh.build_data = argparse.Namespace(project_name='p')
        seen = []
        for i in range(1, nsl + 1):
            hh.options = argparse.Namespace(exclude=[], exclude_suites=[], include_suites=[], setup=None, args=[], slice=(i, nsl))
            try:
                got = hh.get_tests()
            except M.MesonException:
                check(nsl > ntests, 'slicing is refused only when there are more slices than tests'); cover('too-many-slices'); return
            for t in got:
                check(all(t is not u for u in seen), 'slices are pairwise disjoint')
                seen.append(t)
        check(len(seen) == ntests, 'the union of the slices is the selection'); cover('partition')
    return h


PATTERNS = ['a1', 'a*', '*', 'p:', 'p:a1', ':a1', 'q:*', 'b1', '*1', 'p:a*']


def ob_select():
    """positional test names: `meson test pat1 pat2 ...` selects every test matched by SOME pattern exactly once (patterns may overlap), in the
    original order; combined with --slice the slices still partition the selection"""
    def h():
        from fnmatch import fnmatchcase
        tests = []
        for proj, name in (('p', 'a1'), ('p', 'a2'), ('q', 'a1'), ('q', 'b1')):
            t = FakeTest(name, [proj + ':s']); t.project_name = proj; tests.append(t)
        npat = 1 + choose(3, 'npatterns')
        args = [PATTERNS[choose(len(PATTERNS), 'pattern%d' % i)] for i in range(npat)]

        def matches(t, arg):
            sub, name = (arg.split(':', 1) if ':' in arg else ('*', arg))
            return fnmatchcase(t.project_name, sub or '*') and fnmatchcase(t.name, name or '*')
        expect = [t for t in tests if any(matches(t, a) for a in args)]
        hh = object.__new__(M.TestHarness)
        hh.tests = tests
        hh.build_data = argparse.Namespace(project_name='p')
        hh.options = argparse.Namespace(exclude=[], exclude_suites=[], include_suites=[], setup=None, args=list(args), slice=None)
        got = hh.get_tests(errorfile=open(os.devnull, 'w'))
        check(len(got) == len(expect) and all(a is b for a, b in zip(got, expect)), 'every test matched by some pattern is selected exactly once, in order')
        if len(expect) >= 2:
            seen = []
            for i in (1, 2):
                hh.options.slice = (i, 2)
                for t in hh.get_tests(errorfile=open(os.devnull, 'w')):
                    check(all(t is not u for u in seen), 'slices of a name selection are disjoint'); seen.append(t)
            check(len(seen) == len(expect), 'slices of a name selection cover it'); cover('sliced')
        cover('selected' if expect else 'nothing')
    return h


def ob_suites():
    """--suite / --no-suite with 0-2 selectors each (forms name, :suite, project:suite; the names are symbolic characters): a test is selected iff no exclusion
    selector matches it and - when inclusions are given - SOME inclusion selector does; every selector counts, whatever came before it"""
    def h():
        tests = []
        for name, proj, suites in (('t1', 'p', ['p:a']), ('t2', 'p', ['p:b']), ('t3', 'p', ['p:a', 'p:b']), ('t4', 'q', ['q:a']), ('t5', 'q', ['q'])):
            t = FakeTest(name, suites); t.project_name = proj; tests.append(t)

        def selector(tag):
            form = choose(3, tag + 'form')
            x = sym_str(1, tag + 'x', alphabet='abpq'); y = sym_str(1, tag + 'y', alphabet='abpq') if form == 2 else None
            return (form, x, y), [x, ':' + x, None][form] if form != 2 else x + ':' + y

        def ref_match(t, sel):
            form, x, y = sel
            for prjst in t.suite:
                prj, st = prjst.split(':', 1) if ':' in prjst else (prjst, '')
                if form == 0 and (decide(eq(x, prj)) or decide(eq(x, st))): return True
                if form == 1 and decide(eq(x, st)): return True
                if form == 2 and decide(eq(x, prj)) and decide(eq(y, st)): return True
            return False
        incl = [selector('i%d' % i) for i in range(choose(3, 'n_suite'))]
        excl = [selector('e%d' % i) for i in range(choose(3, 'n_no_suite'))]
        hh = object.__new__(M.TestHarness)
        hh.tests = tests
        hh.build_data = argparse.Namespace(project_name='p')
        hh.options = argparse.Namespace(exclude=[], exclude_suites=[s for _, s in excl], include_suites=[s for _, s in incl], setup=None, args=[], slice=None)
        got = hh.get_tests(errorfile=open(os.devnull, 'w'))
        expect = [t for t in tests if not any(ref_match(t, s) for s, _ in excl) and (not incl or any(ref_match(t, s) for s, _ in incl))]
        check(len(got) == len(expect) and all(a is b for a, b in zip(got, expect)), 'selected iff no --no-suite selector matches and (no --suite given or some --suite selector matches)')
        cover('selected' if expect else 'nothing')
    return h


# ---------------------------------------------------------------- the time limit: computed by the real SingleTestRunner.__init__, enforced by the real TestSubprocess.wait
def mk_test(timeout, is_parallel=True, should_fail=False):
    from mesonbuild.backend.backends import TestSerialisation, TestProtocol
    from mesonbuild.utils.core import EnvironmentVariables
    return TestSerialisation(name='t', project_name='p', suite=['p'], fname=['/bin/true'], is_cross_built=False, exe_wrapper=None, needs_exe_wrapper=False,
                             is_parallel=is_parallel, cmd_args=[], env=EnvironmentVariables(), expected_fail=should_fail, expected_exitcode=None, timeout=timeout, workdir=None,
                             extra_paths=[], protocol=TestProtocol.EXITCODE, priority=0, cmd_is_built=False, cmd_is_exe=False, depends=[], version='1.0', verbose=False, exe_fname='/bin/true')


def mk_options(mult, interactive, nproc):
    return argparse.Namespace(timeout_multiplier=mult, interactive=interactive, num_processes=nproc, benchmark=False, wrapper=None, gdb=False, gdb_path='gdb', no_rebuild=False,
                              verbose=False, quiet=False)


def ob_limit_computation():
    """the real SingleTestRunner.__init__ with a symbolic (unbounded integer or absent) test timeout, a symbolic (integer or absent) --timeout-multiplier, --interactive
    and the job count symbolic: a test has NO limit iff its timeout is absent or <= 0 (test(): 'if timeout is <= 0 the test has infinite duration'), the multiplier is <= 0
    (-t: '<= 0 to disable timeout') or the run is interactive; otherwise the limit is timeout x multiplier. A test declared non-parallel is never marked parallel."""
    def h():
        t = None if decide(sym_bool('test_timeout_absent')) else sym_int('test_timeout')
        m = None if decide(sym_bool('multiplier_absent')) else sym_int('timeout_multiplier', -3, 12)
        inter = decide(sym_bool('interactive')); par = decide(sym_bool('declared_parallel')); nproc = sym_int('num_processes', 1, 4)
        r = M.SingleTestRunner(mk_test(t, par), {'MALLOC_PERTURB_': '0'}, 'p:t', mk_options(m, inter, nproc))
        nolimit = inter or t is None or decide(t <= 0) or (m is not None and decide(m <= 0))
        if nolimit:
            check(r.timeout is None, 'no limit: timeout absent or <= 0, multiplier <= 0, or interactive'); cover('unlimited')
        else:
            check(r.timeout is not None, 'a positive timeout with a positive (or no) multiplier is a limit')
            if r.timeout is not None:
                check(eq(r.timeout, t if m is None else t * m), 'the limit is timeout x multiplier')
                check(decide(r.timeout > 0), 'a limit is positive')
            cover('limited')
        check((not r.is_parallel) or (par and not inter and decide(nproc > 1)), 'only a test declared parallel, with more than one job and not interactive, may overlap others')
        check(r.is_parallel or not (par and not inter and decide(nproc > 1)), '... and such a test is marked parallel')
    return h


class VLoop(asyncio.SelectorEventLoop):
    """virtual clock: time only moves when the harness moves it (no real waiting)"""
    def __init__(self):
        super().__init__(); self.vt = 0.0
    def time(self): return self.vt


def drain(loop):
    for _ in range(1000):
        loop.call_soon(loop.stop); loop.run_forever()
        if not loop._ready: return


class FakeProc:
    def __init__(self, loop): self.pid = 4242; self.returncode = None; self.waiters = []; self.loop = loop
    async def wait(self):
        if self.returncode is not None: return self.returncode
        w = self.loop.create_future(); self.waiters.append(w)
        return await w
    def finish(self, rc):
        if self.returncode is not None: return
        self.returncode = rc
        for w in self.waiters:
            if not w.done(): w.set_result(rc)
    def kill(self): self.finish(-9)


class OsProxy12:
    def __init__(self, real, killpg): self._real = real; self.killpg = killpg
    def __getattr__(self, n): return getattr(self._real, n)


T_CH = [None, -1, 0, 2, 4]
M_CH = [None, -1, 0, 1, 2, 0.5]
D_CH = [0.5, 2.5, 5.5, None]      # when the program exits by itself (virtual seconds; None: never). Half steps: never exactly at a limit
RC_CH = [0, 1, 77, 99]


def ob_limit_enforcement():
    """the real SingleTestRunner.__init__ -> TestRun -> TestSubprocess.wait / complete_all / _kill -> TestRunExitCode.complete on a virtual clock with a stub process:
    TIMEOUT exactly when there is a limit and the program is still running when it passes - and then the process group is signalled; otherwise the run is classified by its exit status"""
    def h():
        import signal
        t = T_CH[choose(len(T_CH), 'test timeout')]; m = M_CH[choose(len(M_CH), 'multiplier')]; d = D_CH[choose(len(D_CH), 'program exits at')]
        rc = RC_CH[choose(len(RC_CH), 'exit status')]; sf = choose(2, 'should_fail') == 1
        runner = M.SingleTestRunner(mk_test(t, True, sf), {'MALLOC_PERTURB_': '0'}, 'p:t', mk_options(m, False, 2))
        run = runner.runobj
        run.start(['/bin/true'])
        loop = VLoop(); asyncio.set_event_loop(loop)
        kills = []
        proc = FakeProc(loop)

        def killpg(pid, sig):
            kills.append((pid, sig, loop.vt)); proc.finish(-int(sig))
        saved = M.os
        M.os = OsProxy12(saved, killpg)
        try:
            sp = M.TestSubprocess(proc, None, None)
            if d is not None: loop.call_at(d, proc.finish, rc)
            task = loop.create_task(sp.wait(run))
            stuck = False
            for _ in range(50):
                drain(loop)
                if task.done(): break
                timers = [hh._when for hh in loop._scheduled if not hh._cancelled]
                if not timers:
                    stuck = True; break
                loop.vt = max(loop.vt, min(timers))
            limit = None if (t is None or t <= 0 or (m is not None and m <= 0)) else t * (1 if m is None else m)
            if stuck:
                check(limit is None and d is None, 'a test only runs on for ever without a limit')
                check(not kills, 'a test without limit is never signalled')
                cover('runs on')
                proc.finish(rc)
                drain(loop)
            check(task.done(), 'wait() returns once the program has exited')
            if task.done() and task.exception() is not None:
                check(False, 'wait() does not raise'); return
            run.complete()
        finally:
            M.os = saved
            loop.close(); asyncio.set_event_loop(None)
        timed_out = limit is not None and (d is None or d > limit)
        if timed_out:
            check(run.res is M.TestResult.TIMEOUT, 'TIMEOUT when the limit passes while the program is running')
            check(len(kills) >= 1 and kills[0][0] == 4242 and kills[0][1] == signal.SIGTERM and kills[0][2] == limit, '... and the process group is then signalled, at the limit')
            cover('timeout')
        else:
            check(not kills, 'a program that exits within its limit (or has none) is never signalled')
            base = {0: 'OK', 77: 'SKIP', 99: 'ERROR'}.get(rc, 'FAIL')
            if sf and base in ('OK', 'FAIL'): base = 'UNEXPECTEDPASS' if base == 'OK' else 'EXPECTEDFAIL'
            check(run.res.name == base, 'classified by the exit status (no TIMEOUT without a limit that passed)')
            check(run.returncode == rc, 'the exit status is the program\'s')
            cover('classified')
    return h


def obligations(tier):
    q = tier == 'quick'
    out = []
    cfgs = [(3, 1, 1, 0, 1), (3, 2, 1, 0, 1), (4, 2, 1, 0, 1), (4, 3, 1, 0, 1), (3, 2, 1, 1, 2), (3, 2, 1, 2, 2), (2, 2, 2, 0, 2)]
    if not q:
        cfgs += [(5, 2, 1, 0, 1), (5, 3, 1, 0, 1), (4, 2, 1, 1, 2), (4, 3, 1, 2, 2), (3, 2, 2, 0, 2), (3, 3, 2, 1, 2), (4, 4, 1, 0, 4)]
    for n, nproc, rep, mf, kinds in cfgs:
        out.append(Obligation('schedule[n=%d,j=%d,repeat=%d,maxfail=%d]' % (n, nproc, rep, mf), ob_sched(n, nproc, rep, mf, kinds),
                              dict(runners=n, jobs=nproc, repeat=rep, maxfail=mf, result_classes=kinds, is_parallel='symbolic per runner', completion_order='every order'),
                              labels=('complete',) if not (mf or rep > 1) else ('cut',), optional_labels=('interrupted',), max_paths=3000000))
    for k in (1, 2) if q else (1, 2, 3):
        out.append(Obligation('classify[%d]' % k, ob_classify(k), dict(results=k, returncode='any integer', expected_exitcode='None|0|any', should_fail='symbolic'),
                              labels=tuple(NAMES), max_paths=3000000))
    out.append(Obligation('select', ob_select(), dict(tests='p:a1 p:a2 q:a1 q:b1', patterns='1-3 of %d name patterns (overlapping ones included)' % len(PATTERNS)), labels=('selected', 'sliced'), optional_labels=('nothing',)))
    out.append(Obligation('suites', ob_suites(), dict(tests='5 (suites p:a p:b p:a+p:b q:a q)', include_selectors='0-2', exclude_selectors='0-2', forms='name | :suite | project:suite, 1 symbolic char each over abpq'), labels=('selected', 'nothing'), max_paths=3000000))
    out.append(Obligation('doit-job-clamp', ob_doit(), dict(tests='1-3', num_processes='symbolic 1..6', repeat='symbolic 1..3'), labels=('done',)))
    out.append(Obligation('limit-computation', ob_limit_computation(), dict(test_timeout='absent | any integer', timeout_multiplier='absent | integer -3..12 (a float in the enforcement obligation)',
                                                                            interactive='symbolic', num_processes='1..4', declared_parallel='symbolic'), labels=('unlimited', 'limited')))
    out.append(Obligation('limit-enforcement', ob_limit_enforcement(), dict(test_timeout=str(T_CH), multiplier=str(M_CH), program_exits_at=str(D_CH), exit_status=str(RC_CH), should_fail='both',
                                                                            clock='virtual (asyncio loop with a harness-controlled time())', process='stub with pid, wait(), kill(); os.killpg recorded'),
                          labels=('timeout', 'classified', 'runs on')))
    for n in (1, 3, 4) if q else (1, 2, 3, 4, 5, 6):
        out.append(Obligation('slice[%d tests]' % n, ob_slice(n), dict(tests=n, slice_arg='d/d with symbolic digits'), labels=('partition', 'rejected')))
    out.append(Obligation('rust-stream', ob_rust_stream(), dict(real='TestRunRust.parse (RUST_TEST_RE on the regex interpreter)', lines='1-3 of: test line with ok | FAILED | ignored | ignored, <reason 1-2 chars over a blank comma colon> | bench; or a summary / blank / other line'), labels=('SKIP', 'ERROR', 'FAIL', 'RUNNING')))
    out.append(Obligation('classify-parsed', ob_classify_parsed(), dict(real='TestRunTAP.complete / TestRunRust / TestRun.complete / _complete, TestHarness.process_test_result', verdict='RUNNING (all passed) | FAIL | SKIP | ERROR | TIMEOUT | INTERRUPT', exit_status='any integer', should_fail='symbolic'), labels=('OK', 'UNEXPECTEDPASS', 'EXPECTEDFAIL', 'ERROR')))
    from harness.c03 import ob_test_argv_setup
    out.append(Obligation('setup-options', ob_test_argv_setup(), dict(real='TestHarness.get_test_runner / merge_setup_options / SingleTestRunner.__init__ for two tests in a row under --setup', setup='timeout_multiplier 0..3, exe_wrapper or none',
                          command_line='-t absent | 0..3'), labels=('started',), max_paths=1000000))
    return out
