"""C01 - build definitions evaluate exactly as the language reference prescribes (core language on the real Interpreter)."""
import os, sys, argparse, tempfile, atexit, shutil
from symx.api import *

PROPERTY = 'C01'
LEVEL = 'other'
FILES = ['mesonbuild/mparser.py', 'mesonbuild/interpreterbase/interpreterbase.py', 'mesonbuild/interpreterbase/baseobjects.py', 'mesonbuild/interpreterbase/operator.py',
         'mesonbuild/interpreterbase/helpers.py', 'mesonbuild/interpreter/primitives/string.py', 'mesonbuild/interpreter/primitives/array.py', 'mesonbuild/interpreter/primitives/dict.py',
         'mesonbuild/interpreter/primitives/integer.py', 'mesonbuild/interpreter/primitives/boolean.py', 'mesonbuild/interpreter/primitives/range.py', 'mesonbuild/interpreter/interpreter.py']
ENCODED = ['mparser.Lexer/Parser on the program text', 'InterpreterBase.evaluate_statement/evaluate_codeblock/assignment/evaluate_plusassign/evaluate_if/evaluate_foreach/evaluate_ternary/'
           'evaluate_indexing/evaluate_comparison/evaluate_arithmeticstatement/evaluate_andstatement/evaluate_orstatement/evaluate_notstatement/evaluate_uminusstatement/'
           'evaluate_arraystatement/evaluate_dictstatement/evaluate_fstring/function_call/method_call/reduce_arguments/_holderify/_unholder_args',
           'ObjectHolder operator tables (IntegerHolder, BooleanHolder, StringHolder, ArrayHolder, DictHolder, RangeHolder) and their documented methods',
           'Interpreter.func_set_variable/func_get_variable/func_is_variable/func_unset_variable/func_range, on a real Interpreter object (Environment, Build) per path']
EXPLANATION = ('Programs of the documented core language are generated from a tree grammar (the executor enumerates the derivations), rendered to text with ONLY the parentheses the '
               'documented precedence and associativity require, and run on the real Interpreter; the values in them (integers, booleans, strings) are symbolic - integers of '
               'additive operands unbounded, multiplicative operands and divisors over a small forked range, string bodies of bounded length. A reference evaluator written '
               'from docs/markdown/Syntax.md and docs/yaml/elementary evaluates the generating tree on the same symbols; on every path both must fail or both succeed (a failure '
               'being a MesonException, never another exception) and every variable of the final environment must have solver-equal values - which also decides aliasing, '
               'because the reference has value semantics.')
ASSUMPTIONS = ['integers: additive operands any integer, operands of * / % in -3..3 (the engine forks over them: non-linear otherwise)', 'strings <= 2 characters over small alphabets',
               'arrays/dicts of size <= 3; dictionary keys concrete', 'one real Interpreter per path, project() call included, backend None']
OUT = 'subdir()/subproject() beyond the 7 programs of the subdir-subproject obligation (options, nested subprojects, subdir_done), every function other than set_variable/get_variable/is_variable/unset_variable/range/assert/subdir/subproject, Disabler, feature-version warnings, non-ASCII'
MANIFEST = dict(
    text='Bounded differential symbolic check: for every program of the stated grammar fragment (all operator pairs in parent/child and left/right position, every binary operator on every '
         'pair of operand types, arrays, dictionaries, strings and their documented methods, control flow with break/continue, the variable functions) and ALL literal values within the '
         'stated ranges at once, the real interpreter computes the value the language reference prescribes, and fails exactly when it says so.',
    note='Trusted: symx engine, z3, the reference evaluator (written from Syntax.md and the elementary yaml docs; divergences triaged in DESIGN.md section 8). subdir()/subproject() outside.')

mp = ME = B = None
ENV = OPTS = None
Interpreter = None
_TMP = []


def setup():
    global mp, ME, B, ENV, OPTS, Interpreter
    from mesonbuild import mparser, build, environment, cmdline
    from mesonbuild.interpreter import Interpreter as I
    from mesonbuild.mesonlib import MesonException
    from harness.common import quiet_mlog
    quiet_mlog()
    mp, ME, B, Interpreter = mparser, MesonException, build, I
    p = argparse.ArgumentParser()
    cmdline.register_builtin_arguments(p)
    o = p.parse_args([])
    o.cross_file = []; o.native_file = []
    cmdline.parse_cmd_line_options(o)
    src = tempfile.mkdtemp(prefix='c01src'); bld = tempfile.mkdtemp(prefix='c01bld')
    _TMP.extend([src, bld])
    atexit.register(lambda: [shutil.rmtree(d, ignore_errors=True) for d in _TMP])
    with open(os.path.join(src, 'meson.build'), 'w') as f:
        f.write("project('p')\n")
    OPTS = o
    ENV = environment.Environment(src, bld, o)


# ================================================================== trees and rendering
# expression trees: ('var', n) ('num', k) ('str', s) ('mstr', s) ('bool', b) ('arr', [e]) ('dict', [(k, e)]) ('bin', op, l, r) ('not', e) ('neg', e)
#                   ('tern', c, a, b) ('idx', o, i) ('call', name, [e], {k: e}) ('meth', o, name, [e], {k: e}) ('fstr', template)
PREC = {'or': 2, 'and': 3, '==': 4, '!=': 4, '<': 4, '<=': 4, '>': 4, '>=': 4, 'in': 4, 'not in': 4, '+': 5, '-': 5, '*': 6, '/': 6, '%': 6}


def prec(e):
    k = e[0]
    if k == 'tern': return 1
    if k == 'bin': return PREC[e[1]]
    if k in ('not', 'neg'): return 7
    if k in ('idx', 'call', 'meth'): return 8
    return 10


def esc(s):
    """a string value as a '...' literal (documented escapes)"""
    out = ''
    for ch in s:
        if decide(bt_any(ch == '\\')): out = out + '\\\\'
        elif decide(bt_any(ch == "'")): out = out + "\\'"
        elif decide(bt_any(ch == '\n')): out = out + '\\n'
        else: out = out + ch
    return out


def render(e, ctx=0, side=''):
    """text of e; parenthesised only if the documented precedence/associativity requires it in a context of level ctx"""
    k = e[0]
    if k == 'var': s = e[1]
    elif k == 'num': s = str(e[1]) if not is_sym(e[1]) else None
    elif k == 'str': s = "'" + esc(e[1]) + "'"
    elif k == 'mstr': s = "'''" + e[1] + "'''"
    elif k == 'fstr': s = "f'" + e[1] + "'"
    elif k == 'bool': s = 'true' if e[1] else 'false'
    elif k == 'arr': s = '[' + jn(', ', [render(x) for x in e[1]]) + ']'
    elif k == 'dict': s = '{' + jn(', ', [render(a) + ' : ' + render(b) for a, b in e[1]]) + '}'
    elif k == 'bin':
        p = PREC[e[1]]
        s = render(e[2], p, 'l') + ' ' + e[1] + ' ' + render(e[3], p, 'r')
    elif k == 'not': s = 'not ' + render(e[1], 7, 'u')
    elif k == 'neg': s = '-' + render(e[1], 7, 'u')
    elif k == 'tern': s = render(e[1], 2, 'c') + ' ? ' + render(e[2], 2, 'c') + ' : ' + render(e[3], 2, 'c')
    elif k == 'idx': s = render(e[1], 8, 'l') + '[' + render(e[2]) + ']'
    elif k == 'call': s = e[1] + '(' + jn(', ', [render(x) for x in e[2]] + [kk + ' : ' + render(v) for kk, v in e[3].items()]) + ')'
    elif k == 'meth': s = render(e[1], 8, 'l') + '.' + e[2] + '(' + jn(', ', [render(x) for x in e[3]] + [kk + ' : ' + render(v) for kk, v in e[4].items()]) + ')'
    else: raise AssertionError(k)
    p = prec(e)
    need = p < ctx
    if p == ctx and p < 7:
        if p == 4: need = True                 # comparisons do not chain
        elif side == 'r': need = True          # binary operators associate to the left
    if ctx == 7 and p == 7: need = True        # unary operators do not stack
    if k == 'num' and isinstance(e[1], int) and e[1] < 0 and ctx >= 5: need = True
    if ctx == 8 and k == 'num': need = True    # 1.to_string() needs no parens in meson, but keep literals simple
    return '(' + s + ')' if need else s


def jn(sep, xs):
    out = ''
    for i, x in enumerate(xs):
        out = out + (sep if i else '') + x
    return out


def render_block(stmts, ind=''):
    out = ''
    for s in stmts:
        k = s[0]
        if k == 'assign': out = out + ind + s[1] + ' = ' + render(s[2]) + '\n'
        elif k == 'pluseq': out = out + ind + s[1] + ' += ' + render(s[2]) + '\n'
        elif k == 'expr': out = out + ind + render(s[1]) + '\n'
        elif k == 'if':
            for i, (c, b) in enumerate(s[1]):
                out = out + ind + ('if ' if i == 0 else 'elif ') + render(c) + '\n' + render_block(b, ind + '  ')
            if s[2] is not None: out = out + ind + 'else\n' + render_block(s[2], ind + '  ')
            out = out + ind + 'endif\n'
        elif k == 'foreach':
            out = out + ind + 'foreach ' + ', '.join(s[1]) + ' : ' + render(s[2]) + '\n' + render_block(s[3], ind + '  ') + ind + 'endforeach\n'
        elif k in ('continue', 'break'): out = out + ind + k + '\n'
        else: raise AssertionError(k)
    return out


# ================================================================== reference evaluator (docs/markdown/Syntax.md, docs/yaml/elementary/*.yaml)
class RefError(Exception):
    """the language reference says this program is an error"""


class _Break(Exception): pass
class _Continue(Exception): pass


def tname(v):
    if isinstance(v, (bool, SymBool)): return 'bool'
    if isinstance(v, (int, SymInt)): return 'int'
    if isinstance(v, (str, SymStr)): return 'str'
    if isinstance(v, list): return 'list'
    if isinstance(v, dict): return 'dict'
    if isinstance(v, range): return 'range'
    if v.__class__.__name__ in ('RefSubproject', 'Interpreter', 'SubprojectHolder'): return 'subproject'
    raise AssertionError(type(v))


def clone(v):
    if isinstance(v, list): return [clone(x) for x in v]
    if isinstance(v, dict): return {k: clone(x) for k, x in v.items()}
    return v


def veq(a, b):
    """deep equality of two values of the same documented type -> bool / SymBool"""
    ta, tb = tname(a), tname(b)
    if ta != tb: return False
    if ta == 'list':
        if len(a) != len(b): return False
        return sym_and(*[veq(x, y) for x, y in zip(a, b)])
    if ta == 'dict':
        if sorted(a) != sorted(b): return False
        return sym_and(*[veq(a[k], b[k]) for k in a])
    if ta == 'str':
        if len(a) != len(b): return False
    return a == b


def truth(v, what):
    if tname(v) != 'bool': raise RefError(what + ' needs a boolean')
    return decide(bt_any(v))


def floordiv(a, b):
    if decide(bt_any(b == 0)): raise RefError('division by zero')
    return a // b


def ref_bin(op, l, r):
    tl, tr = tname(l), tname(r)
    if op == '+':
        if tl == tr == 'int': return l + r
        if tl == tr == 'str': return l + r
        if tl == 'list': return clone(l) + (clone(r) if tr == 'list' else [clone(r)])
        if tl == tr == 'dict':
            d = clone(l); d.update(clone(r)); return d
        raise RefError('+ on %s and %s' % (tl, tr))
    if op in ('-', '*', '%'):
        if not (tl == tr == 'int'): raise RefError(op + ' needs integers')
        if op == '-': return l - r
        if op == '*': return l * r
        if decide(bt_any(r == 0)): raise RefError('modulo by zero')
        return l % r
    if op == '/':
        if tl == tr == 'int': return floordiv(l, r)
        if tl == tr == 'str': return ref_pathjoin(l, r)
        raise RefError('/ needs two integers or two strings')
    if op in ('==', '!='):
        if tl != tr: raise RefError('comparison of different types')
        e = veq(l, r)
        return e if op == '==' else sym_not(e)
    if op in ('<', '<=', '>', '>='):
        # integers; strings compare lexicographically (not in Syntax.md, but an explicit entry of the str operator table: the reference follows it, see DESIGN.md section 8)
        if not (tl == tr and tl in ('int', 'str')): raise RefError('ordering needs two integers or two strings')
        return {'<': l < r, '<=': l <= r, '>': l > r, '>=': l >= r}[op]
    if op in ('in', 'not in'):
        if tr == 'list':
            hit = sym_or(*[veq(l, x) for x in r]) if r else False
        elif tr == 'dict':
            hit = False if tl != 'str' else (sym_or(*[l == k for k in r]) if r else False)
        elif tr == 'str':
            if tl != 'str': raise RefError('in <string> needs a string')
            hit = decide(bt_any(mkbool(bt_any(chars_contains(r, l)))))
        else:
            raise RefError('in needs an array, dictionary or string on the right')
        return hit if op == 'in' else sym_not(hit)
    raise AssertionError(op)


def chars_contains(hay, needle):
    if isinstance(hay, str) and isinstance(needle, str): return needle in hay
    h = hay if isinstance(hay, SymStr) else SymStr(chars_of(hay))
    return mkbool(h._contains(needle))


def ref_pathjoin(a, b):
    # docs: "/" joins paths like os.path.join; an absolute right operand wins
    if len(b) and decide(bt_any(b[0] == '/')): return b
    if not len(a) or decide(bt_any(a[len(a) - 1] == '/')): return a + b
    return a + '/' + b


def ref_index(o, i):
    to = tname(o)
    if to in ('list', 'str'):
        if tname(i) != 'int': raise RefError('index must be an integer')
        n = len(o)
        for k in range(-n, n):
            if decide(bt_any(i == k)): return clone(o[k])
        raise RefError('index out of bounds')
    if to == 'dict':
        if tname(i) != 'str': raise RefError('dictionary key must be a string')
        for k in o:
            if decide(bt_any(i == k)): return clone(o[k])
        raise RefError('missing key')
    raise RefError('not indexable')


def to_display(v):
    """string form used by .format(), f-strings and to_string(): integers in decimal, booleans true/false"""
    t = tname(v)
    if t == 'str': return v
    if t == 'bool': return 'true' if decide(bt_any(v)) else 'false'
    if t == 'int': return sym_str_of_int(v) if is_sym(v) else str(v)
    raise RefError('cannot format a %s' % t)


class Ref:
    def __init__(self, presets):
        self.vars = dict(presets)
        self.visited = set()

    def ev(self, e):
        k = e[0]
        if k == 'var':
            if e[1] not in self.vars: raise RefError('unknown variable ' + e[1])
            return self.vars[e[1]]
        if k in ('num', 'bool'): return e[1]
        if k in ('str', 'mstr'): return e[1]
        if k == 'fstr': return self.fstring(e[1])
        if k == 'arr': return [clone(self.ev(x)) for x in e[1]]
        if k == 'dict':
            d = {}
            for a, b in e[1]:
                kk = self.ev(a)
                if tname(kk) != 'str': raise RefError('dictionary keys must be strings')
                if kk in d: raise RefError('duplicate dictionary key')
                d[kk] = clone(self.ev(b))
            return d
        if k == 'not': return sym_not(self._bool(self.ev(e[1]), 'not'))
        if k == 'neg':
            v = self.ev(e[1])
            if tname(v) != 'int': raise RefError('unary minus needs an integer')
            return -v
        if k == 'bin':
            op = e[1]
            if op == 'and':
                l = self.ev(e[2])
                if not truth(l, 'and'): return False
                r = self.ev(e[3]); truth_type(r, 'and'); return r
            if op == 'or':
                l = self.ev(e[2])
                if truth(l, 'or'): return True
                r = self.ev(e[3]); truth_type(r, 'or'); return r
            l = self.ev(e[2]); r = self.ev(e[3])
            return ref_bin(op, l, r)
        if k == 'tern':
            c = self.ev(e[1])
            return self.ev(e[2]) if truth(c, 'ternary condition') else self.ev(e[3])
        if k == 'idx': return ref_index(self.ev(e[1]), self.ev(e[2]))
        if k == 'call': return self.call(e[1], [self.ev(x) for x in e[2]], {kk: self.ev(v) for kk, v in e[3].items()})
        if k == 'meth': return self.method(self.ev(e[1]), e[2], [self.ev(x) for x in e[3]], {kk: self.ev(v) for kk, v in e[4].items()})
        raise AssertionError(k)

    def _bool(self, v, what):
        if tname(v) != 'bool': raise RefError(what + ' needs a boolean')
        return v

    def fstring(self, tmpl):
        # @name@ is replaced by the value of an existing variable of type str/int/bool; unknown names stay
        out = ''; i = 0; n = len(tmpl)
        while i < n:
            if tmpl[i] == '@':
                j = tmpl.find('@', i + 1)
                name = tmpl[i + 1:j] if j > 0 else ''
                if j > 0 and name and all(c.isalnum() or c == '_' for c in name):
                    if name not in self.vars: raise RefError('unknown variable in f-string')
                    out = out + to_display(self.vars[name]); i = j + 1; continue
            out = out + tmpl[i]; i += 1
        return out

    def call(self, name, args, kw):
        if name == 'set_variable':
            if len(args) != 2 or tname(args[0]) != 'str': raise RefError('set_variable(name, value)')
            self.vars[args[0]] = clone(args[1]); return None
        if name == 'get_variable':
            if not (1 <= len(args) <= 2) or tname(args[0]) != 'str': raise RefError('get_variable(name[, fallback])')
            if args[0] in self.vars: return clone(self.vars[args[0]])
            if len(args) == 2: return clone(args[1])
            raise RefError('unknown variable')
        if name == 'is_variable':
            if len(args) != 1 or tname(args[0]) != 'str': raise RefError('is_variable(name)')
            return args[0] in self.vars
        if name == 'subdir':
            # Reference manual: "the build definition file in the subdirectory is run as if it was written in place"; entering a directory twice is an error
            if len(args) != 1 or tname(args[0]) != 'str': raise RefError('subdir(name)')
            if args[0] in self.visited: raise RefError('subdir entered twice')
            self.visited.add(args[0])
            self.run(SUBFILES[args[0]]); return None
        if name == 'subproject':
            # a subproject is a project of its own: nothing of the parent is visible inside, its variables are reached through get_variable() only
            if len(args) != 1 or tname(args[0]) != 'str': raise RefError('subproject(name)')
            inner = Ref({})
            inner.run(SUBPROJECTS[args[0]])
            return RefSubproject(inner.vars)
        if name == 'unset_variable':
            if len(args) != 1 or tname(args[0]) != 'str': raise RefError('unset_variable(name)')
            if args[0] not in self.vars: raise RefError('unknown variable')
            del self.vars[args[0]]; return None
        if name == 'range':
            if not (1 <= len(args) <= 3) or any(tname(a) != 'int' for a in args): raise RefError('range(int...)')
            a = [concretize_int(x) if is_sym(x) else x for x in args]
            start, stop, step = (0, a[0], 1) if len(a) == 1 else ((a[0], a[1], 1) if len(a) == 2 else a)
            if start < 0 or stop < start or step < 1: raise RefError('range arguments')
            return range(start, stop, step)
        raise AssertionError(name)

    def method(self, o, name, args, kw):
        t = tname(o)
        if t == 'subproject':
            if name != 'get_variable' or not (1 <= len(args) <= 2) or tname(args[0]) != 'str': raise RefError('subproject.get_variable(name[, fallback])')
            for kname in o.vars:
                if len(kname) == len(args[0]) and decide(bt_any(args[0] == kname)): return clone(o.vars[kname])
            if len(args) == 2: return clone(args[1])
            raise RefError('unknown subproject variable')
        if t == 'str' and name != 'format' and isinstance(o, str) and any(is_sym(a) for a in args): o = SymStr(chars_of(o))      # same value, liftable methods
        A = lambda n, types=None: self._args(args, n, types)
        if t == 'int':
            if name == 'is_even': A(0); return mkbool(bt_any((o % 2) == 0))
            if name == 'is_odd': A(0); return mkbool(bt_any((o % 2) == 1))
            if name == 'to_string': A(0); return to_display(o)
        if t == 'bool':
            if name == 'to_int': A(0); return sym_ite(o, 1, 0)
            if name == 'to_string':
                if len(args) == 0: return to_display(o)
                A(2, 'str'); return args[0] if decide(bt_any(o)) else args[1]
        if t == 'str':
            if name == 'to_upper': A(0); return o.upper()
            if name == 'to_lower': A(0); return o.lower()
            if name == 'strip':
                if len(args) == 0: return o.strip()
                A(1, 'str'); return o.strip(args[0])
            if name in ('startswith', 'endswith', 'contains'):
                A(1, 'str')
                if name == 'contains': return decide(bt_any(chars_contains(o, args[0])))
                return mkbool(bt_any(getattr(o if isinstance(o, SymStr) else SymStr(chars_of(o)) if is_sym(args[0]) else o, name)(args[0])))
            if name == 'to_int':
                A(0)
                s = o.strip() if False else o
                if not len(s): raise RefError('to_int of an empty string')
                body = s[1:] if decide(bt_any(sym_or(s[0] == '-', s[0] == '+'))) and len(s) > 1 else s
                if not decide(bt_any(mkbool(bt_any(body.isdigit())))): raise RefError('not a number')
                return sym_int_of_str(s) if is_sym(s) else int(s)
            if name == 'split':
                if len(args) == 0: return o.split()
                A(1, 'str'); return o.split(args[0])
            if name == 'join':
                A(1)
                lst = args[0]
                if tname(lst) != 'list' or any(tname(x) != 'str' for x in lst): raise RefError('join needs an array of strings')
                return jn(o, lst)
            if name == 'underscorify':
                A(0); out = ''
                for ch in o: out = out + (ch if decide(c_isalnum(chars_of(ch)[0])) else '_')
                return out
            if name == 'replace': A(2, 'str'); return o.replace(args[0], args[1])
            if name == 'splitlines':
                # str.yml: \n, \r and \r\n are newlines; no empty last element; '' -> []
                A(0); out = []; cur = ''; cs = chars_of(o); i = 0
                while i < len(cs):
                    if decide(ceq(cs[i], 13)):
                        out.append(cur); cur = ''
                        if i + 1 < len(cs) and decide(ceq(cs[i + 1], 10)): i += 1
                    elif decide(ceq(cs[i], 10)):
                        out.append(cur); cur = ''
                    else:
                        cur = cur + mkstr([cs[i]])
                    i += 1
                if len(cur): out.append(cur)
                return out
            if name == 'substring':
                if len(args) > 2 or any(tname(a) != 'int' for a in args): raise RefError('substring(int, int)')
                a = [concretize_int(x) if is_sym(x) else x for x in args]
                s0 = a[0] if len(a) > 0 else 0; e0 = a[1] if len(a) > 1 else len(o)
                return o[s0:e0]
            if name == 'format':
                out = ''; i = 0; n = len(o)
                if is_sym(o): raise AssertionError('symbolic format template')
                while i < n:
                    if o[i] == '@':
                        j = o.find('@', i + 1)
                        if j > 0 and o[i + 1:j].isdigit():
                            k = int(o[i + 1:j])
                            if k >= len(args): raise RefError('format placeholder out of range')
                            out = out + to_display(args[k]); i = j + 1; continue
                    out = out + o[i]; i += 1
                return out
        if t == 'list':
            if name == 'length': A(0); return len(o)
            if name == 'contains':
                A(1)
                def rec(lst, x):
                    r = False
                    for y in lst:
                        r = sym_or(r, veq(y, x))
                        if tname(y) == 'list': r = sym_or(r, rec(y, x))
                    return r
                return rec(o, args[0])
            if name == 'get':
                if not (1 <= len(args) <= 2) or tname(args[0]) != 'int': raise RefError('get(index[, fallback])')
                n = len(o)
                for k in range(-n, n):
                    if decide(bt_any(args[0] == k)): return clone(o[k])
                if len(args) == 2: return clone(args[1])
                raise RefError('index out of bounds')
            if name == 'flatten':
                A(0)
                def flat(lst):
                    out = []
                    for y in lst:
                        if tname(y) == 'list': out = out + flat(y)
                        else: out.append(y)
                    return out
                return flat(o)
            if name == 'slice':
                # array.yml: start, stop (both or none), kwarg step != 0; negative indices count from the back; defaults depend on the sign of step
                if len(args) not in (0, 2) or any(tname(a) != 'int' for a in args): raise RefError('slice(start, stop) or slice()')
                step = kw.get('step', 1)
                if tname(step) != 'int': raise RefError('step must be an integer')
                step = concretize_int(step) if is_sym(step) else step
                if step == 0: raise RefError('step cannot be zero')
                n = len(o)
                def norm(i, lo, hi):
                    i = concretize_int(i) if is_sym(i) else i
                    if i < 0: i += n
                    return max(lo, min(hi, i))
                if step > 0:
                    a_, b_ = (norm(args[0], 0, n), norm(args[1], 0, n)) if args else (0, n)
                    idx = []; i = a_
                    while i < b_: idx.append(i); i += step
                else:
                    a_, b_ = (norm(args[0], -1, n - 1), norm(args[1], -1, n - 1)) if args else (n - 1, -1)
                    idx = []; i = a_
                    while i > b_: idx.append(i); i += step
                return [clone(o[i]) for i in idx]
        if t == 'dict':
            if name == 'has_key': A(1, 'str'); return sym_or(*[args[0] == k for k in o]) if o else False
            if name == 'keys': A(0); return sorted(o)
            if name == 'values': A(0); return [clone(o[k]) for k in sorted(o)]
            if name == 'get':
                if not (1 <= len(args) <= 2) or tname(args[0]) != 'str': raise RefError('get(key[, fallback])')
                for k in o:
                    if decide(bt_any(args[0] == k)): return clone(o[k])
                if len(args) == 2: return clone(args[1])
                raise RefError('missing key')
        raise RefError('no method %s on %s' % (name, t))

    def _args(self, args, n, types=None):
        if len(args) != n: raise RefError('wrong number of arguments')
        if types:
            for a in args:
                if tname(a) != types: raise RefError('wrong argument type')

    def run(self, stmts):
        for s in stmts:
            k = s[0]
            if k == 'assign':
                v = self.ev(s[2])
                if v is None: raise RefError('assignment of a void value')
                self.vars[s[1]] = clone(v)
            elif k == 'pluseq':
                if s[1] not in self.vars: raise RefError('+= on an unknown variable')
                self.vars[s[1]] = ref_bin('+', self.vars[s[1]], self.ev(s[2]))
            elif k == 'expr': self.ev(s[1])
            elif k == 'if':
                done = False
                for c, b in s[1]:
                    if truth(self.ev(c), 'if condition'):
                        self.run(b); done = True; break
                if not done and s[2] is not None: self.run(s[2])
            elif k == 'foreach':
                it = self.ev(s[2]); t = tname(it)
                if t == 'dict':
                    if len(s[1]) != 2: raise RefError('foreach over a dictionary needs two variables')
                    items = [(kk, clone(v)) for kk, v in it.items()]
                elif t in ('list', 'range'):
                    if len(s[1]) != 1: raise RefError('foreach over an array needs one variable')
                    items = [(clone(x),) for x in it]
                else:
                    raise RefError('foreach needs an array, dictionary or range')
                for tup in items:
                    for nm, v in zip(s[1], tup): self.vars[nm] = v
                    try:
                        self.run(s[3])
                    except _Continue: continue
                    except _Break: break
            elif k == 'continue': raise _Continue()
            elif k == 'break': raise _Break()


def truth_type(v, what):
    if tname(v) != 'bool': raise RefError(what + ' needs a boolean')


# ================================================================== running both sides
def run_real(text, presets):
    ast = mp.Parser("project('p')\n" + text, 'meson.build').parse()
    it = Interpreter(B.Build(ENV), ast=ast, backend=None, user_defined_options=OPTS)
    for k, v in presets.items():
        it.variables[k] = it._holderify(clone(v))
    it.run()
    out = {}
    for k, h in it.variables.items():
        if k in ('meson', 'build_machine', 'host_machine', 'target_machine'): continue
        out[k] = unhold(h)
    return out


def unhold(h):
    if type(h).__name__ == 'RangeHolder': return h.range
    v = getattr(h, 'held_object', h)
    if isinstance(v, (list, tuple)): return [unhold(x) for x in v]
    if isinstance(v, dict): return {k: unhold(x) for k, x in v.items()}
    return v


def same_val(a, b, what):
    ta, tb = tname(a), tname(b)
    check(ta == tb, what + ': type')
    if ta != tb or ta == 'subproject': return
    if ta == 'list':
        check(len(a) == len(b), what + ': array length')
        if len(a) == len(b):
            for x, y in zip(a, b): same_val(x, y, what)
    elif ta == 'dict':
        check(sorted(a) == sorted(b), what + ': dictionary keys')
        for k in a:
            if k in b: same_val(a[k], b[k], what)
    elif ta == 'str':
        check(len(a) == len(b), what + ': string length')
        if len(a) == len(b): check(eq(a, b), what + ': string value')
    elif ta == 'range':
        check(list(a) == list(b), what + ': range')
    else:
        check(eq(a, b), what + ': value')


def nested_ternary(e, inside=False):
    """Syntax.md, "Ternary operator": nested ternary operators are forbidden"""
    if not isinstance(e, tuple): return False
    if e and e[0] == 'tern':
        if inside: return True
        return any(nested_ternary(x, True) for x in e[1:])
    return any(nested_ternary(x, inside) for x in e[1:] if isinstance(x, (tuple, list))) or \
        any(nested_ternary(y, inside) for x in e[1:] if isinstance(x, list) for y in x)


def differential(stmts, presets, text=None):
    text = text if text is not None else render_block(stmts)
    ref = Ref({k: clone(v) for k, v in presets.items()})
    try:
        if any(nested_ternary(s_) for s_ in stmts): raise RefError('nested ternary')
        ref.run(stmts); rerr = None
    except RefError as e:
        rerr = str(e)
    except (_Break, _Continue):
        rerr = 'break/continue outside a loop'
    try:
        got = run_real(text, presets); gerr = None
    except ME as e:
        gerr = 'MesonException'
    check((gerr is None) == (rerr is None), 'fails exactly when the language reference says so')
    if gerr is None and rerr is None:
        check(sorted(got) == sorted(ref.vars), 'same set of variables')
        for k in got:
            if k in ref.vars: same_val(got[k], ref.vars[k], 'variable ' + k if len(k) < 3 else 'variable')
        cover('value')
    elif gerr is not None and rerr is not None:
        cover('error')


# ---------------------------------------------------------------- subdir() and subproject()
SUBFILES = {}        # directory name -> statements of its meson.build (what the reference inlines)
SUBPROJECTS = {}     # subproject name -> statements of its meson.build (after project())


class RefSubproject:
    def __init__(self, vars_): self.vars = vars_


def write_tree_file(rel, text):
    import os
    p = os.path.join(ENV.source_dir, rel)
    os.makedirs(os.path.dirname(p), exist_ok=True)
    with open(p, 'w') as f: f.write(text)


def ob_subdir_subproject():
    """subdir(): the file runs as if written in place, sharing all variables (both ways); subproject(): its variables are reachable only through
    get_variable(), the parent's are not visible inside"""
    def h():
        import os
        tag = 'p%d' % os.getpid()            # one directory per worker process: paths of different workers do not overwrite each other's files
        P = {'I0': sym_int('I0'), 'I1': sym_int('I1', -3, 3), 'B0': sym_bool('B0'), 'S0': sym_str(1, 'S0', alphabet='vwz')}
        i0, i1, b0, s0 = ('var', 'I0'), ('var', 'I1'), ('var', 'B0'), ('var', 'S0')
        k = choose(7, 'prog')
        sub = 'sub' + tag; sp = 'sp' + tag
        subfile = None; spfile = None
        if k == 0:      # variables flow in and out, and are modified in between
            subfile = [('assign', 'b', ('bin', '+', ('var', 'a'), i1)), ('assign', 'a', ('bin', '*', ('var', 'a'), ('num', 2)))]
            prog = [('assign', 'a', i0), ('expr', ('call', 'subdir', [('str', sub)], {})), ('assign', 'z', ('bin', '+', ('var', 'a'), ('var', 'b')))]
        elif k == 1:    # arrays are values also across the file boundary; control flow inside the file
            subfile = [('assign', 'm', ('var', 'l')), ('pluseq', 'l', ('arr', [i1])), ('if', [(b0, [('assign', 'c', ('num', 1))])], [('assign', 'c', ('num', 2))])]
            prog = [('assign', 'l', ('arr', [i0])), ('expr', ('call', 'subdir', [('str', sub)], {})), ('assign', 'n', ('meth', ('var', 'm'), 'length', [], {}))]
        elif k == 2:    # an error inside the file is an error of the whole
            subfile = [('assign', 'b', ('bin', '+', ('var', 'undefined_name'), i1))]
            prog = [('assign', 'a', i0), ('expr', ('call', 'subdir', [('str', sub)], {}))]
        elif k == 3:    # the same directory twice is rejected
            subfile = [('assign', 'b', i1)]
            prog = [('expr', ('call', 'subdir', [('str', sub)], {})), ('expr', ('call', 'subdir', [('str', sub)], {}))]
        elif k == 4:    # subproject variables: through get_variable only (symbolic name, fallback)
            spfile = [('assign', 'v', ('bin', '*', ('num', 7), ('num', 2))), ('assign', 'w', ('arr', [('num', 1), ('num', 2)]))]
            prog = [('assign', 'sp', ('call', 'subproject', [('str', sp)], {})), ('assign', 'q', ('meth', ('var', 'sp'), 'get_variable', [s0, i0], {})),
                    ('assign', 'h', ('call', 'is_variable', [s0], {})), ('assign', 'v', i1)]
        elif k == 5:    # ... without a fallback an unknown name is an error; a known one is a copy
            spfile = [('assign', 'v', ('arr', [('num', 1)])), ('assign', 'w', ('str', 'x'))]
            prog = [('assign', 'sp', ('call', 'subproject', [('str', sp)], {})), ('assign', 'q', ('meth', ('var', 'sp'), 'get_variable', [s0], {})), ('pluseq', 'q', i0)]
        else:           # the parent's variables are not visible inside the subproject
            spfile = [('assign', 'v', ('bin', '+', ('var', 'a'), ('num', 1)))]
            prog = [('assign', 'a', i0), ('assign', 'sp', ('call', 'subproject', [('str', sp)], {}))]
        if subfile is not None:
            SUBFILES[sub] = subfile
            write_tree_file(sub + '/meson.build', render_block(subfile))
        if spfile is not None:
            SUBPROJECTS[sp] = spfile
            write_tree_file('subprojects/' + sp + '/meson.build', "project('" + sp + "')\n" + render_block(spfile))
        differential(prog, P)
    return h


# ================================================================== program generators
ARITH = ['+', '-', '*', '/', '%']
CMP = ['==', '!=', '<', '<=', '>', '>=']


def int_presets(mul_positions):
    """I0..I2: additive operands unbounded, multiplicative ones small"""
    return {'I%d' % i: (sym_int('I%d' % i, -3, 3) if i in mul_positions else sym_int('I%d' % i)) for i in range(3)}


def ob_arith_pairs():
    """a op1 b op2 c in both groupings: precedence and left associativity of + - * / %"""
    def h():
        o1 = ARITH[choose(5, 'op1')]; o2 = ARITH[choose(5, 'op2')]
        shape = choose(2, 'shape')
        mulpos = set()
        if o1 in '*/%': mulpos |= {0, 1}
        if o2 in '*/%': mulpos |= {1, 2}
        if (o1 in '*/%' or o2 in '*/%'): mulpos |= {0, 1, 2}
        P = int_presets(mulpos)
        a, b, c = ('var', 'I0'), ('var', 'I1'), ('var', 'I2')
        tree = ('bin', o2, ('bin', o1, a, b), c) if shape == 0 else ('bin', o1, a, ('bin', o2, b, c))
        differential([('assign', 'x', tree)], P)
    return h


def ob_unary_pairs():
    def h():
        o = ARITH[choose(5, 'op')]
        P = {'I0': sym_int('I0', -3, 3), 'I1': sym_int('I1', -3, 3)}
        shape = choose(4, 'shape')
        a, b = ('var', 'I0'), ('var', 'I1')
        tree = [('bin', o, ('neg', a), b), ('neg', ('bin', o, a, b)), ('bin', o, a, ('neg', b)), ('neg', ('neg', a))][shape]
        differential([('assign', 'x', tree)], P)
    return h


def ob_logic_pairs():
    """and / or / not / comparisons: precedence, short circuit (the skipped operand would be an error), strict booleans"""
    def h():
        P = {'B0': sym_bool('B0'), 'B1': sym_bool('B1'), 'B2': sym_bool('B2'), 'I0': sym_int('I0'), 'I1': sym_int('I1')}
        L = ['and', 'or']
        o1 = L[choose(2, 'op1')]; o2 = L[choose(2, 'op2')]
        leaves = [('var', 'B0'), ('not', ('var', 'B1')), ('bin', CMP[choose(6, 'cmp')], ('var', 'I0'), ('var', 'I1')),
                  ('bin', '==', ('bin', '/', ('var', 'I0'), ('num', 0)), ('num', 1)), ('var', 'I0')]
        x = leaves[choose(5, 'l0')]; y = leaves[choose(5, 'l1')]; z = ('var', 'B2')
        shape = choose(3, 'shape')
        tree = [('bin', o2, ('bin', o1, x, y), z), ('bin', o1, x, ('bin', o2, y, z)), ('not', ('bin', o1, x, y))][shape]
        differential([('assign', 'x', tree)], P)
    return h


def ob_cmp_arith():
    """comparison vs arithmetic precedence; comparisons of comparisons need parentheses (no chaining)"""
    def h():
        P = {'I0': sym_int('I0'), 'I1': sym_int('I1'), 'I2': sym_int('I2'), 'B0': sym_bool('B0')}
        c1 = CMP[choose(6, 'c1')]; a1 = ['+', '-'][choose(2, 'a1')]
        shape = choose(4, 'shape')
        a, b, c = ('var', 'I0'), ('var', 'I1'), ('var', 'I2')
        tree = [('bin', c1, ('bin', a1, a, b), c), ('bin', c1, a, ('bin', a1, b, c)), ('bin', '==', ('bin', c1, a, b), ('var', 'B0')),
                ('tern', ('bin', c1, a, b), ('bin', a1, a, c), ('bin', a1, b, c))][shape]
        differential([('assign', 'x', tree)], P)
    return h


def gen_int(depth, nl, tag):
    """integer-valued expression tree of the given depth over variables I0..I(nl-1)"""
    if depth == 0:
        return ('var', 'I%d' % choose(nl, tag + 'v')) if nl > 1 else ('var', 'I0')
    k = choose(8, tag + 'k')
    if k < 5: return ('bin', ARITH[k], gen_int(depth - 1, nl, tag + 'l'), gen_int(depth - 1, nl, tag + 'r'))
    if k == 5: return ('neg', gen_int(depth - 1, nl, tag + 'n'))
    if k == 6: return ('tern', gen_bool(depth - 1, nl, tag + 'c'), gen_int(depth - 1, nl, tag + 't'), gen_int(depth - 1, nl, tag + 'f'))
    return gen_int(0, nl, tag + 'z')


def gen_bool(depth, nl, tag):
    if depth == 0:
        return ('var', 'B%d' % choose(nl, tag + 'v')) if nl > 1 else ('var', 'B0')
    k = choose(6, tag + 'k')
    if k == 0: return ('bin', 'and', gen_bool(depth - 1, nl, tag + 'l'), gen_bool(depth - 1, nl, tag + 'r'))
    if k == 1: return ('bin', 'or', gen_bool(depth - 1, nl, tag + 'l'), gen_bool(depth - 1, nl, tag + 'r'))
    if k == 2: return ('not', gen_bool(depth - 1, nl, tag + 'n'))
    if k == 3: return ('bin', CMP[choose(6, tag + 'c')], gen_int(depth - 1, nl, tag + 'l'), gen_int(depth - 1, nl, tag + 'r'))
    if k == 4: return ('bin', ['==', '!='][choose(2, tag + 'e')], gen_bool(depth - 1, nl, tag + 'l'), gen_bool(depth - 1, nl, tag + 'r'))
    return gen_bool(0, nl, tag + 'z')


def has_mul(e):
    if e[0] == 'bin': return e[1] in '*/%' or has_mul(e[2]) or has_mul(e[3])
    if e[0] in ('not', 'neg'): return has_mul(e[1])
    if e[0] == 'tern': return has_mul(e[1]) or has_mul(e[2]) or has_mul(e[3])
    return False


def ob_expr(depth, nl, kind):
    """every expression tree of the given depth over the arithmetic / logic / comparison / ternary fragment"""
    def h():
        tree = gen_int(depth, nl, 'e') if kind == 'int' else gen_bool(depth, nl, 'e')
        small = has_mul(tree)
        P = {}
        for i in range(nl):
            P['I%d' % i] = sym_int('I%d' % i, -3, 3) if small else sym_int('I%d' % i)
            P['B%d' % i] = sym_bool('B%d' % i)
        differential([('assign', 'x', tree)], P)
    return h


def ob_containers():
    """aliasing through containers and loop variables; nested data; += on every type"""
    def h():
        P = {'I0': sym_int('I0'), 'I1': sym_int('I1'), 'S0': sym_str(1, 'S0', alphabet='ab')}
        k = choose(9, 'prog')
        i0, i1, s0 = ('var', 'I0'), ('var', 'I1'), ('var', 'S0')
        progs = [
            [('assign', 'a', ('arr', [i0])), ('assign', 'd', ('dict', [(('str', 'k'), ('var', 'a'))])), ('pluseq', 'a', i1), ('assign', 'n', ('meth', ('idx', ('var', 'd'), ('str', 'k')), 'length', [], {}))],
            [('assign', 'a', ('arr', [('arr', [i0]), ('arr', [i1])])), ('foreach', ['e'], ('var', 'a'), [('pluseq', 'e', s0)]), ('assign', 'n', ('meth', ('idx', ('var', 'a'), ('num', 0)), 'length', [], {}))],
            [('assign', 'a', ('arr', [i0])), ('assign', 'b', ('arr', [('var', 'a'), ('var', 'a')])), ('pluseq', 'a', i1), ('assign', 'x', ('bin', '==', ('idx', ('var', 'b'), ('num', 0)), ('arr', [i0])))],
            [('assign', 'x', i0), ('pluseq', 'x', i1), ('assign', 's', s0), ('pluseq', 's', s0), ('assign', 'd', ('dict', [(('str', 'a'), i0)])), ('pluseq', 'd', ('dict', [(('str', 'b'), i1)]))],
            [('assign', 'x', i0), ('pluseq', 'x', s0)],
            [('assign', 'a', ('bin', '+', ('arr', [i0]), ('arr', [('arr', [i1])]))), ('assign', 'n', ('meth', ('var', 'a'), 'length', [], {})), ('assign', 'y', ('idx', ('idx', ('var', 'a'), ('num', 1)), ('num', 0)))],
            [('assign', 'd', ('dict', [(('str', 'k'), ('arr', [i0]))])), ('assign', 'v', ('idx', ('var', 'd'), ('str', 'k'))), ('pluseq', 'v', i1), ('assign', 'n', ('meth', ('idx', ('var', 'd'), ('str', 'k')), 'length', [], {}))],
            [('assign', 'a', ('arr', [i0, i1])), ('assign', 'x', ('meth', ('var', 'a'), 'get', [('num', 5), ('var', 'a')], {})), ('pluseq', 'x', s0), ('assign', 'n', ('meth', ('var', 'a'), 'length', [], {}))],
            [('pluseq', 'undefined_name', i0)],
        ]
        differential(progs[k], P)
    return h


def typed_value(t, tag):
    if t == 'int': return sym_int(tag, -3, 3)
    if t == 'bool': return sym_bool(tag)
    if t == 'str': return sym_str(1, tag, alphabet='ab/')
    if t == 'list': return [sym_int(tag + 'e', -3, 3), 'a']
    return {'k': sym_int(tag + 'v', -3, 3)}


TYPES = ['int', 'bool', 'str', 'list', 'dict']
ALLBIN = ARITH + CMP + ['in', 'not in', 'and', 'or']


def classify_types(label, inputs):
    d = {n: v for k, n, v in inputs}
    t1, t2 = TYPES[d.get('t1', 0)], TYPES[d.get('t2', 0)]
    if t1 == 'int' and t2 == 'bool': return 'int OP bool is accepted (bool is a Python int; FeatureBroken since 1.2.0)'
    if t1 == 'bool' and t2 == 'list': return 'array membership conflates booleans with the integers 0 and 1'
    return label


def ob_types(op):
    """one binary operator on every pair of operand types: strict typing, no implicit conversion"""
    def h():
        t1 = TYPES[choose(5, 't1')]; t2 = TYPES[choose(5, 't2')]
        P = {'V0': typed_value(t1, 'V0'), 'V1': typed_value(t2, 'V1')}
        differential([('assign', 'x', ('bin', op, ('var', 'V0'), ('var', 'V1')))], P)
    return h


def ob_unary_types():
    def h():
        t = TYPES[choose(5, 't')]
        P = {'V0': typed_value(t, 'V0')}
        k = choose(4, 'form')
        v = ('var', 'V0')
        st = [[('assign', 'x', ('not', v))], [('assign', 'x', ('neg', v))], [('if', [(v, [('assign', 'x', ('num', 1))])], [('assign', 'x', ('num', 2))])],
              [('assign', 'x', ('tern', v, ('num', 1), ('num', 2)))]][k]
        differential(st, P)
    return h


def ob_arrays():
    def h():
        P = {'I0': sym_int('I0', -4, 4), 'I1': sym_int('I1'), 'I2': sym_int('I2'), 'S0': sym_str(1, 'S0', alphabet='ab'), 'J0': sym_int('J0', -5, 5), 'J1': sym_int('J1', -2, 2)}
        k = choose(12, 'prog')
        i0, i1, i2, s0 = ('var', 'I0'), ('var', 'I1'), ('var', 'I2'), ('var', 'S0')
        arr = ('arr', [i1, i2, s0])
        progs = [
            [('assign', 'a', arr), ('assign', 'x', ('idx', ('var', 'a'), i0))],                                     # negative / out-of-range indexing
            [('assign', 'a', arr), ('assign', 'b', ('var', 'a')), ('pluseq', 'b', ('arr', [i0])), ('assign', 'n', ('meth', ('var', 'a'), 'length', [], {}))],   # aliasing
            [('assign', 'a', arr), ('assign', 'b', ('var', 'a')), ('pluseq', 'a', s0), ('pluseq', 'a', ('arr', [('arr', [i0])]))],                         # += single item / nested
            [('assign', 'a', arr), ('assign', 'x', ('bin', 'in', i0, ('var', 'a'))), ('assign', 'y', ('bin', 'not in', s0, ('var', 'a')))],
            [('assign', 'a', arr), ('assign', 'x', ('meth', ('var', 'a'), 'get', [i0], {}))],
            [('assign', 'a', arr), ('assign', 'x', ('meth', ('var', 'a'), 'get', [i0, ('str', 'fb')], {}))],
            [('assign', 'a', ('arr', [i1, ('arr', [i2, s0])])), ('assign', 'x', ('meth', ('var', 'a'), 'contains', [i0], {})), ('assign', 'y', ('meth', ('var', 'a'), 'contains', [s0], {}))],
            [('assign', 'a', arr), ('assign', 'b', ('bin', '+', ('var', 'a'), ('arr', [i0]))), ('assign', 'c', ('bin', '==', ('var', 'a'), ('var', 'b'))), ('assign', 'd', ('bin', '==', ('var', 'a'), arr))],
            [('assign', 'a', ('arr', [])), ('assign', 'x', ('idx', ('var', 'a'), i0))],
            [('assign', 'a', ('arr', [i1, ('arr', [i2, ('arr', [s0, ('arr', [])])]), i0])), ('assign', 'x', ('meth', ('var', 'a'), 'flatten', [], {})), ('assign', 'n', ('meth', ('var', 'a'), 'length', [], {}))],
            [('assign', 'a', ('arr', [i1, i2, s0, ('num', 7)])), ('assign', 'x', ('meth', ('var', 'a'), 'slice', [i0, ('var', 'J0')], {'step': ('var', 'J1')}))],
            [('assign', 'a', ('arr', [i1, i2, s0])), ('assign', 'x', ('meth', ('var', 'a'), 'slice', [], {'step': ('var', 'J1')})), ('assign', 'y', ('meth', ('var', 'a'), 'slice', [i0], {}))],
        ]
        differential(progs[k], P)
    return h


def ob_dicts():
    def h():
        P = {'I0': sym_int('I0'), 'I1': sym_int('I1'), 'S0': sym_str(1, 'S0', alphabet='ab')}
        k = choose(9, 'prog')
        i0, i1, s0 = ('var', 'I0'), ('var', 'I1'), ('var', 'S0')
        d = ('dict', [(('str', 'b'), i0), (('str', 'a'), i1)])
        progs = [
            [('assign', 'd', ('dict', [(('str', 'b'), i0), (('str', 'c'), s0), (('str', 'a'), i1)])), ('assign', 'v', ('meth', ('var', 'd'), 'values', [], {}))],
            [('assign', 'd', d), ('assign', 'x', ('idx', ('var', 'd'), s0))],
            [('assign', 'd', d), ('assign', 'k', ('meth', ('var', 'd'), 'keys', [], {}))],
            [('assign', 'd', d), ('assign', 'x', ('meth', ('var', 'd'), 'get', [s0, ('num', 7)], {})), ('assign', 'h', ('meth', ('var', 'd'), 'has_key', [s0], {}))],
            [('assign', 'd', d), ('assign', 'e', ('var', 'd')), ('pluseq', 'e', ('dict', [(('str', 'a'), ('num', 5)), (('str', 'c'), i0)])), ('assign', 'x', ('idx', ('var', 'd'), ('str', 'a')))],
            [('assign', 'd', d), ('assign', 'x', ('bin', 'in', s0, ('var', 'd'))), ('assign', 'y', ('bin', 'in', i0, ('var', 'd')))],
            [('assign', 'd', ('dict', [(('str', 'a'), i0), (('str', 'a'), i1)]))],                                   # duplicate key
            [('assign', 'd', ('dict', [(i0, i1)]))],                                                               # non-string key
            [('assign', 'd', d), ('assign', 't', ('num', 0)), ('assign', 'ks', ('arr', [])),
             ('foreach', ['k', 'v'], ('var', 'd'), [('pluseq', 't', ('var', 'v')), ('pluseq', 'ks', ('var', 'k'))])],
        ]
        differential(progs[k], P)
    return h


def ob_strings():
    def h():
        P = {'S0': sym_str(choose(3, 'l0'), 'S0', alphabet='aB _'), 'S1': sym_str(1, 'S1', alphabet='aB _'), 'I0': sym_int('I0', -3, 3), 'I1': sym_int('I1', -3, 3),
             'L0': sym_str(choose(4, 'll'), 'L0', alphabet='a\n\r\x0c'), 'S2': sym_str(choose(3, 'l2'), 'S2', alphabet='aB _'),
             'S3': sym_str(choose(3, 'l3'), 'S3', alphabet='aZ9 _-\u00e9\u00b2\u00aa')}      # Latin-1 letters / digits that are alphanumeric for Unicode but not in a-zA-Z0-9
        k = choose(19, 'prog')
        s0, s1, i0, i1, s2 = ('var', 'S0'), ('var', 'S1'), ('var', 'I0'), ('var', 'I1'), ('var', 'S2')
        progs = [
            [('assign', 'x', ('bin', '+', s0, s1)), ('assign', 'y', ('bin', '==', s0, s1))],
            [('assign', 'x', ('meth', s0, 'to_upper', [], {})), ('assign', 'y', ('meth', s0, 'to_lower', [], {}))],
            [('assign', 'x', ('meth', s0, 'strip', [], {})), ('assign', 'y', ('meth', s0, 'strip', [s1], {}))],
            [('assign', 'x', ('meth', s0, 'startswith', [s1], {})), ('assign', 'y', ('meth', s0, 'endswith', [s1], {})), ('assign', 'z', ('meth', s0, 'contains', [s1], {}))],
            [('assign', 'x', ('bin', 'in', s1, s0)), ('assign', 'y', ('bin', 'not in', s1, s0))],
            [('assign', 'x', ('meth', s0, 'split', [s1], {}))],
            [('assign', 'x', ('meth', s1, 'join', [('arr', [s0, ('str', 'q'), s0])], {}))],
            [('assign', 'x', ('meth', s0, 'underscorify', [], {}))],
            [('assign', 'x', ('meth', s0, 'replace', [s1, ('str', 'xy')], {}))],
            [('assign', 'x', ('idx', s0, i0))],
            [('assign', 'x', ('meth', ('str', '@0@-@1@-@0@'), 'format', [s0, i0], {}))],
            [('assign', 'x', ('fstr', 'p@S0@q@I0@'))],
            [('assign', 'x', ('meth', s0, 'substring', [i0], {})), ('assign', 'y', ('meth', s0, 'substring', [i0, i1], {})), ('assign', 'z', ('meth', ('str', 'foobar'), 'substring', [i0, i1], {}))],
            [('assign', 'x', ('bin', '/', s0, s1))],
            [('assign', 'x', ('meth', ('var', 'L0'), 'splitlines', [], {}))],
            # the optional / second string of length 0..2: an EMPTY argument is not a missing one
            [('assign', 'y', ('meth', s0, 'strip', [s2], {}))],
            [('assign', 'x', ('meth', s0, 'startswith', [s2], {})), ('assign', 'y', ('meth', s0, 'endswith', [s2], {})), ('assign', 'z', ('meth', s0, 'contains', [s2], {})), ('assign', 'w', ('bin', 'in', s2, s0))],
            [('assign', 'x', ('meth', s2, 'join', [('arr', [s0, ('str', 'q'), s0])], {})), ('assign', 'y', ('bin', '+', s0, s2)), ('assign', 'z', ('bin', '==', s0, s2))],
            # str.yml: underscorify replaces "all characters other than a-zA-Z0-9" - a non-ASCII letter or digit is such a character
            [('assign', 'x', ('meth', ('var', 'S3'), 'underscorify', [], {})), ('assign', 'y', ('meth', ('bin', '+', ('var', 'S3'), s1), 'underscorify', [], {}))],
        ]
        differential(progs[k], P)
    return h


def ob_numbers():
    def h():
        P = {'I0': sym_int('I0', -99, 99), 'B0': sym_bool('B0'), 'D0': sym_str(choose(3, 'dl'), 'D0', alphabet='0179-a')}
        k = choose(6, 'prog')
        i0, b0, d0 = ('var', 'I0'), ('var', 'B0'), ('var', 'D0')
        progs = [
            [('assign', 'x', ('meth', i0, 'is_even', [], {})), ('assign', 'y', ('meth', i0, 'is_odd', [], {}))],
            [('assign', 'x', ('meth', i0, 'to_string', [], {}))],
            [('assign', 'x', ('meth', b0, 'to_int', [], {})), ('assign', 'y', ('meth', b0, 'to_string', [], {}))],
            [('assign', 'x', ('meth', b0, 'to_string', [('str', 'yes'), ('str', 'no')], {}))],
            [('assign', 'x', ('meth', d0, 'to_int', [], {}))],
            [('assign', 'x', ('bin', '+', ('meth', i0, 'to_string', [], {}), ('str', '!')))],
        ]
        differential(progs[k], P)
    return h


def ob_control():
    def h():
        P = {'I0': sym_int('I0'), 'I1': sym_int('I1'), 'I2': sym_int('I2', 0, 3), 'I3': sym_int('I3', -1, 4), 'I4': sym_int('I4', 0, 3), 'B0': sym_bool('B0'), 'B1': sym_bool('B1')}
        k = choose(10, 'prog')
        i0, i1, i2, b0, b1 = ('var', 'I0'), ('var', 'I1'), ('var', 'I2'), ('var', 'B0'), ('var', 'B1')
        progs = [
            [('if', [(b0, [('assign', 'x', ('num', 1))]), (b1, [('assign', 'x', ('num', 2))])], [('assign', 'x', ('num', 3))])],
            [('if', [(('bin', '<', i0, i1), [('assign', 'x', i0)]), (('bin', '==', i0, i1), [('assign', 'x', ('num', 0))])], None), ('assign', 'y', ('call', 'is_variable', [('str', 'x')], {}))],
            [('assign', 't', ('num', 0)), ('foreach', ['i'], ('arr', [i0, i1, ('num', 3)]),
                                           [('if', [(('bin', '==', ('var', 'i'), i1), [('continue',)])], None), ('pluseq', 't', ('var', 'i'))])],
            [('assign', 't', ('num', 0)), ('foreach', ['i'], ('arr', [i0, i1, ('num', 3)]),
                                           [('if', [(('bin', '>', ('var', 'i'), i1), [('break',)])], None), ('pluseq', 't', ('var', 'i'))]), ('assign', 'last', ('var', 'i'))],
            [('assign', 't', ('num', 0)), ('foreach', ['i'], ('call', 'range', [i2], {}), [('pluseq', 't', ('var', 'i'))])],
            [('assign', 'a', ('arr', [i0, i1])), ('foreach', ['i'], ('var', 'a'), [('pluseq', 'a', ('var', 'i'))]), ('assign', 'n', ('meth', ('var', 'a'), 'length', [], {}))],
            [('assign', 't', ('arr', [])), ('foreach', ['i'], ('call', 'range', [i2, ('var', 'I3'), ('var', 'I4')], {}), [('pluseq', 't', ('var', 'i'))]), ('continue',)],
            # a range() kept in a variable is a VALUE: every loop over it - a second one, one after a break, a nested one, one through another name - sees all of it
            [('assign', 'r', ('call', 'range', [i2], {})), ('assign', 't', ('num', 0)), ('assign', 'u', ('num', 0)),
             ('foreach', ['i'], ('var', 'r'), [('if', [(('bin', '==', ('var', 'i'), ('var', 'I4')), [('break',)])], None), ('pluseq', 't', ('var', 'i'))]),
             ('foreach', ['j'], ('var', 'r'), [('pluseq', 'u', ('var', 'j'))])],
            [('assign', 'r', ('call', 'range', [i2], {})), ('assign', 't', ('num', 0)),
             ('foreach', ['i'], ('var', 'r'), [('foreach', ['j'], ('var', 'r'), [('pluseq', 't', ('num', 1))])])],
            [('assign', 'r', ('call', 'range', [i2, ('var', 'I3')], {})), ('assign', 's', ('var', 'r')), ('assign', 't', ('arr', [])), ('assign', 'u', ('arr', [])),
             ('foreach', ['i'], ('var', 'r'), [('pluseq', 't', ('var', 'i'))]), ('foreach', ['i'], ('var', 's'), [('pluseq', 'u', ('var', 'i'))])],
        ]
        differential(progs[k], P)
    return h


def ob_variables():
    def h():
        P = {'I0': sym_int('I0'), 'S0': sym_str(1, 'S0', alphabet='ab')}
        k = choose(6, 'prog')
        i0, s0 = ('var', 'I0'), ('var', 'S0')
        progs = [
            [('expr', ('call', 'set_variable', [('str', 'v'), ('arr', [i0])], {})), ('assign', 'w', ('var', 'v')), ('pluseq', 'w', i0), ('assign', 'x', ('call', 'get_variable', [('str', 'v')], {}))],
            [('assign', 'x', ('call', 'get_variable', [('str', 'nope'), i0], {})), ('assign', 'y', ('call', 'is_variable', [('str', 'nope')], {}))],
            [('assign', 'x', ('call', 'get_variable', [('str', 'nope')], {}))],
            [('assign', 'v', i0), ('expr', ('call', 'unset_variable', [('str', 'v')], {})), ('assign', 'y', ('call', 'is_variable', [('str', 'v')], {}))],
            [('expr', ('call', 'unset_variable', [('str', 'v')], {}))],
            [('assign', 'v', ('arr', [i0])), ('expr', ('call', 'set_variable', [('str', 'w'), ('var', 'v')], {})), ('pluseq', 'v', i0), ('assign', 'n', ('meth', ('var', 'w'), 'length', [], {}))],
        ]
        differential(progs[k], P)
    return h


def ref_decode(body):
    """escape decoding of a '...' literal: \\\\ \\' \\n \\t \\a \\b \\f \\r \\v, octal, \\xHH; anything else stays as written"""
    from symx.values import unicode_escape_decode
    cs = chars_of(body); out = []; i = 0; n = len(cs)
    while i < n:
        if decide(ceq(cs[i], 92)) and i + 1 < n:
            d = cs[i + 1]
            if decide(c_in(d, "\\'abfnrtv")):
                out.extend(chars_of(unicode_escape_decode(mkstr(cs[i:i + 2])))); i += 2; continue
            if decide(cin_range(d, 48, 55)):
                j = i + 1
                while j < n and j < i + 4 and decide(cin_range(cs[j], 48, 55)): j += 1
                out.extend(chars_of(unicode_escape_decode(mkstr(cs[i:j])))); i = j; continue
        out.append(cs[i]); i += 1
    return mkstr(out)


def ob_literals(n):
    """string literal bodies in the program TEXT are symbolic: escapes are decoded in '...' / f'...' and not in '''...''' / f'''...'''"""
    def h():
        body = sym_str(n, 'body', 32, 126)        # every printable ASCII character: only the escapes Syntax.md lists are decoded, "unrecognized escape sequences are left in the string unchanged"
        multi = choose(2, 'triple')
        fp = ['', 'f'][choose(2, 'fstring')]       # an f-string without @name@ denotes the same string: the prefix must not change escape handling
        if fp:
            # ... and WITH an @identifier@ in the body it is a placeholder: no variable is defined here, so the reference says error (body length >= 3 only)
            cs = chars_of(body)
            isw = lambda c, first: decide(cin_range(c, 97, 122)) or decide(cin_range(c, 65, 90)) or decide(ceq(c, 95)) or (not first and decide(cin_range(c, 48, 57)))
            for i in range(len(cs)):
                if not decide(ceq(cs[i], 64)): continue
                j = i + 1
                while j < len(cs) and isw(cs[j], j == i + 1): j += 1
                if j > i + 1 and j < len(cs) and decide(ceq(cs[j], 64)):
                    q = "'''" if multi else "'"
                    if not multi:         # only when the text is one literal at all (no quote, no trailing backslash before the closing quote)
                        k2 = 0; lit = True
                        while k2 < len(cs):
                            if decide(ceq(cs[k2], 92)):
                                if k2 + 1 >= len(cs): lit = False; break
                                k2 += 2; continue
                            if decide(ceq(cs[k2], 39)): lit = False; break
                            k2 += 1
                        if not lit: cover('not-one-literal'); return
                    elif any(decide(ceq(c, 39)) for c in cs): cover('quote-in-triple'); return
                    try:
                        run_real("x = f" + q + body + q + "\n", {})
                        check(False, 'an f-string naming an undefined variable is an error')
                    except ME:
                        cover('placeholder')
                    return
        if multi:
            if "'''" in body if isinstance(body, str) else False: return
            text = "x = " + fp + "'''" + body + "'''\n"
            # the body must not contain the terminator and must not end with a quote
            cs = chars_of(body)
            for i in range(len(cs)):
                if decide(ceq(cs[i], 39)): cover('quote-in-triple'); return
            differential([('assign', 'x', ('mstr', body))], {}, text=text)
        else:
            text = "x = " + fp + "'" + body + "'\n"
            cs = chars_of(body); i = 0; ok = True
            while i < len(cs):          # the reference lexer: a quote ends the literal unless escaped; a trailing backslash escapes the closing quote
                if decide(ceq(cs[i], 92)):
                    if i + 1 >= len(cs): ok = False; break
                    i += 2; continue
                if decide(ceq(cs[i], 39)): ok = False; break
                i += 1
            if not ok: cover('not-one-literal'); return
            differential([('assign', 'x', ('str', ref_decode(body)))], {}, text=text)
    return h


def ob_rejections():
    """forms the language reference rejects: chained comparison, stacked unary operators, a ternary inside a ternary"""
    def h():
        P = {'I0': sym_int('I0'), 'I1': sym_int('I1'), 'B0': sym_bool('B0')}
        texts = ['x = I0 < I1 < 3\n', 'x = I0 == I1 == B0\n', 'x = not not B0\n', 'x = - - I0\n', 'x = B0 ? (B0 ? 1 : 2) : 3\n', 'x = B0 ? 1 : B0 ? 2 : 3\n', 'x = I0 +\n', 'x = (I0\n']
        t = texts[choose(len(texts), 'form')]
        try:
            run_real(t, P)
            check(False, 'a form the language reference forbids is rejected')
        except ME:
            cover('rejected')
    return h


def obligations(tier):
    out = [Obligation('arith-pairs', ob_arith_pairs(), dict(form='I0 op1 I1 op2 I2, both groupings, minimal parentheses', ops=ARITH), labels=('value', 'error'), max_paths=5000000),
           Obligation('unary-pairs', ob_unary_pairs(), dict(form='unary minus against binary operators', ops=ARITH), labels=('value',), max_paths=5000000),
           Obligation('logic-pairs', ob_logic_pairs(), dict(form='x op1 y op2 z over and/or/not/comparisons; operands include one whose evaluation is an error (short circuit) and a non-boolean'),
                      labels=('value', 'error'), max_paths=5000000),
           Obligation('comparison-vs-arithmetic', ob_cmp_arith(), dict(form='comparison with arithmetic operands, comparison of a comparison, ternary'), labels=('value',), max_paths=5000000)]
    for op in ALLBIN:
        out.append(Obligation('types[%s]' % op, ob_types(op), dict(operator=op, operand_types='all 5x5 pairs of int, bool, str, array, dict'), labels=('error', 'value'), max_paths=5000000, classify=classify_types))
    out.append(Obligation('expr[int,depth 2]', ob_expr(2, 1 if tier == 'quick' else 2, 'int'), dict(depth=2, fragment='+ - * / % unary- ternary over comparisons / and / or / not', leaves=1 if tier == 'quick' else 2),
                          labels=('value', 'error'), max_paths=20000000))
    out.append(Obligation('expr[bool,depth 2]', ob_expr(2, 1 if tier == 'quick' else 2, 'bool'), dict(depth=2, fragment='and or not == != < <= > >= over arithmetic', leaves=1 if tier == 'quick' else 2),
                          labels=('value', 'error'), max_paths=20000000))
    if tier != 'quick':
        pass
        # expr[int,depth 3] is > 2*10^6 paths (stopped after 35 min at 2.06 million): measured, not part of the registered tiers
        # expr[bool,depth 3] likewise: > 2.1*10^6 paths after 40 min (stopped)
    out.append(Obligation('containers', ob_containers(), dict(programs=9), labels=('value', 'error'), max_paths=5000000))
    out.append(Obligation('unary-types', ob_unary_types(), dict(forms='not, unary minus, if, ternary condition on all 5 types'), labels=('value', 'error')))
    out.append(Obligation('arrays', ob_arrays(), dict(programs=12), labels=('value', 'error'), max_paths=5000000))
    out.append(Obligation('dicts', ob_dicts(), dict(programs=9), labels=('value', 'error'), max_paths=5000000))
    out.append(Obligation('strings', ob_strings(), dict(programs=19, strings='S0, S2 0-2 chars, S1 1 char over {a,B,space,_}; S3 0-2 chars over {a,Z,9,space,_,-,e-acute,superscript two,feminine ordinal}'), labels=('value', 'error'), max_paths=5000000))
    out.append(Obligation('numbers', ob_numbers(), dict(programs=6), labels=('value', 'error'), max_paths=5000000))
    out.append(Obligation('control-flow', ob_control(), dict(programs=7), labels=('value', 'error'), max_paths=5000000))
    out.append(Obligation('variables', ob_variables(), dict(programs=6), labels=('value', 'error'), max_paths=5000000))
    for n in (1, 2, 3):
        out.append(Obligation('literals[%d]' % n, ob_literals(n), dict(body_len=n, alphabet='printable ASCII 32..126', kinds="'...' f'...' '''...''' f'''...'''"), labels=('value',), optional_labels=('placeholder', 'not-one-literal', 'quote-in-triple'), max_paths=5000000))
    out.append(Obligation('subdir-subproject', ob_subdir_subproject(), dict(programs=7, files='written to the scratch source tree per path (one directory per worker)', values='symbolic'), labels=('value', 'error')))
    out.append(Obligation('rejections', ob_rejections(), dict(forms=8), labels=('rejected',)))
    return out
