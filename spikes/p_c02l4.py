import sys, time
sys.path.insert(0, __import__('os').path.dirname(__import__('os').path.abspath(__file__))); sys.path.insert(0, '/repo')
from sx import instr, core
from sx.values import *
from sx.core import choose, check, cover
instr.install()
from mesonbuild import mparser, mlog
from mesonbuild.mesonlib import MesonException
import z3
mlog.warning = lambda *a, **k: None
import p_c02
lo, hi = int(sys.argv[1]), int(sys.argv[2]); n = int(sys.argv[3])
def h():
    text = sym_str(n, 'c', 1, 126)
    core.assume(mkbool(z3.And(text.c[0] >= lo, text.c[0] <= hi)))
    try:
        toks = list(mparser.Lexer(text).lex('f'))
    except mparser.ParseException as e:
        cover('reject'); return
    except (core.PathAbort, core.Unsupported): raise
    except Exception as e:
        check(False, 'internal %s' % type(e).__name__); return
    pos = 0
    for t in toks:
        check(t.bytespan[0] == pos, 'contiguous'); pos = t.bytespan[1]
    check(pos == n, 'covers')
    # then the parser on the same text: only ParseException may escape
    try:
        mparser.Parser(text, 'f').parse()
    except mparser.ParseException: pass
    except (core.PathAbort, core.Unsupported): raise
    except Exception as e:
        check(False, 'parser internal %s: %s' % (type(e).__name__, e))
    cover('accept')
st = core.explore(h, max_paths=400000)
print(lo, hi, n, 'paths', st['paths'], 'viol', len(st['violations']), 'errors', len(st['errors']), st['labels'], 'time %.1f' % st['time'], st.get('truncated'), flush=True)
errs = {}
for e in st['errors']: errs[e[1]] = errs.get(e[1], 0) + 1
print('  errors', errs)
seen = set()
for v in st['violations']:
    if v[0] in seen: continue
    seen.add(v[0]); print('   V', v[0], str(v[1]).replace('\n', ' ')[:200])
