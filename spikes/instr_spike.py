"""Spike: import-time AST instrumentation of mesonbuild modules with pass-through shims;
run the repo's own unit tests on the instrumented code to see that the transform is
semantics-preserving on concrete values, and measure the slowdown."""
import ast, sys, importlib.abc, importlib.machinery, importlib.util, builtins, time, os

TARGET_PREFIXES = ('mesonbuild.',)
WRAP_CALLS = {'isinstance', 'len', 'int', 'str', 'bool', 'max', 'min', 'sorted', 'any', 'all', 'hash', 'repr', 'type', 'set', 'frozenset', 'dict', 'list', 'tuple', 'enumerate', 'zip', 'reversed', 'range', 'sum', 'abs', 'ord', 'chr'}
COUNTS = {}

def _sx_call(name, /, *a, **k):
    COUNTS[name] = COUNTS.get(name, 0) + 1
    return getattr(builtins, name)(*a, **k)

def _sx_in(x, c):
    COUNTS['in'] = COUNTS.get('in', 0) + 1
    return x in c

def _sx_fstr(*parts):
    COUNTS['fstr'] = COUNTS.get('fstr', 0) + 1
    return ''.join(parts)

def _sx_fmt(v, conv, spec):
    if conv == 115: v = str(v)
    elif conv == 114: v = repr(v)
    elif conv == 97: v = ascii(v)
    return format(v, spec)

def _sx_mod(a, b):
    COUNTS['mod'] = COUNTS.get('mod', 0) + 1
    return a % b

def _sx_meth(recv, name, /, *a, **k):
    COUNTS['meth'] = COUNTS.get('meth', 0) + 1
    return getattr(recv, name)(*a, **k)

class T(ast.NodeTransformer):
    def __init__(self):
        self.cls = []
    def visit_ClassDef(self, node):
        self.cls.append(node.name)
        self.generic_visit(node)
        self.cls.pop()
        return node
    def mangle(self, attr):
        if self.cls and attr.startswith('__') and not attr.endswith('__'):
            return '_' + self.cls[-1].lstrip('_') + attr
        return attr
    def visit_Call(self, node):
        self.generic_visit(node)
        if isinstance(node.func, ast.Name) and node.func.id in WRAP_CALLS and not any(isinstance(a, ast.Starred) for a in node.args) :
            return ast.copy_location(ast.Call(ast.Name('sx__call', ast.Load()), [ast.Constant(node.func.id)] + node.args, node.keywords), node)
        if isinstance(node.func, ast.Attribute) and isinstance(node.func.ctx, ast.Load) and not (isinstance(node.func.value, ast.Call) and isinstance(node.func.value.func, ast.Name) and node.func.value.func.id == 'super'):
            return ast.copy_location(ast.Call(ast.Name('sx__meth', ast.Load()), [node.func.value, ast.Constant(self.mangle(node.func.attr))] + node.args, node.keywords), node)
        return node
    def visit_Compare(self, node):
        self.generic_visit(node)
        if len(node.ops) == 1 and isinstance(node.ops[0], (ast.In, ast.NotIn)):
            call = ast.Call(ast.Name('sx__in', ast.Load()), [node.left, node.comparators[0]], [])
            if isinstance(node.ops[0], ast.NotIn):
                call = ast.UnaryOp(ast.Not(), call)
            return ast.copy_location(call, node)
        return node
    def visit_JoinedStr(self, node):
        self.generic_visit(node)
        parts = []
        for v in node.values:
            if isinstance(v, ast.Constant):
                parts.append(v)
            else:
                spec = v.format_spec if v.format_spec is not None else ast.Constant('')
                if isinstance(spec, ast.JoinedStr) and all(isinstance(x, ast.Constant) for x in spec.values):
                    spec = ast.Constant(''.join(x.value for x in spec.values))
                parts.append(ast.Call(ast.Name('sx__fmt', ast.Load()), [v.value, ast.Constant(v.conversion), spec], []))
        return ast.copy_location(ast.Call(ast.Name('sx__fstr', ast.Load()), parts, []), node)
    def visit_BinOp(self, node):
        self.generic_visit(node)
        if isinstance(node.op, ast.Mod) and isinstance(node.left, ast.Constant) and isinstance(node.left.value, str):
            return ast.copy_location(ast.Call(ast.Name('sx__mod', ast.Load()), [node.left, node.right], []), node)
        return node

class Loader(importlib.machinery.SourceFileLoader):
    def source_to_code(self, data, path, *, _optimize=-1):
        tree = ast.parse(data, path)
        tree = T().visit(tree)
        ast.fix_missing_locations(tree)
        return compile(tree, path, 'exec', dont_inherit=True, optimize=_optimize)
    def get_code(self, fullname):
        # bypass the bytecode cache
        path = self.get_filename(fullname)
        return self.source_to_code(self.get_data(path), path)
    def exec_module(self, module):
        module.__dict__['sx__call'] = _sx_call
        module.__dict__['sx__in'] = _sx_in
        module.__dict__['sx__fstr'] = _sx_fstr
        module.__dict__['sx__fmt'] = _sx_fmt
        module.__dict__['sx__mod'] = _sx_mod
        module.__dict__['sx__meth'] = _sx_meth
        super().exec_module(module)

class Finder(importlib.abc.MetaPathFinder):
    def find_spec(self, fullname, path, target=None):
        if not (fullname == 'mesonbuild' or fullname.startswith(TARGET_PREFIXES)):
            return None
        spec = importlib.machinery.PathFinder.find_spec(fullname, path)
        if spec is None or not isinstance(spec.loader, importlib.machinery.SourceFileLoader):
            return spec
        spec.loader = Loader(spec.loader.name, spec.loader.path)
        return spec

if __name__ == '__main__':
    if os.environ.get('INSTR', '1') == '1':
        sys.meta_path.insert(0, Finder())
    sys.path.insert(0, '/repo')
    os.chdir('/repo')
    import unittest
    t0 = time.time()
    suite = unittest.defaultTestLoader.loadTestsFromNames(['unittests.versiontests', 'unittests.cargotests', 'unittests.taptests', 'unittests.optiontests'])
    r = unittest.TextTestRunner(verbosity=0).run(suite)
    print('ran', r.testsRun, 'fail', len(r.failures), 'err', len(r.errors), 'time %.2f' % (time.time() - t0))
    print(sorted(COUNTS.items()))
