"""Feasibility spike: shape-concrete / content-symbolic dynamic symbolic execution.
Not framework code -- only measures whether the approach reaches 'all paths explored'
on Version tokenisation + comparison within seconds."""
import sys, time, re
sys.path.insert(0, '/repo')
import z3

class Unsupported(Exception):
    pass

class Ctx:
    def __init__(self):
        self.solver = z3.Solver()
        self.prefix = []
        self.pos = 0
        self.trail = []
        self.pending = []
        self.nchecks = 0
        self.fresh = 0

CTX = None

def branch(cond):
    c = CTX
    if z3.is_true(cond):
        return True
    if z3.is_false(cond):
        return False
    if c.pos < len(c.prefix):
        take = c.prefix[c.pos]
    else:
        c.solver.push(); c.solver.add(cond); c.nchecks += 1
        ft = c.solver.check() == z3.sat
        c.solver.pop()
        c.solver.push(); c.solver.add(z3.Not(cond)); c.nchecks += 1
        ff = c.solver.check() == z3.sat
        c.solver.pop()
        if ft and ff:
            take = True
            c.pending.append(c.trail + [False])
        elif ft:
            take = True
        elif ff:
            take = False
        else:
            raise RuntimeError('infeasible path')
    c.pos += 1
    c.trail.append(take)
    c.solver.add(cond if take else z3.Not(cond))
    return take

class SymBool:
    def __init__(self, t): self.t = t
    def __bool__(self): return branch(self.t)

def B(x):
    return x.t if isinstance(x, SymBool) else z3.BoolVal(bool(x))

class SymInt:
    def __init__(self, t): self.t = t
    def _o(self, o):
        if isinstance(o, SymInt): return o.t
        if isinstance(o, bool): return z3.IntVal(int(o))
        if isinstance(o, int): return z3.IntVal(o)
        return None
    def __eq__(self, o):
        t = self._o(o)
        return False if t is None else SymBool(self.t == t)
    def __ne__(self, o):
        t = self._o(o)
        return True if t is None else SymBool(self.t != t)
    def __lt__(self, o): return SymBool(self.t < self._o(o))
    def __le__(self, o): return SymBool(self.t <= self._o(o))
    def __gt__(self, o): return SymBool(self.t > self._o(o))
    def __ge__(self, o): return SymBool(self.t >= self._o(o))
    def __add__(self, o): return SymInt(self.t + self._o(o))
    __radd__ = __add__
    def __mul__(self, o): return SymInt(self.t * self._o(o))
    __rmul__ = __mul__
    def __hash__(self): raise Unsupported('hash(SymInt)')

class SymStr:
    """concrete length, symbolic chars (z3 Int code points)"""
    def __init__(self, chars): self.c = list(chars)
    def __len__(self): return len(self.c)
    def _cs(self, o):
        if isinstance(o, SymStr): return o.c
        if isinstance(o, str): return [z3.IntVal(ord(ch)) for ch in o]
        return None
    def __eq__(self, o):
        oc = self._cs(o)
        if oc is None or len(oc) != len(self.c): return False
        return SymBool(z3.And([a == b for a, b in zip(self.c, oc)]) if self.c else z3.BoolVal(True))
    def __ne__(self, o):
        r = self.__eq__(o)
        return (not r) if isinstance(r, bool) else SymBool(z3.Not(r.t))
    def _lt(self, oc, strict_on_prefix):
        # lexicographic
        a, b = self.c, oc
        n = min(len(a), len(b))
        res = z3.BoolVal(len(a) < len(b)) if strict_on_prefix else z3.BoolVal(len(a) <= len(b))
        for i in reversed(range(n)):
            res = z3.If(a[i] < b[i], True, z3.If(a[i] > b[i], False, res))
        return SymBool(z3.simplify(res))
    def __lt__(self, o): return self._lt(self._cs(o), True)
    def __le__(self, o): return self._lt(self._cs(o), False)
    def __gt__(self, o): return SymStr(self._cs(o)).__lt__(self)
    def __ge__(self, o): return SymStr(self._cs(o)).__le__(self)
    def __getitem__(self, i):
        if isinstance(i, slice): return SymStr(self.c[i])
        return SymStr([self.c[i]])
    def __hash__(self): raise Unsupported('hash(SymStr)')
    def __repr__(self): return 'SymStr(%d)' % len(self.c)

# --- symbolic regex: priority-ordered backtracking over sre parse tree, concrete positions
import re._parser as sre_parse
import re._constants as sc

def cat_pred(cat, ch):
    if cat == sc.CATEGORY_DIGIT:
        return z3.And(ch >= 48, ch <= 57)   # ASCII only: stated assumption of the spike
    raise Unsupported(str(cat))

def in_pred(items, ch):
    neg = False
    alts = []
    for op, av in items:
        if op == sc.NEGATE: neg = True
        elif op == sc.LITERAL: alts.append(ch == av)
        elif op == sc.RANGE: alts.append(z3.And(ch >= av[0], ch <= av[1]))
        elif op == sc.CATEGORY: alts.append(cat_pred(av, ch))
        else: raise Unsupported(str(op))
    p = z3.Or(alts) if alts else z3.BoolVal(False)
    return z3.Not(p) if neg else p

def m_seq(nodes, idx, s, pos, groups, k):
    """CPS matcher; explores alternatives in Python priority order, forking via branch()."""
    if idx == len(nodes):
        return k(pos, groups)
    op, av = nodes[idx]
    rest = lambda p, g: m_seq(nodes, idx + 1, s, p, g, k)
    if op == sc.LITERAL:
        if pos < len(s.c) and branch(s.c[pos] == av): return rest(pos + 1, groups)
        return None
    if op == sc.IN:
        if pos < len(s.c) and branch(in_pred(av, s.c[pos])): return rest(pos + 1, groups)
        return None
    if op == sc.SUBPATTERN:
        gid, _, _, sub = av
        start = pos
        def k2(p, g):
            g2 = dict(g); g2[gid] = (start, p)
            return rest(p, g2)
        return m_seq(list(sub), 0, s, pos, groups, k2)
    if op == sc.BRANCH:
        for alt in av[1]:
            r = m_seq(list(alt), 0, s, pos, groups, rest)
            if r is not None: return r
        return None
    if op == sc.MAX_REPEAT:
        lo, hi, sub = av
        sub = list(sub)
        def rep(count, p, g):
            # greedy: try one more first
            if count < hi:
                def k3(p2, g2):
                    if p2 == p: return None
                    return rep(count + 1, p2, g2)
                r = m_seq(sub, 0, s, p, g, k3)
                if r is not None: return r
            if count >= lo: return rest(p, g)
            return None
        return rep(0, pos, groups)
    raise Unsupported(str(op))

class SymPattern:
    def __init__(self, pat):
        self.pat = pat
        self.tree = list(sre_parse.parse(pat.pattern, pat.flags))
    def match_at(self, s, pos):
        return m_seq(self.tree, 0, s, pos, {}, lambda p, g: (p, g))
    def finditer(self, s):
        if isinstance(s, str):
            yield from self.pat.finditer(s); return
        pos = 0
        while pos <= len(s):
            r = self.match_at(s, pos)
            if r is None:
                pos += 1; continue
            end, g = r
            yield SymMatch(s, pos, end, g)
            pos = end if end > pos else pos + 1

class SymMatch:
    def __init__(self, s, st, en, g): self.s, self.st, self.en, self.g = s, st, en, g
    def group(self, i=0):
        if i == 0: return self.s[self.st:self.en]
        if i not in self.g: return None
        a, b = self.g[i]
        return self.s[a:b]

def sym_int(x):
    if isinstance(x, SymStr):
        # decimal digits, ASCII; value = sum d_i * 10^k
        t = z3.IntVal(0)
        for ch in x.c:
            t = t * 10 + (ch - 48)
        return SymInt(z3.simplify(t))
    return int(x)

class IntShimMeta(type):
    def __instancecheck__(cls, o): return isinstance(o, SymInt) or type.__instancecheck__(int.__class__, o) or int.__instancecheck__(o) if False else (isinstance(o, SymInt) or o.__class__ is int or o.__class__ is bool)
    def __call__(cls, x=0, *a): return sym_int(x)
class IntShim(metaclass=IntShimMeta): pass

# --- instrument the module under test (spike: plain globals injection)
import mesonbuild.utils.universal as U
U._VERSION_TOK_RE = SymPattern(U._VERSION_TOK_RE)
U.int = IntShim
from mesonbuild.utils.universal import Version

def fresh_str(n, name):
    chars = [z3.Int('%s_%d' % (name, i)) for i in range(n)]
    for ch in chars:
        CTX.solver.add(ch >= 32, ch <= 126)
    return SymStr(chars)

def explore(harness, timeout=600):
    global CTX
    work = [[]]
    npaths = 0; nchecks = 0; viol = []
    t0 = time.time()
    while work:
        prefix = work.pop()
        CTX = Ctx(); CTX.prefix = prefix
        res = harness()
        npaths += 1; nchecks += CTX.nchecks
        work.extend(CTX.pending)
        if res is not None:
            # res: z3 bool that must hold
            CTX.solver.push(); CTX.solver.add(z3.Not(res)); nchecks += 1
            if CTX.solver.check() == z3.sat:
                viol.append(CTX.solver.model())
            CTX.solver.pop()
    return npaths, nchecks, viol, time.time() - t0

def truth(x):
    """force a python bool/SymBool into a z3 term without forking"""
    return x.t if isinstance(x, SymBool) else z3.BoolVal(bool(x))

def mk_harness(la, lb):
    def h():
        a = fresh_str(la, 'a'); b = fresh_str(lb, 'b')
        A, B_ = Version(a), Version(b)
        lt, eq, gt = bool(A < B_), bool(A == B_), bool(A > B_)
        le, ge = bool(A <= B_), bool(A >= B_)
        ok = (int(lt) + int(eq) + int(gt) == 1) and le == (lt or eq) and ge == (gt or eq) and lt == bool(B_ > A)
        return z3.BoolVal(ok)
    return h

if __name__ == '__main__':
    tot = 0
    for la in range(0, 5):
        for lb in range(0, 5):
            n, c, v, t = explore(mk_harness(la, lb))
            tot += n
            print(la, lb, 'paths', n, 'checks', c, 'viol', len(v), '%.2fs' % t, flush=True)
    print('total paths', tot)
