import sys, time
sys.path.insert(0, __import__('os').path.dirname(__import__('os').path.abspath(__file__))); sys.path.insert(0, '/repo')
from sx import instr, core
from sx.values import *
from sx.core import choose, check, cover
instr.install()
from mesonbuild.cargo.version import SemVer
import z3

ALPHA = '019a-'
def ident(name):
    """one pre-release identifier: 1-2 chars over digits/letters/hyphen"""
    n = 1 + choose(2, 'ilen')
    return sym_str(n, name, alphabet=ALPHA)

def mkver(tag):
    comps = [sym_str(1, tag + 'n', alphabet='019') for _ in range(3)]
    s = comps[0] + '.' + comps[1] + '.' + comps[2]
    npre = choose(3, 'npre')
    pre = []
    for i in range(npre):
        pre.append(ident(tag + 'p'))
    if pre:
        s = s + '-' + pre[0]
        for p in pre[1:]: s = s + '.' + p
    return s, comps, pre

def isnum(idn):
    return bool(idn.isdigit()) if isinstance(idn, (str, SymStr)) else False

def ref_cmp(a, b):
    """SemVer section 11 on (comps, pre); returns -1/0/1 (forks as needed)"""
    (_, ca, pa), (_, cb, pb) = a, b
    for x, y in zip(ca, cb):
        xi, yi = sym_int_of_str(x), sym_int_of_str(y)
        if bool(xi < yi): return -1
        if bool(xi > yi): return 1
    if not pa and not pb: return 0
    if not pa: return 1
    if not pb: return -1
    for x, y in zip(pa, pb):
        nx, ny = isnum(x), isnum(y)
        if nx and ny:
            xi, yi = sym_int_of_str(x), sym_int_of_str(y)
            if bool(xi < yi): return -1
            if bool(xi > yi): return 1
        elif nx: return -1
        elif ny: return 1
        else:
            if bool(x < y): return -1
            if bool(x > y): return 1
    return (len(pa) > len(pb)) - (len(pa) < len(pb))

def harness():
    a = mkver('a'); b = mkver('b')
    # identifiers must be valid: non-empty, and numeric ones without leading zeros are not required here
    A, B = SemVer(a[0]), SemVer(b[0])
    got = -1 if bool(A < B) else (1 if bool(A > B) else 0)
    exp = ref_cmp(a, b)
    check(got == exp, 'order a=%r b=%r' % (len(a[2]), len(b[2])))
    cover('done')

if __name__ == '__main__':
    st = core.explore(harness, max_paths=40000)
    print('paths', st['paths'], 'viol', len(st['violations']), 'errors', len(st['errors']), st['labels'], 'time %.1f' % st['time'], st.get('truncated'))
    for e in st['errors'][:3]: print('   ', e[:2])
    import collections
    shown = 0
    for v in st['violations']:
        m = v[1]
        def s(prefix):
            ds = sorted([d for d in m.decls() if d.name().startswith(prefix)], key=lambda d: int(d.name().split('!')[1]))
            return ''.join(chr(m[d].as_long()) for d in ds)
        print('   V', v[0], 'a: comps', s('an'), 'pre', repr(s('ap')), '| b: comps', s('bn'), 'pre', repr(s('bp')))
        shown += 1
        if shown >= 12: break
