"""module-level (and class-level) containers of the code under test are reset before every path / native replay: a cache filled on one path must not leak into the next"""
import sys


_GLOBAL_SNAPSHOT = []


def snapshot_module_globals(prefixes=('mesonbuild',)):
    """remember the contents of every module-level dict / list / set of the code under test, so that each path starts from the
    same module state (a cache filled on one path must not leak into the next: re-execution would diverge)"""
    import types as _t
    del _GLOBAL_SNAPSHOT[:]
    for name, mod in list(sys.modules.items()):
        if mod is None or not name.startswith(prefixes): continue
        for k, v in list(vars(mod).items()):
            if isinstance(v, type) and getattr(v, '__module__', None) == name:
                # class-level containers too (a memo kept on the class is module state under another name)
                for ck, cv in list(vars(v).items()):
                    f = getattr(cv, '__func__', cv)
                    if isinstance(f, _t.FunctionType): _snap_defaults(f)
                    if not ck.startswith('__') and type(cv) in (dict, list, set):
                        try:
                            _GLOBAL_SNAPSHOT.append((cv, type(cv)(cv)))
                        except Exception:
                            pass
                continue
            if isinstance(v, _t.FunctionType) and getattr(v, '__module__', None) == name:
                _snap_defaults(v)
            if k.startswith('__') or isinstance(v, (_t.ModuleType, type, _t.FunctionType)): continue
            if type(v) in (dict, list, set):
                try:
                    _GLOBAL_SNAPSHOT.append((v, type(v)(v)))
                except Exception:
                    pass


def _snap_defaults(fn):
    """a mutable default argument is state that outlives the call - module state under yet another name"""
    f = getattr(fn, '__wrapped__', fn)
    for d in list(getattr(f, '__defaults__', None) or ()) + list((getattr(f, '__kwdefaults__', None) or {}).values()):
        if type(d) in (dict, list, set):
            try: _GLOBAL_SNAPSHOT.append((d, type(d)(d)))
            except Exception: pass
        elif type(d).__name__ == 'SymSet' and type(getattr(d, '_items', None)) is list:      # `set()` written in instrumented code
            _GLOBAL_SNAPSHOT.append((d._items, list(d._items)))


def restore_module_globals():
    try:
        from .instr import clear_memos
        if 'symx.instr' in sys.modules: clear_memos()
    except Exception:
        pass
    for obj, saved in _GLOBAL_SNAPSHOT:
        try:
            if type(obj) is dict:
                if len(obj) != len(saved) or any(obj[k] is not saved.get(k, obj) for k in obj): obj.clear(); obj.update(saved)
            elif type(obj) is list:
                if len(obj) != len(saved) or any(a is not b for a, b in zip(obj, saved)): obj[:] = saved
            else:
                if len(obj) != len(saved): obj.clear(); obj.update(saved)
        except Exception:
            pass
