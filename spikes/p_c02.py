import sys, time
sys.path.insert(0, __import__('os').path.dirname(__import__('os').path.abspath(__file__))); sys.path.insert(0, '/repo')
from sx import instr, core
from sx.values import *
from sx.core import choose, check, cover, branch
instr.install()
from mesonbuild import mparser, mlog
from mesonbuild.mparser import Parser, Token, ParseException
from mesonbuild.ast.printer import RawPrinter
from mesonbuild.mesonlib import MesonException
import z3

KINDS = ['id', 'number', 'string', 'fstring', 'multiline_string', 'multiline_fstring',
         'true', 'false', 'if', 'else', 'elif', 'endif', 'and', 'or', 'not', 'foreach', 'endforeach', 'in', 'continue', 'break',
         'eol', 'whitespace', 'comment',
         'lparen', 'rparen', 'lbracket', 'rbracket', 'lcurl', 'rcurl', 'comma', 'dot', 'plus', 'dash', 'star', 'percent',
         'fslash', 'colon', 'assign', 'lt', 'gt', 'questionmark', 'plusassign', 'equal', 'nequal', 'le', 'ge']

class SymEnum:
    def __init__(self, names, name='k'):
        self.names = names
        self.v = z3.Int(core.fresh_name(name))
        core.ctx().solver.add(self.v >= 0, self.v < len(names))
    def _is(self, pred):
        idx = [i for i, n in enumerate(self.names) if pred(n)]
        if not idx: return False
        if len(idx) == len(self.names): return True
        return mkbool(z3.Or([self.v == i for i in idx]))
    def __eq__(self, o):
        if isinstance(o, str): return self._is(lambda n: n == o)
        if isinstance(o, SymEnum): return mkbool(self.v == o.v) if o.names is self.names else NotImplemented
        return False
    def __ne__(self, o): return sym_not(self.__eq__(o))
    def __hash__(self): raise core.Unsupported('hash(SymEnum)')
    def __bool__(self): return True
    def __sx_in__(self, c):
        if isinstance(c, (str, SymStr)): raise core.Unsupported('enum in str')
        keys = set(c)
        return bool(self._is(lambda n: n in keys))
    def __sx_contains__(self, sub):   # 'multiline' in tid
        return bool(self._is(lambda n: sub in n))
    def __sx_key__(self, mapping):
        for k in mapping:
            if bool(self == k): return mapping[k]
        raise KeyError(self)
    def __sx_fmt__(self, conv, spec): return '<tid>'
    def __str__(self): return '<tid>'
    def concretize(self):
        for i, n in enumerate(self.names):
            if branch(self.v == i): return n

class Rope:
    def __init__(self, parts): self.parts = parts
    @staticmethod
    def of(x):
        if isinstance(x, Rope): return x.parts
        if isinstance(x, str): return [x] if x else []
        if isinstance(x, Atom): return [x]
        raise TypeError(type(x))
    def __add__(self, o): return Rope(Rope.of(self) + Rope.of(o))
    def __radd__(self, o): return Rope(Rope.of(o) + Rope.of(self))
    def __sx_fmt__(self, conv, spec): return self
    def __sx_isinstance__(self, T): return T is str or isinstance(self, T)
    def __sx_contains__(self, sub): raise core.Unsupported('substring of rope')
    def norm(self):
        out = []
        for p in self.parts:
            if isinstance(p, str) and out and isinstance(out[-1], str): out[-1] += p
            else: out.append(p)
        return out

class Atom(Rope):
    def __init__(self, name): self.name = name; self.parts = [self]
    def __repr__(self): return '<%s>' % self.name
    def __sx_int__(self, base): return sym_int('num_' + self.name)
    def __sx_resub__(self, pat, repl): return Atom('esc(%s)' % self.name)
    def __deepcopy__(self, m): return self

class FakeLexer:
    in_unit_test = False
    def getline(self, ls): return ''

def stub_exc():
    def pe_init(self, text, line, lineno, colno):
        MesonException.__init__(self, 'parse error')
        self.lineno = lineno; self.colno = colno
    def bpe_init(self, text, line, lineno, colno, start_line, start_lineno, start_colno):
        MesonException.__init__(self, 'block parse error')
        self.lineno = lineno; self.colno = colno
    mparser.ParseException.__init__ = pe_init
    mparser.BlockParseException.__init__ = bpe_init
stub_exc()

def harness(n):
    def h():
        toks = []
        for i in range(n):
            k = SymEnum(KINDS, 'k%d' % i)
            toks.append(Token(k, 'f', 0, sym_int('ln%d' % i, 1), sym_int('col%d' % i, 0), (sym_int('bs%d' % i, 0), sym_int('be%d' % i, 0)), Atom('t%d' % i)))
        WORD = {'id', 'true', 'false', 'if', 'else', 'elif', 'endif', 'and', 'or', 'not', 'foreach', 'endforeach', 'in', 'continue', 'break'}
        for a, b in zip(toks, toks[1:]):
            wa = a.tid._is(lambda nm: nm in WORD or nm == 'number'); wb = b.tid._is(lambda nm: nm in WORD or nm == 'number')
            core.assume(sym_not(wa & wb) if not isinstance(wa, bool) or not isinstance(wb, bool) else not (wa and wb))
        p = object.__new__(Parser)
        p.lexer = FakeLexer()
        p.stream = iter(toks)
        p.current = Token('eof', '', 0, 0, 0, (0, 0), None)
        p.previous = p.current
        p.current_ws = []
        p.in_ternary = False
        p.getsym()
        try:
            ast = p.parse()
        except ParseException:
            cover('reject'); return
        cover('accept')
        pr = RawPrinter()
        ast.accept(pr)
        res = pr.result
        parts = Rope.of(res) if not isinstance(res, str) else ([res] if res else [])
        atoms = [x for x in parts if isinstance(x, Atom)]
        # every token must appear exactly once in order unless it is a fixed-text kind
        names = [a.name for a in atoms]
        exp = []
        for i, t in enumerate(toks):
            fixed = t.tid._is(lambda nm: nm in ('true', 'false', 'continue', 'break'))
            if bool(fixed): continue
            exp.append('t%d' % i)
        check(names == exp, 'lossless %r vs %r' % (names, exp))
    return h

if __name__ == '__main__':
    for n in (1, 2, 3, 4):
        st = core.explore(harness(n), max_paths=40000)
        print(n, 'paths', st['paths'], 'checks', st['checks'], 'viol', len(st['violations']), 'errors', len(st['errors']), st['labels'], 'time %.1f' % st['time'], st.get('truncated'), flush=True)
        for e in st['errors'][:3]: print('   ', e[:2])
        for v in st['violations'][:3]: print('   V', v[0], [ (d.name(), v[1][d]) for d in v[1].decls() if d.name().startswith('k')])
