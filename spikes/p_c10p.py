import sys, time, types
sys.path.insert(0, __import__('os').path.dirname(__import__('os').path.abspath(__file__))); sys.path.insert(0, '/repo')
from sx import instr, core
from sx.values import *
from sx.core import choose, check, cover
instr.install()
from mesonbuild import mlog, dependencies, build
from mesonbuild.interpreter import dependencyfallbacks as DF
from mesonbuild.interpreter.dependencyfallbacks import DependencyFallbacksHolder
from mesonbuild.dependencies import Dependency, DependencyException, NotFoundDependency
from mesonbuild.interpreterbase import InterpreterException, InvalidArguments, FeatureNew
from mesonbuild.mesonlib import MachineChoice, MesonException
from mesonbuild.options import OptionKey
import z3
mlog.log = lambda *a, **k: None
mlog.warning = lambda *a, **k: None
FeatureNew.single_use = staticmethod(lambda *a, **k: None)

class Dep(Dependency):
    def __init__(self, label, found, version):
        super().__init__({'native': MachineChoice.HOST})
        self.label = label; self.is_found = found; self.version = version; self.name = 'foo'
    def get_version(self): return self.version

class Sub:
    def __init__(self, ok, vars_): self.ok = ok; self.vars = vars_; self.subdir = 'subprojects/sub'
    def found(self): return self.ok
    def get_variable_method(self, args, kwargs):
        if args[0] not in self.vars: raise InvalidArguments('no var')
        return self.vars[args[0]]

WM = ['default', 'nofallback', 'nodownload', 'forcefallback', 'nopromote']
def harness():
    wm = WM[choose(len(WM), 'wm')]
    fff_name = bool(sym_bool('fff_name')); fff_sub = bool(sym_bool('fff_sub'))
    required = bool(sym_bool('required'))
    allow = [None, True, False][choose(3, 'allow')]
    fbkind = choose(3, 'fb')      # 0 none, 1 explicit [sub, var], 2 wrap provide
    sys_present = bool(sym_bool('sys'))
    sub_ok = bool(sym_bool('subok'))          # subproject configures and defines var 'foo_dep' as found dep
    calls = {'system': 0, 'subproject': 0}
    interp = types.SimpleNamespace()
    interp.subproject = ''; interp.current_node = None
    interp.coredata = types.SimpleNamespace()
    fff = (['foo'] if fff_name else []) + (['sub'] if fff_sub else [])
    interp.coredata.optstore = types.SimpleNamespace(get_value_for=lambda k: wm if k.name == 'wrap_mode' else fff)
    class Cache(dict):
        def put(self, k, v): self[k] = v
    interp.coredata.deps = {MachineChoice.HOST: Cache()}
    interp.build = types.SimpleNamespace(dependency_overrides={MachineChoice.HOST: {}})
    wr = types.SimpleNamespace(find_dep_provider=lambda n: ('sub', 'foo_dep') if fbkind == 2 else (None, None),
                               get_varname=lambda s, n: 'foo_dep' if fbkind == 2 else None)
    interp.environment = types.SimpleNamespace(wrap_resolver=wr)
    interp.subprojects = {MachineChoice.HOST: {}}
    subdep = Dep('subproject', True, '1.0')
    def do_subproject(name, kwargs, forced_options=None):
        calls['subproject'] += 1
        if sub_ok: interp.subprojects[MachineChoice.HOST][name] = Sub(True, {'foo_dep': subdep})
        else:
            interp.subprojects[MachineChoice.HOST][name] = Sub(False, {})
            if kwargs['required']: raise DependencyException('subproject failed')
    interp.do_subproject = do_subproject
    sysdep = Dep('system', True, '1.0')
    def find_external_dependency(name, env, kwargs):
        calls['system'] += 1
        if sys_present: return sysdep
        if kwargs.get('required'): raise DependencyException('not found')
        return NotFoundDependency(name, env)
    DF.dependencies = types.SimpleNamespace(find_external_dependency=find_external_dependency, get_dep_identifier=dependencies.get_dep_identifier)
    try:
        df = DependencyFallbacksHolder(interp, ['foo'], MachineChoice.HOST, allow_fallback=allow)
        if fbkind == 1: df.set_fallback(['sub', 'foo_dep'])
    except MesonException:
        cover('arg-error'); return
    try:
        dep = df.lookup({'required': required})
        res = dep.label if dep.found() else 'notfound'
    except DependencyException:
        res = 'error'
    # reference policy (docs: dependency.yaml, Subprojects.md, Wrap-dependency-system-manual.md)
    has_fb = fbkind == 1 or (fbkind == 2 and allow is not False)
    forced = wm == 'forcefallback' or fff_name or (fff_sub and has_fb)
    if fbkind == 2 and allow is None and not required and not forced:
        has_fb = False     # implicit fallback only for required lookups unless allow_fallback: true or forced
    nofb = wm == 'nofallback'
    exp = None
    if forced and has_fb:
        exp = 'subproject' if sub_ok else ('error' if required else 'notfound')
        check(calls['system'] == 0, 'system not consulted when fallback is forced')
    elif sys_present:
        exp = 'system'
    elif has_fb and not nofb:
        exp = 'subproject' if sub_ok else ('error' if required else 'notfound')
    else:
        exp = 'error' if required else 'notfound'
    check(res == exp, 'policy wm=%s fff_name=%s fff_sub=%s req=%s allow=%s fb=%d sys=%s subok=%s: expected %s got %s' % (wm, fff_name, fff_sub, required, allow, fbkind, sys_present, sub_ok, exp, res))
    # repeated lookup consistency
    if res in ('system', 'subproject'):
        df2 = DependencyFallbacksHolder(interp, ['foo'], MachineChoice.HOST, allow_fallback=allow)
        if fbkind == 1: df2.set_fallback(['sub', 'foo_dep'])
        d2 = df2.lookup({'required': required})
        check(d2 is dep, 'second lookup returns the same dependency')
    cover('done')
if __name__ == '__main__':
    st = core.explore(harness, max_paths=20000)
    print('paths', st['paths'], 'viol', len(st['violations']), 'errors', len(st['errors']), st['labels'], 'time %.1f' % st['time'])
    for e in st['errors'][:3]: print('   ', e[:2])
    seen = set()
    for v in st['violations']:
        key = v[0][:40]
        if key in seen: continue
        seen.add(key); print('   V', v[0])
    print(len(st['violations']))
