"""symx light term layer.

Integer terms are kept in linear normal form (`Lin`: constant + sum of coef*atom, atoms being
variables or integer if-then-else terms); Boolean terms are small trees over comparisons of a
linear form with zero.  Python ints / bools stand for constants, so everything that folds to a
constant never reaches the solver.  Terms are hash-consed (per process) so the translation to z3
ASTs is done once per distinct term, and every term carries a structural hash that is stable
across re-executions (used for the replay-divergence check).

No z3 import at module level: the concrete (replay) mode runs under an interpreter without z3.
"""

_TABLE = {}          # structural key -> term (hash-consing)
_Z3 = None


def _z3():
    global _Z3
    if _Z3 is None:
        import z3
        _Z3 = z3
    return _Z3


def reset_table():
    _TABLE.clear()


class Term:
    __slots__ = ('key', 'h', 'z', 'sv')     # sv: cached (var, truth-mask) of a single-variable Boolean term
    is_bool = False

    def __repr__(self):
        return show(self)


def _intern(cls, key, *init):
    t = _TABLE.get(key)
    if t is None:
        t = cls.__new__(cls)
        t.key = key
        t.z = None
        t.sv = None
        t._init(*init)
        _TABLE[key] = t
    return t


# ------------------------------------------------------------------ integer terms
def _h(x):
    return x if isinstance(x, int) else x.h


class IVar(Term):
    __slots__ = ('idx', 'name')

    def _init(self, idx, name):
        self.idx = idx
        self.name = name
        self.h = hash((1, idx))


class IIte(Term):
    __slots__ = ('c', 'a', 'b')

    def _init(self, c, a, b):
        self.c, self.a, self.b = c, a, b
        self.h = hash((2, c.h, isinstance(a, int), _h(a), isinstance(b, int), _h(b)))


class Lin(Term):
    """const + sum coef*atom ; atoms sorted by key-hash order for canonicity"""
    __slots__ = ('c', 'm')

    def _init(self, c, m):
        self.c, self.m = c, m
        self.h = hash((3, c) + tuple((a.h, k) for a, k in m))


def ivar(idx, name):
    v = _intern(IVar, ('iv', idx), idx, name)
    return _intern(Lin, ('lin', 0, ((v, 1),)), 0, ((v, 1),))


def _mklin(c, d):
    """d: dict atom -> coef"""
    items = [(a, k) for a, k in d.items() if k != 0]
    if not items:
        return c
    items.sort(key=lambda p: p[0].h)
    items = tuple(items)
    return _intern(Lin, ('lin', c, items), c, items)


def _parts(x):
    if isinstance(x, Lin):
        return x.c, x.m
    if isinstance(x, bool):
        return int(x), ()
    if isinstance(x, int):
        return x, ()
    raise TypeError('not an integer term: %r' % (type(x),))


def iadd(a, b):
    if isinstance(a, int) and isinstance(b, int):
        return a + b
    ca, ma = _parts(a)
    cb, mb = _parts(b)
    d = dict(ma)
    for at, k in mb:
        d[at] = d.get(at, 0) + k
    return _mklin(ca + cb, d)


def ineg(a):
    if isinstance(a, int):
        return -a
    return _mklin(-a.c, {at: -k for at, k in a.m})


def isub(a, b):
    return iadd(a, ineg(b))


def imulc(a, k):
    """a * k with k a python int"""
    if isinstance(a, int):
        return a * k
    if k == 0:
        return 0
    return _mklin(a.c * k, {at: c * k for at, c in a.m})


def iite(c, a, b):
    if c is True:
        return a
    if c is False:
        return b
    if isinstance(a, bool):
        a = int(a)
    if isinstance(b, bool):
        b = int(b)
    if (isinstance(a, int) and isinstance(b, int) and a == b) or (a is b):
        return a
    at = _intern(IIte, ('iite', c, a, b), c, a, b)
    return _intern(Lin, ('lin', 0, ((at, 1),)), 0, ((at, 1),))


# ------------------------------------------------------------------ boolean terms
class BVar(Term):
    __slots__ = ('idx', 'name')
    is_bool = True

    def _init(self, idx, name):
        self.idx = idx
        self.name = name
        self.h = hash((4, idx))


class Cmp(Term):
    """lin OP 0 with OP in eq, lt, le"""
    __slots__ = ('op', 'd')
    is_bool = True

    def _init(self, op, d):
        self.op, self.d = op, d
        self.h = hash((5, {'eq': 0, 'lt': 1, 'le': 2}[op], d.h))


class Not(Term):
    __slots__ = ('a',)
    is_bool = True

    def _init(self, a):
        self.a = a
        self.h = hash((6, a.h))


class And(Term):
    __slots__ = ('xs',)
    is_bool = True

    def _init(self, xs):
        self.xs = xs
        self.h = hash((7,) + tuple(x.h for x in xs))


class Or(Term):
    __slots__ = ('xs',)
    is_bool = True

    def _init(self, xs):
        self.xs = xs
        self.h = hash((8,) + tuple(x.h for x in xs))


class Iff(Term):
    __slots__ = ('a', 'b')
    is_bool = True

    def _init(self, a, b):
        self.a, self.b = a, b
        self.h = hash((9, a.h, b.h))


def bvar(idx, name):
    return _intern(BVar, ('bv', idx), idx, name)


BIND = None   # per-path dict: IVar -> int (set by the engine; equalities var == const already asserted)
BOUNDS = None  # per-path dict: IVar -> [lo|None, hi|None, set(excluded)] implied by the asserted single-variable constraints


def note_constraint(t):
    """engine hook: record what an asserted constraint says about single variables"""
    _note_bounds(t)
    v, m = svmask(t)
    if v is not None:
        d = DOM.get(v)
        if d is not None:
            d &= m
            DOM[v] = d
            if d and d & (d - 1) == 0 and v not in BIND:
                BIND[v] = d.bit_length() - 1
        else:
            b = BOUNDS.get(v)
            if b is not None and b[0] is not None and b[1] is not None and b[0] >= 0 and b[1] <= 255:
                d = _range_mask(b[0], b[1])
                for e in b[2]:
                    if 0 <= e <= 255: d &= ~(1 << e)
                DOM[v] = d & m


def _note_bounds(t):
    cls = t.__class__
    if cls is And:
        for x in t.xs:
            _note_bounds(x)
        return
    if cls is Not:
        a = t.a
        if a.__class__ is Cmp and a.op == 'eq' and len(a.d.m) == 1 and a.d.m[0][0].__class__ is IVar:
            at, k = a.d.m[0]
            if a.d.c % k == 0:
                b = BOUNDS.setdefault(at, [None, None, set()])
                b[2].add(-a.d.c // k)
                _tighten(b)
        return
    if cls is not Cmp or len(t.d.m) != 1 or t.d.m[0][0].__class__ is not IVar:
        return
    at, k = t.d.m[0]
    c = t.d.c
    b = BOUNDS.setdefault(at, [None, None, set()])
    if t.op == 'eq':
        if c % k == 0:
            v = -c // k
            BIND[at] = v
            b[0] = b[1] = v
        return
    # k*x + c < 0 (lt)  or <= 0 (le)
    if t.op == 'lt':
        c += 1            # k*x + c <= -1  <=>  k*x + (c+1) <= 0
    # k*x <= -c
    if k > 0:
        hi = (-c) // k
        if b[1] is None or hi < b[1]:
            b[1] = hi
    else:
        # k*x <= -c with k<0  <=>  x >= c/(-k), rounded up
        kk = -k
        lo = (c + kk - 1) // kk
        if b[0] is None or lo > b[0]:
            b[0] = lo
    _tighten(b)


FULL = (1 << 256) - 1
DOM = None     # per-path dict: IVar -> bitmask of the values in 0..255 the variable can still take


def _range_mask(lo, hi):
    if lo is None or lo < 0: lo = 0
    if hi is None or hi > 255: hi = 255
    if hi < lo: return 0
    return ((1 << (hi - lo + 1)) - 1) << lo


def svmask(t):
    """(var, mask): t depends on the single integer variable var and is true exactly for the values of
    0..255 in mask; (None, None) if t is not of that shape.  Cached on the hash-consed term."""
    r = t.sv
    if r is not None:
        return r
    cls = t.__class__
    r = (None, None)
    if cls is Cmp:
        d = t.d
        if len(d.m) == 1 and d.m[0][0].__class__ is IVar:
            at, k = d.m[0]
            c = d.c
            if t.op == 'eq':
                m = 0
                if c % k == 0 and 0 <= -c // k <= 255:
                    m = 1 << (-c // k)
            else:
                if t.op == 'lt': c += 1
                if k > 0: m = _range_mask(None, (-c) // k)
                else: m = _range_mask((c - k - 1) // (-k), None)
            r = (at, m)
    elif cls is Not:
        v, m = svmask(t.a)
        if v is not None:
            r = (v, FULL & ~m)
    elif cls is And or cls is Or:
        v0 = None
        m0 = FULL if cls is And else 0
        for x in t.xs:
            v, m = svmask(x)
            if v is None or (v0 is not None and v is not v0):
                v0 = None
                break
            v0 = v
            m0 = (m0 & m) if cls is And else (m0 | m)
        if v0 is not None:
            r = (v0, m0)
    t.sv = r
    return r


def _fold_dom(t):
    v, m = svmask(t)
    if v is None:
        return None
    d = DOM.get(v)
    if d is None:
        return None
    x = d & m
    if x == d:
        return True
    if x == 0:
        return False
    return None


def _tighten(b):
    ex = b[2]
    if ex:
        while b[0] is not None and b[0] in ex:
            b[0] += 1
        while b[1] is not None and b[1] in ex:
            b[1] -= 1


def _fold_bounds(op, d):
    """decide k*x + c OP 0 from the known range of x, or return None"""
    at, k = d.m[0]
    b = BOUNDS.get(at)
    if b is None:
        return None
    lo, hi, ex = b
    c = d.c
    if op == 'eq':
        if c % k != 0:
            return False
        v = -c // k
        if (lo is not None and v < lo) or (hi is not None and v > hi) or v in ex:
            return False
        if lo is not None and lo == hi:
            return True
        return None
    if k > 0:
        dmin = None if lo is None else k * lo + c
        dmax = None if hi is None else k * hi + c
    else:
        dmin = None if hi is None else k * hi + c
        dmax = None if lo is None else k * lo + c
    if op == 'lt':
        if dmax is not None and dmax < 0: return True
        if dmin is not None and dmin >= 0: return False
    else:
        if dmax is not None and dmax <= 0: return True
        if dmin is not None and dmin > 0: return False
    return None


def simplify_under(t):
    """re-simplify a Boolean term under the current path's bindings and bounds"""
    if t is True or t is False:
        return t
    if DOM:
        r = _fold_dom(t)
        if r is not None:
            return r
    cls = t.__class__
    if cls is Cmp:
        return _cmp(t.op, t.d)
    if cls is Not:
        a = simplify_under(t.a)
        return t if a is t.a else bnot(a)
    if cls is And:
        xs = [simplify_under(x) for x in t.xs]
        for x, y in zip(xs, t.xs):
            if x is not y:
                return band(xs)
        return t
    if cls is Or:
        xs = [simplify_under(x) for x in t.xs]
        for x, y in zip(xs, t.xs):
            if x is not y:
                return bor(xs)
        return t
    return t


def _subst(d):
    """apply the path's bindings to a linear form"""
    if not BIND or isinstance(d, int):
        return d
    hit = False
    for at, _ in d.m:
        if at in BIND:
            hit = True
            break
    if not hit:
        return d
    c = d.c
    dd = {}
    for at, k in d.m:
        if at in BIND:
            c += k * BIND[at]
        else:
            dd[at] = k
    return _mklin(c, dd)


def _cmp(op, d):
    d = _subst(d)
    if isinstance(d, int):
        return d == 0 if op == 'eq' else (d < 0 if op == 'lt' else d <= 0)
    if op == 'eq':
        # canonical sign: first coefficient positive
        if d.m[0][1] < 0:
            d = ineg(d)
        # gcd test: all coefs divisible but const not -> False
        if len(d.m) == 1:
            k = d.m[0][1]
            if d.c % k != 0:
                return False
    if BOUNDS and len(d.m) == 1 and d.m[0][0].__class__ is IVar:
        r = _fold_bounds(op, d)
        if r is not None:
            return r
        t = _intern(Cmp, ('cmp', op, d), op, d)
        if DOM and d.m[0][0] in DOM:
            r = _fold_dom(t)
            if r is not None:
                return r
        return t
    return _intern(Cmp, ('cmp', op, d), op, d)


def ieq(a, b):
    if a is b:
        return True
    return _cmp('eq', isub(a, b))


def ilt(a, b):
    return _cmp('lt', isub(a, b))


def ile(a, b):
    return _cmp('le', isub(a, b))


def bnot(a):
    if a is True:
        return False
    if a is False:
        return True
    if isinstance(a, Not):
        return a.a
    if isinstance(a, Cmp):
        if a.op == 'lt':       # not (d < 0)  <=>  -d <= 0
            return _cmp('le', ineg(a.d))
        if a.op == 'le':       # not (d <= 0) <=>  -d < 0
            return _cmp('lt', ineg(a.d))
    return _intern(Not, ('not', a), a)


def band(xs):
    out = []
    seen = set()
    for x in xs:
        if x is True:
            continue
        if x is False:
            return False
        if isinstance(x, And):
            ys = x.xs
        else:
            ys = (x,)
        for y in ys:
            if id(y) in seen:
                continue
            seen.add(id(y))
            out.append(y)
    if not out:
        return True
    if len(out) == 1:
        return out[0]
    out = tuple(out)
    return _intern(And, ('and',) + out, out)


def bor(xs):
    out = []
    seen = set()
    for x in xs:
        if x is False:
            continue
        if x is True:
            return True
        if isinstance(x, Or):
            ys = x.xs
        else:
            ys = (x,)
        for y in ys:
            if id(y) in seen:
                continue
            seen.add(id(y))
            out.append(y)
    if not out:
        return False
    if len(out) == 1:
        return out[0]
    out = tuple(out)
    return _intern(Or, ('or',) + out, out)


def biff(a, b):
    if isinstance(a, bool):
        return b if a else bnot(b)
    if isinstance(b, bool):
        return a if b else bnot(a)
    if a is b:
        return True
    if a.h > b.h:
        a, b = b, a
    return _intern(Iff, ('iff', a, b), a, b)


def bxor(a, b):
    return bnot(biff(a, b))


def bite(c, a, b):
    """boolean if-then-else"""
    if c is True:
        return a
    if c is False:
        return b
    if a is b:
        return a
    return bor([band([c, a]), band([bnot(c), b])])


# ------------------------------------------------------------------ evaluation under a model
def ev(t, m):
    """m: dict var idx -> python value; missing variables default to 0 / False"""
    if isinstance(t, (bool, int)):
        return t
    cls = t.__class__
    if cls is Lin:
        r = t.c
        for at, k in t.m:
            if at.__class__ is IVar:
                r += k * m.get(at.idx, 0)
            else:
                r += k * (ev(at.a, m) if ev(at.c, m) else ev(at.b, m))
        return r
    if cls is Cmp:
        v = ev(t.d, m)
        op = t.op
        return v == 0 if op == 'eq' else (v < 0 if op == 'lt' else v <= 0)
    if cls is BVar:
        return bool(m.get(t.idx, False))
    if cls is Not:
        return not ev(t.a, m)
    if cls is And:
        for x in t.xs:
            if not ev(x, m):
                return False
        return True
    if cls is Or:
        for x in t.xs:
            if ev(x, m):
                return True
        return False
    if cls is Iff:
        return ev(t.a, m) == ev(t.b, m)
    if cls is IVar:
        return m.get(t.idx, 0)
    if cls is IIte:
        return ev(t.a, m) if ev(t.c, m) else ev(t.b, m)
    raise TypeError('ev: %r' % (cls,))


# ------------------------------------------------------------------ translation to z3
def to_z3(t):
    z3 = _z3()
    if isinstance(t, bool):
        return z3.BoolVal(t)
    if isinstance(t, int):
        return z3.IntVal(t)
    if t.z is not None:
        return t.z
    cls = t.__class__
    if cls is Lin:
        parts = []
        for at, k in t.m:
            za = to_z3(at)
            parts.append(za if k == 1 else za * k)
        if t.c != 0 or not parts:
            parts.append(z3.IntVal(t.c))
        r = parts[0] if len(parts) == 1 else z3.Sum(parts)
    elif cls is IVar:
        r = z3.Int('i%d' % t.idx)
    elif cls is BVar:
        r = z3.Bool('b%d' % t.idx)
    elif cls is IIte:
        r = z3.If(to_z3(t.c), to_z3(t.a), to_z3(t.b))
    elif cls is Cmp:
        # put the constant on the right: sum(coef*atom) OP -c
        d = t.d
        lhs = to_z3(_mklin(0, dict(d.m)))
        rhs = z3.IntVal(-d.c)
        r = lhs == rhs if t.op == 'eq' else (lhs < rhs if t.op == 'lt' else lhs <= rhs)
    elif cls is Not:
        r = z3.Not(to_z3(t.a))
    elif cls is And:
        r = z3.And([to_z3(x) for x in t.xs])
    elif cls is Or:
        r = z3.Or([to_z3(x) for x in t.xs])
    elif cls is Iff:
        r = to_z3(t.a) == to_z3(t.b)
    else:
        raise TypeError('to_z3: %r' % (cls,))
    t.z = r
    return r


def variables(t, acc=None):
    """set of (kind, idx) of the variables of t"""
    if acc is None:
        acc = set()
    if isinstance(t, (bool, int)):
        return acc
    cls = t.__class__
    if cls is Lin:
        for at, _ in t.m:
            variables(at, acc)
    elif cls is IVar:
        acc.add(('i', t.idx))
    elif cls is BVar:
        acc.add(('b', t.idx))
    elif cls is IIte:
        variables(t.c, acc); variables(t.a, acc); variables(t.b, acc)
    elif cls is Cmp:
        variables(t.d, acc)
    elif cls is Not:
        variables(t.a, acc)
    elif cls in (And, Or):
        for x in t.xs:
            variables(x, acc)
    elif cls is Iff:
        variables(t.a, acc); variables(t.b, acc)
    return acc


def show(t, depth=0):
    if isinstance(t, (bool, int)):
        return repr(t)
    if depth > 6:
        return '...'
    cls = t.__class__
    if cls is Lin:
        ps = []
        for at, k in t.m:
            s = show(at, depth + 1)
            ps.append(s if k == 1 else '%d*%s' % (k, s))
        if t.c:
            ps.append(str(t.c))
        return '(' + ' + '.join(ps) + ')' if len(ps) > 1 else ps[0]
    if cls is IVar:
        return '%s#%d' % (t.name, t.idx)
    if cls is BVar:
        return '%s#%d' % (t.name, t.idx)
    if cls is IIte:
        return 'ite(%s, %s, %s)' % (show(t.c, depth + 1), show(t.a, depth + 1), show(t.b, depth + 1))
    if cls is Cmp:
        return '%s %s 0' % (show(t.d, depth + 1), {'eq': '==', 'lt': '<', 'le': '<='}[t.op])
    if cls is Not:
        return 'not(%s)' % show(t.a, depth + 1)
    if cls is And:
        return 'and(' + ', '.join(show(x, depth + 1) for x in t.xs) + ')'
    if cls is Or:
        return 'or(' + ', '.join(show(x, depth + 1) for x in t.xs) + ')'
    if cls is Iff:
        return '(%s <=> %s)' % (show(t.a, depth + 1), show(t.b, depth + 1))
    return '?'
