"""C06 - configuration output does not depend on collection order and unchanged outputs are not touched (writer level; partial claim)."""
import os
import types
from symx.api import *

PROPERTY = 'C06'
LEVEL = 'other'
FILES = ['mesonbuild/utils/universal.py', 'mesonbuild/mintro.py', 'mesonbuild/backend/ninjabackend.py', 'mesonbuild/backend/backends.py', 'mesonbuild/options.py', 'mesonbuild/coredata.py', 'mesonbuild/modules/pkgconfig.py']
ENCODED = ['mesonlib.replace_if_different (content comparison decides whether the destination is touched; file system = a dictionary with a per-file generation counter)',
           'mintro._list_buildoptions (options inserted into the store in a symbolic order)', 'NinjaBuildElement.add_dep/add_orderdep/write (dependencies inserted in a symbolic order)',
           'mesonlib.OrderedSet / unique_list (first-occurrence order, whatever the duplicates)', 'EnvironmentVariables.set/unset/get_env/hash (digest input of the exe-wrapper pickle name; the hasher is a recorder)', 'options.OptionKey.__lt__/__le__/__gt__/__ge__/__eq__ (what every sorted-by-key writer relies on)']
EXPLANATION = ('The part of C06 a solver can reach: the ORDER in which unordered collections deliver their elements is made a symbolic permutation (that is all a different hash seed, '
               'environment order or directory order can change for these writers) and the text each writer produces must be the same for every permutation; and '
               'replace_if_different, through which configure_file / unity / vala outputs are published, runs on a modelled file system with symbolic old and new contents: the '
               'destination is replaced iff the contents differ (solver-decided), is never touched otherwise, always ends with the new content, and the temporary file is gone.')
ASSUMPTIONS = ['file system = a dictionary path -> (content, generation); "touched" = the generation changed', '3 options / 2+2 dependencies per permutation obligation',
               'contents of 0-2 characters for replace_if_different']
OUT = ('STATED PROMINENTLY: whole configurations compared across PYTHONHASHSEED / os.environ order / readdir order / build-directory history (differential re-execution, not solver '
       'reasoning), every writer not listed in "functions encoded", mtimes of real files. This check decides the anchored ordering mechanisms one writer at a time, not C06 as a whole.')
MANIFEST = dict(
    text='Bounded symbolic decision, writer by writer, of the mechanisms C06 rests on: output text is invariant under every permutation of the insertion order of the collections '
         'feeding _list_buildoptions and the Ninja dependency lists, OrderedSet/unique_list keep first-occurrence order, and replace_if_different touches the destination iff the '
         'content differs. Whole-configuration determinism across hash seeds, environment and directory order is NOT decided.',
    note='Partial claim (writer level). Trusted: symx engine, z3, the dictionary file-system model. Bounds: all permutations of 3 options / 4 dependencies; contents <= 2 characters; do_conf_file twice on templates of <= 4 characters; get_regen_filelist under an adversarial set iteration order.')

M = types.SimpleNamespace()


def setup():
    import mesonbuild.utils.universal as U
    from mesonbuild import mintro, options
    from harness.common import quiet_mlog
    import harness.c03 as c03
    options.mlog = quiet_mlog()
    c03.setup()
    M.U, M.MT, M.O, M.nb = U, mintro, options, c03.nb


def permutation(n, tag):
    left = list(range(n)); out = []
    while left:
        out.append(left.pop(choose(len(left), '%s%d' % (tag, len(left)))))
    return out


def ob_replace():
    def h():
        U = M.U
        has_old = choose(2, 'destination_exists') == 1
        new = sym_str(choose(3, 'new_len'), 'new', alphabet='ab\n')
        old = sym_str(choose(3, 'old_len'), 'old', alphabet='ab\n') if has_old else None
        files = {'/o.tmp': [new, 1]}
        if has_old: files['/o'] = [old, 1]
        gen = [1]

        class RF:
            def __init__(s, c): s.c = c
            def read(s): return s.c
            def __enter__(s): return s
            def __exit__(s, *a): return False

        def fopen(name, mode='r', **k):
            if name not in files: raise FileNotFoundError(name)
            return RF(files[name][0])

        def replace(a, b):
            gen[0] += 1; files[b] = [files.pop(a)[0], gen[0]]

        def unlink(a): del files[a]
        saved = (U.__dict__.get('open'), U.os)
        U.open = fopen
        U.os = types.SimpleNamespace(replace=replace, unlink=unlink, path=os.path)
        try:
            U.replace_if_different('/o', '/o.tmp')
        finally:
            U.os = saved[1]
            if saved[0] is None: del U.open
            else: U.open = saved[0]
        check('/o.tmp' not in files, 'the temporary file is gone')
        check('/o' in files and len(files['/o'][0]) == len(new) and decide(bt_any(eq(files['/o'][0], new))), 'the destination has the new content')
        same = has_old and len(old) == len(new) and decide(bt_any(eq(old, new)))
        check((files['/o'][1] == 1) == bool(same), 'the destination is touched iff its content changes')
        cover('kept' if same else 'replaced')
    return h


def ob_buildoptions():
    def h():
        O = M.O
        names = ['b_lto', 'b_ndebug', 'b_pie']
        vals = {'b_lto': sym_bool('b_lto'), 'b_ndebug': sym_enum(['true', 'false', 'if-release'], 'b_ndebug'), 'b_pie': sym_bool('b_pie')}
        import copy

        def build(order):
            st = O.OptionStore(False)
            st.init_builtins()
            for i in order:
                k = O.OptionKey(names[i])
                st.add_system_option(k, copy.deepcopy(O.COMPILER_BASE_OPTIONS[k]))
            for i in order:
                v = vals[names[i]]
                st.set_option(O.OptionKey(names[i]), v.concretize() if hasattr(v, 'concretize') else (decide(v) if not isinstance(v, (bool, str)) else v))
            # compiler options of two languages, added in the order the languages were added to the project (a reconfigured directory keeps the old order)
            for lang in (('c', 'cpp') if corder == 0 else ('cpp', 'c')):
                for nm in (('std', 'args') if (order[0] % 2 == 0) else ('args', 'std')):
                    st.add_compiler_option(lang, O.OptionKey(lang + '_' + nm), O.UserStringOption(lang + '_' + nm, 'd', cval) if nm == 'std' else O.UserStringArrayOption(lang + '_' + nm, 'd', []))
            return M.MT._list_buildoptions(types.SimpleNamespace(optstore=st), [])
        cval = sym_str(1, 'c_std', alphabet='ab')
        corder = 0
        a = build([0, 1, 2])
        corder = choose(2, 'language order')
        b = build(permutation(3, 'p'))
        check(len(a) == len(b), 'same number of entries whatever the insertion order')
        for x, y in zip(a, b):
            check(x['name'] == y['name'] and x['section'] == y['section'] and eq(x['value'], y['value']), 'intro-buildoptions entries are in the same order with the same values')
        cover('done')
    return h


def ob_ninja_order():
    def h():
        nb = M.nb
        from harness.c03 import Out
        # two spellings of one file (a, ./a) and a symbolic 3-character path: a writer that merges deps 'up to normalisation' must not let the survivor depend on the order
        deps = [sym_str(3, 'd0', alphabet='a./'), sym_str(1, 'd1', alphabet='abA'), 'a', './a', 'A']       # a / A: equal under a case-folding sort key
        od = ['o1', 'o01', sym_str(1, 'o', alphabet='ab')]       # o1 / o01: equal under a 'natural' (numeric) sort key

        def write(order_d, order_o):
            e = nb.NinjaBuildElement(set(), ['out'], 'phony', ['in'])
            for i in order_d: e.add_dep(deps[i])
            for i in order_o: e.add_orderdep(od[i])
            o = Out(); e.write(o); return o.text()
        had = nb.__dict__.get('set', None)
        if concrete(): nb.set = IOSet            # native replay: insertion-ordered stand-in = an adversarial hash order (see env-hash-order)
        try:
            a = write([0, 1, 2, 3, 4], [0, 1, 2]); b = write(permutation(5, 'pd'), permutation(3, 'po'))
        finally:
            if concrete():
                if had is None: del nb.set
                else: nb.set = had
        check(len(a) == len(b) and decide(bt_any(eq(a, b))), 'the build statement text does not depend on the order dependencies were added in')
        cover('done')
    return h


def ob_ordered():
    def h():
        U = M.U
        xs = [sym_str(1, 'x%d' % i, alphabet='ab') for i in range(choose(4, 'n') + 1)]
        ref = []
        for x in xs:
            if not any(decide(bt_any(x == y)) for y in ref): ref.append(x)
        got = U.unique_list(list(xs))
        check(len(got) == len(ref) and all(decide(bt_any(eq(a, b))) for a, b in zip(got, ref)), 'unique_list keeps the first occurrence of each element, in order')
        cover('done')
    return h


def ob_optionkey_order():
    """everything that is written 'sorted by OptionKey' relies on this: the four comparison operators describe ONE strict total order"""
    def h():
        from mesonbuild.mesonlib import MachineChoice
        K = M.O.OptionKey
        def mk(t):
            sp = [None, '', 'a', 'b'][choose(4, t + 'sub')]
            return K(sym_str(1, t + 'name', alphabet='abA'), sp, [MachineChoice.HOST, MachineChoice.BUILD][choose(2, t + 'machine')])
        a, b = mk('a'), mk('b')
        lt, gt, le, ge, e = decide(bt_any(a < b)), decide(bt_any(a > b)), decide(bt_any(a <= b)), decide(bt_any(a >= b)), decide(bt_any(a == b))
        check((lt, e, gt).count(True) == 1, 'exactly one of <, ==, > holds')
        check(le == (lt or e) and ge == (gt or e), '<= is < or ==, >= is > or ==')
        check(lt == decide(bt_any(b > a)) and gt == decide(bt_any(b < a)), 'a < b iff b > a')
        got = sorted([b, a]); got2 = sorted([a, b])
        check(all(decide(bt_any(x == y)) for x, y in zip(got, got2)), 'sorted() does not depend on the input order')
        cover('done')
    return h


class IOSet:
    """a set whose iteration order is the insertion order (stand-in for 'some hash order' in the native replay)"""
    def __init__(self, it=()):
        self.d = {}
        for x in it: self.d[x] = None
    def add(self, x): self.d[x] = None
    def discard(self, x): self.d.pop(x, None)
    def remove(self, x): del self.d[x]
    def update(self, *its):
        for it in its:
            for x in it: self.d[x] = None
    def copy(self): return IOSet(self.d)
    def __contains__(self, x): return x in self.d
    def __iter__(self): return iter(list(self.d))
    def __len__(self): return len(self.d)
    def __bool__(self): return bool(self.d)
    def __or__(self, o): r = self.copy(); r.update(o); return r
    def __sub__(self, o): return IOSet(x for x in self.d if x not in o)
    def __and__(self, o): return IOSet(x for x in self.d if x in o)
    def __eq__(self, o): return set(self.d) == set(o)
    def __repr__(self): return 'IOSet(%r)' % list(self.d)


def ob_env_hash():
    """EnvironmentVariables.hash feeds the digest that names the exe-wrapper pickle (and so appears in build.ninja): it must not depend on the order in which
    DIFFERENT variables were set / unset (the unset names live in a Python set, whose iteration order follows the hash seed)"""
    def h():
        from mesonbuild.utils.core import EnvironmentVariables
        from harness.c03 import FakeHasher
        names = [sym_str(1, 'name%d' % i, alphabet='ABCD') for i in range(4)]
        for i in range(4):
            for j in range(i): assume(sym_not(mkbool(bt_any(names[i] == names[j]))))
        vals = [sym_str(1, 'val%d' % i, alphabet='xy') for i in range(2)]

        def build(order):
            env = EnvironmentVariables()
            for k in order:
                if k < 2: env.set(names[k], [vals[k]])
                else: env.unset(names[k])
            log = []; hh = FakeHasher(log); env.hash(hh); return hh.text()
        # the iteration order of a set is the environment's choice (hash seed): symbolically every set() of the analysed module is an insertion-ordered
        # list, so permuting the insertions permutes the iteration; the native replay gets the same adversarial order through an insertion-ordered stand-in
        import mesonbuild.utils.core as CORE
        had = CORE.__dict__.get('set', None)
        if concrete(): CORE.set = IOSet
        try:
            a = build([0, 1, 2, 3]); b = build(permutation(4, 'p'))
        finally:
            if concrete():
                if had is None: del CORE.set
                else: CORE.set = had
        check(len(a) == len(b) and decide(bt_any(eq(a, b))), 'the digest input does not depend on the order in which different variables were set / unset')
        cover('done')
    return h


class FakeStore:
    """stands for the OptionStore the cache reads its search paths from (picklable: the cache is part of coredata.dat)"""
    def __init__(self): self.vals = {'pkg_config_path': [], 'cmake_prefix_path': []}
    def get_value_for(self, key): return list(self.vals[key.name])


class FakeDep:
    def __init__(self, type_name, ident): self.type_name = type_name; self.ident = ident


def ob_dependency_cache(nsteps):
    """coredata.DependencyCache across a history of put / get / option changes with a pickle round trip (= the next meson run) before every step: a lookup
    answers exactly what was stored under the CURRENT value of the search path its dependency type depends on - what a fresh build directory with the same
    options would find - never something remembered from an earlier value"""
    def h():
        import pickle
        from mesonbuild import coredata
        from mesonbuild.mesonlib import MachineChoice
        store = FakeStore()
        cache = coredata.DependencyCache(store, MachineChoice.HOST)
        ref = {}          # (key, value of the search path of the dependency's type at the time of put) -> dep ident; a lookup uses the type of the key's first put, as the real cache does
        ftype = {}
        optname = {'pkgconfig': 'pkg_config_path', 'cmake': 'cmake_prefix_path', 'other': None}
        cur = lambda t: tuple(store.vals[optname[t]]) if optname[t] else ()
        n = 0
        for s in range(nsteps):
            if choose(2, 'new run before step %d' % s):
                cache, store2 = pickle.loads(pickle.dumps((cache, store)))
                check(True, 'pickles'); store = store2
            op = choose(4, 'op%d' % s)
            key = ('dep' + 'ab'[choose(2, 'key%d' % s)],)
            if op == 0:
                t = ['pkgconfig', 'cmake', 'other'][choose(3, 'type%d' % s)]
                n += 1
                cache.put(key, FakeDep(t, n))
                if key not in ftype: ftype[key] = t
                ref[(key, cur(t))] = n
            elif op == 1:
                got = cache.get(key)
                t = ftype.get(key)
                exp = ref.get((key, cur(t))) if t is not None else None
                check((got.ident if got is not None else None) == exp, 'get() answers what was stored under the current search path (None if nothing was)')
            else:
                name = 'pkg_config_path' if op == 2 else 'cmake_prefix_path'
                store.vals[name] = [[], ['/A'], ['/B']][choose(3, 'path%d' % s)]
        # the final view of the whole cache
        for key in (('depa',), ('depb',)):
            got = cache.get(key); t = ftype.get(key)
            exp = ref.get((key, cur(t))) if t is not None else None
            check((got.ident if got is not None else None) == exp, 'final get() answers for the current options only')
        cover('done')
    return h


def ob_dependency_cache_machines():
    """the real coredata.CoreData() for a native and for a cross build: the dependency cache of EACH machine is keyed by that machine's own search path
    (host: pkg_config_path / cmake_prefix_path; build machine: build.pkg_config_path / ...): after the path of one machine changes, lookups for it miss (a
    fresh directory would search the new path) while the other machine's cache is untouched; in a native build both machines share one cache"""
    def h():
        import argparse, tempfile, shutil
        from mesonbuild import coredata
        from mesonbuild.mesonlib import MachineChoice
        tmp = tempfile.mkdtemp(prefix='c06cd')
        try:
            cross = choose(2, 'cross build') == 1
            cf = []
            if cross:
                p = os.path.join(tmp, 'cross.ini')
                with open(p, 'w') as f: f.write("[host_machine]\nsystem = 'linux'\ncpu_family = 'arm'\ncpu = 'arm'\nendian = 'little'\n")
                cf = [p]
            cd = coredata.CoreData(argparse.Namespace(cross_file=cf, native_file=[]), tmp, ['meson'])
            kind = ['pkgconfig', 'cmake'][choose(2, 'dependency type')]
            opt = {'pkgconfig': 'pkg_config_path', 'cmake': 'cmake_prefix_path'}[kind]
            key = ('dep',)
            cd.deps.host.put(key, FakeDep(kind, 'H'))
            cd.deps.build.put(key, FakeDep(kind, 'B'))
            if not cross:
                check(cd.deps.host is cd.deps.build, 'native build: one cache for both machines')
            which = [MachineChoice.HOST, MachineChoice.BUILD][choose(2, 'machine whose search path changes')] if cross else MachineChoice.HOST      # a native build has no separate build-machine options
            cd.optstore.set_option(M.O.OptionKey(opt, machine=which), ['/new'])
            h_ = cd.deps.host.get(key); b_ = cd.deps.build.get(key)
            if cross:
                if which is MachineChoice.HOST:
                    check(h_ is None, 'cross: a new host search path invalidates what the host cache remembered')
                    check(b_ is not None and b_.ident == 'B', 'cross: ... and leaves the build-machine cache alone')
                else:
                    check(b_ is None, 'cross: a new build-machine search path invalidates the build-machine cache')
                    check(h_ is not None and h_.ident == 'H', 'cross: ... and leaves the host cache alone')
            else:
                if which is MachineChoice.HOST:
                    check(h_ is None and b_ is None, 'native: the (single) search path changed: nothing remembered is used')
            cover('cross' if cross else 'native')
        finally:
            shutil.rmtree(tmp, ignore_errors=True)
    return h


class GenFS:
    """dictionary file system with a generation counter per file: every creation / truncation / rename onto / in-place copy of a path gives it a new generation
    ("touched"); reading does not. Stands for builtins.open, os.replace / unlink / path.exists and shutil.copyfile / copymode / copy2 in the module under test"""
    def __init__(self): self.files = {}; self.gen = 0

    def put(self, path, content):
        self.gen += 1; self.files[path] = [content, self.gen]

    def open(self, name, mode='r', **k):
        fs = self
        if 'w' in mode:
            fs.put(name, '')
            class WF:
                def write(s, x): fs.files[name][0] = fs.files[name][0] + x
                def writelines(s, xs):
                    for x in xs: s.write(x)
                def __enter__(s): return s
                def __exit__(s, *a): return False
            return WF()
        if name not in fs.files: raise FileNotFoundError(name)
        content = fs.files[name][0]
        class RF:
            def read(s): return content
            def readlines(s):
                out = []; cur = []
                for ch in chars_of(content):
                    cur.append(ch)
                    if decide(ceq(ch, 10)): out.append(mkstr(cur)); cur = []
                if cur: out.append(mkstr(cur))
                return out
            def __enter__(s): return s
            def __exit__(s, *a): return False
        return RF()

    def replace(self, a, b): self.gen += 1; self.files[b] = [self.files.pop(a)[0], self.gen]
    def unlink(self, a): del self.files[a]
    def copyfile(self, a, b, **k): self.put(b, self.files[a][0])
    def exists(self, a): return a in self.files


def ob_configure_file_untouched():
    """configure_file(input:, configuration:) run TWICE into the same build directory (the real do_conf_file -> do_conf_str -> replace_if_different on the
    dictionary file system): the template text (0-4 characters, may or may not spell a placeholder) and the value of the second run (equal to the first or not)
    are symbolic. The output always ends with the right content, and the second run touches it iff its content changes - whether or not anything was substituted"""
    def h():
        import harness.c14 as c14
        U = M.U
        if c14.U is None: c14.setup()
        fmt = ['meson', 'cmake@'][choose(2, 'format')]
        tmpl = sym_str(choose(5, 'template length'), 'template', alphabet='@Ka\n')
        v1 = sym_str(1, 'value1', alphabet='ab'); v2 = sym_str(1, 'value2', alphabet='ab')
        fs = GenFS(); fs.put('/src/in', tmpl)
        saved = (U.__dict__.get('open'), U.os, U.shutil)
        U.open = fs.open
        U.os = types.SimpleNamespace(replace=fs.replace, unlink=fs.unlink, path=types.SimpleNamespace(exists=fs.exists, join=os.path.join, basename=os.path.basename, dirname=os.path.dirname))
        U.shutil = types.SimpleNamespace(copymode=lambda a, b, **k: None, copyfile=fs.copyfile, copy2=fs.copyfile, copy=fs.copyfile, copystat=lambda a, b, **k: None)
        try:
            U.do_conf_file('/src/in', '/bld/out', c14.CD([('K', (v1, None))]), fmt)
            check('/bld/out' in fs.files and '/bld/out~' not in fs.files, 'first run: output written, temporary file gone')
            if '/bld/out' not in fs.files: return
            c1, g1 = fs.files['/bld/out']
            src_gen = fs.files['/src/in'][1]
            U.do_conf_file('/src/in', '/bld/out', c14.CD([('K', (v2, None))]), fmt)
        finally:
            U.os, U.shutil = saved[1], saved[2]
            if saved[0] is None: del U.open
            else: U.open = saved[0]
        check('/bld/out' in fs.files and '/bld/out~' not in fs.files, 'second run: output present, temporary file gone')
        c2, g2 = fs.files['/bld/out']
        same = len(c1) == len(c2) and decide(bt_any(eq(c1, c2)))
        check((g2 == g1) == bool(same), 'a re-run touches the output iff its content changes')
        if decide(bt_any(eq(v1, v2))): check(same, 'the same template and data give the same output')
        check(fs.files['/src/in'][1] == src_gen, 'the template is never written')
        cover('kept' if same else 'replaced')
        cover('substituted' if not (len(c1) == len(tmpl) and decide(bt_any(eq(c1, tmpl)))) else 'verbatim')
    return h


def ob_regen_filelist():
    """Backend.get_regen_filelist (the inputs of `build build.ninja: REGENERATE_BUILD ...`, written unsorted, and regeninfo.dump): with 1-2 cross files and 1-2
    native files the list is the same whatever order a set() would be iterated in - the iteration order of every set is an adversarial permutation here"""
    def h():
        from mesonbuild.backend import backends as BKm
        names = [sym_str(1, 'f%d' % i, alphabet='abcd') + '.ini' for i in range(4)]
        for i in range(4):
            for j in range(i): assume(sym_not(names[i] == names[j]))
        ncross = 1 + choose(2, 'cross files'); nnative = 1 + choose(2, 'native files')
        be = object.__new__(BKm.Backend)
        be.build_to_src = '../src'
        be.build = types.SimpleNamespace(def_files=['meson.build', 'sub/meson.build'])
        be.environment = types.SimpleNamespace(is_cross_build=lambda: True, coredata=types.SimpleNamespace(cross_files=names[:ncross], config_files=names[2:2 + nnative]))
        be.check_clock_skew = lambda deps: None

        def adversary(items):
            left = list(items); out = []
            while left: out.append(left.pop(choose(len(left), 'set order %d' % len(left))))
            return out

        class AdvSet(IOSet):
            def __iter__(s_): return iter(adversary(list(s_.d)))
        had = BKm.__dict__.get('set', None)
        if concrete(): BKm.set = IOSet          # the reference order is the insertion order in both modes (natively a real set would follow the hash seed)
        try:
            first = be.get_regen_filelist()
        finally:
            if concrete():
                if had is None: del BKm.set
                else: BKm.set = had
        if concrete(): BKm.set = AdvSet
        else:
            from symx import instr
            instr.SET_ORDER[0] = adversary
        try:
            second = be.get_regen_filelist()
        finally:
            if concrete():
                if had is None: del BKm.set
                else: BKm.set = had
            else:
                instr.SET_ORDER[0] = None
        check(len(first) == len(second) == 3 + ncross + nnative, 'every regeneration dependency is listed once')
        if len(first) == len(second):
            for a, b in zip(first, second): check(eq(a, b), 'the regeneration dependency list does not depend on the iteration order of a set')
        cover('done')
    return h


def ob_pkgconfig_reqs():
    """generated pkg-config files: the Requires: line built by the real DependenciesHelper.add_version_reqs / format_reqs for a package with 2-3 version
    constraints (collected in a set) is the same whatever order that set is iterated in (= whatever the hash seed)"""
    def h():
        from collections import defaultdict
        from mesonbuild.modules import pkgconfig as PC
        order = [None]

        class HSet(IOSet):
            def __iter__(s_):
                items = list(s_.d)
                return iter(order[0](items) if order[0] is not None and len(items) > 1 else items)

        def adversary(items):
            left = list(items); out = []
            while left: out.append(left.pop(choose(len(left), 'set order %d' % len(left))))
            return out
        n = 2 + choose(2, 'constraints')
        cons = ['>=2.' + sym_str(1, 'd0', alphabet='0123456789'), '<3.0', '!=2.' + sym_str(1, 'd2', alphabet='0123456789')][:n]
        hp = object.__new__(PC.DependenciesHelper)
        hp.version_reqs = defaultdict(HSet)
        hp.state = types.SimpleNamespace(subproject='')
        split = choose(2, 'added in two calls') == 1
        if split: hp.add_version_reqs('glib', cons[:1]); hp.add_version_reqs('glib', cons[1:])
        else: hp.add_version_reqs('glib', cons)
        first = hp.format_reqs(['glib', 'zlib'])
        order[0] = adversary
        second = hp.format_reqs(['glib', 'zlib'])
        check(len(first) == len(second) and decide(bt_any(eq(first, second))), 'the Requires: line does not depend on the iteration order of the constraint set')
        cover('done')
    return h


def obligations(tier):
    return [Obligation('replace-if-different', ob_replace(), dict(old='absent | 0-2 chars over a b newline', new='0-2 chars'), labels=('kept', 'replaced')),
            Obligation('configure-file-untouched', ob_configure_file_untouched(), dict(real='do_conf_file -> do_conf_str -> replace_if_different, twice', format='meson | cmake@', template='0-4 chars over @ K a newline', values='1 char each run, equal or not'),
                       labels=('kept', 'replaced', 'substituted', 'verbatim'), max_paths=2000000),
            Obligation('buildoptions-order', ob_buildoptions(), dict(options='b_lto b_ndebug b_pie, symbolic values; compiler options c_std c_args cpp_std cpp_args', insertion_order='every permutation of the base options; both language orders, both option orders'), labels=('done',)),
            Obligation('ninja-deps-order', ob_ninja_order(), dict(deps='4: a, ./a, one symbolic of 3 chars over a . /, one of 1 char', orderdeps='3 (1 symbolic)', insertion_order='every permutation of both'), labels=('done',), max_paths=2000000),
            Obligation('optionkey-order', ob_optionkey_order(), dict(keys='2: name 1 char over a b A (a name may differ in case only), subproject None | "" | a | b, machine host | build'), labels=('done',)),
            Obligation('env-hash-order', ob_env_hash(), dict(variables='2 set + 2 unset, distinct symbolic names', order='every permutation'), labels=('done',)),
            Obligation('regen-filelist-order', ob_regen_filelist(), dict(real='Backend.get_regen_filelist', machine_files='1-2 cross + 1-2 native, distinct symbolic names', set_order='adversarial permutation'), labels=('done',)),
            Obligation('pkgconfig-reqs-order', ob_pkgconfig_reqs(), dict(real='modules.pkgconfig.DependenciesHelper.add_version_reqs / format_reqs / format_vreq', constraints='2-3 on one package (symbolic digits), added in one or two calls', set_order='adversarial permutation'), labels=('done',)),
            Obligation('unique-list', ob_ordered(), dict(elements='1-4 symbolic'), labels=('done',)),
            Obligation('dependency-cache-machines', ob_dependency_cache_machines(), dict(real='coredata.CoreData.__init__, DependencyCache, OptionStore.set_option', build='native | cross', dependency_type='pkgconfig | cmake', changed_path='host | build machine'), labels=('native', 'cross')),
            Obligation('dependency-cache-history', ob_dependency_cache(3 if tier == 'quick' else 4), dict(steps=3 if tier == 'quick' else 4, operations='put (3 dependency types) | get | set pkg_config_path | set cmake_prefix_path', keys=2, paths='[] /A /B', persistence='optional pickle round trip before every step'), labels=('done',), max_paths=3000000)]
