"""C09 - a killed meson command never bricks the build directory (persistence protocol under a symbolic kill point; partial claim)."""
import copy
import os
import types
from symx.api import *

PROPERTY = 'C09'
INSTRUMENT = dict(prefixes=('mesonbuild.',), exact=('mesonbuild', 'configparser'))          # recorded-values executes the stdlib parser of cmd_line.txt symbolically
LEVEL = 'model_checking'
FILES = ['mesonbuild/coredata.py', 'mesonbuild/cmdline.py', 'mesonbuild/build.py', 'mesonbuild/utils/universal.py', 'mesonbuild/environment.py', 'mesonbuild/msetup.py', 'mesonbuild/mconf.py']
ENCODED = ['cmdline.write_cmd_line_file / update_cmd_line_file / read_cmd_line_file with configparser executed symbolically (recorded-values)', 'coredata.save (copy to .prev, write temp, flush, fsync, os.replace) / coredata.load', 'mesonlib.pickle_load (corrupt file -> MesonException)',
           'cmdline.write_cmd_line_file / update_cmd_line_file / read_cmd_line_file (configparser from the stdlib, real)', 'build.save',
           'environment.Environment.__init__ (load coredata; on a corrupt file regenerate from cmd_line.txt)',
           'the rollback after a failed run (msetup.MesonApp._generate, except-branch: 3 lines mirrored in the harness around the real coredata.save / load)', 'the order of the persistence calls of mconf.run_impl (update_cmd_line_file; Conf.save) and of msetup.MesonApp._generate (dump_coredata; backend temp+rename; build.save; '
           'write/update_cmd_line_file) is mirrored in the harness, each call being the real function']
EXPLANATION = ('The kill point is a symbolic integer: every mutating file-system primitive the real persistence functions issue (open-for-write = truncate, each write, flush, fsync, '
               'copyfile, os.replace, unlink) is one step of a modelled file system, and the command dies at the step the solver picks, with a symbolic number of bytes of the '
               'write in flight reaching the file. Then the first thing the follow-up `meson setup [--reconfigure]` does is run for real on the resulting files: '
               'Environment.__init__ (coredata.load through pickle_load; regeneration from cmd_line.txt if coredata.dat is unreadable) and read_cmd_line_file as '
               'MesonApp._generate does. It must not raise, and the option the interrupted command was setting must have its old or its new value. The follow-up then completes: its own write/update_cmd_line_file (with or without a new -D) runs on whatever the killed command left - e.g. coredata.dat but no cmd_line.txt yet - and the record must be readable afterwards.')
ASSUMPTIONS = ['file system = a dictionary path -> inode; writers are BUFFERED as CPython\'s (write() fills a user-space buffer that reaches the file at flush/close; a killed process never flushes; the inode follows a rename); a kill leaves exactly the effects of the completed steps plus a prefix of the write in flight (no page-cache loss: the '
               'statement is about a killed process, not a power failure)', 'pickle is an opaque encoder: a complete blob unpickles to a deep copy, an empty file raises EOFError, a '
               'truncated one pickle.UnpicklingError (what CPython does)', 'one option (warning_level) is changed from 1 to 2; it was given on the original command line',
               'backend generation is two steps (write build.ninja~, rename)', 'the DirectoryLock is not modelled (one process)']
OUT = ('the interpreter / backend run between the persistence steps, introspection files, a kill INSIDE the removal of one directory entry by --wipe (entries are one step each; the backup / empty / restore protocol itself is kill[wipe]), VS/Xcode backends, power-loss semantics, '
       'the exit status of a whole `meson setup` run (only its state-loading front end is executed)')
MANIFEST = dict(
    text='Bounded model checking of the persistence protocol with the kill point as a symbolic variable: for every step of the real coredata.save / build.save / cmd_line.txt writers '
         '(and every prefix of the write in flight) in `configure`, `setup --reconfigure` and a first `setup`, the state-loading front end of the follow-up `meson setup` '
         '(real Environment.__init__ + read_cmd_line_file) succeeds and sees the old or the new option value. Partial: the configuration run itself is outside.',
    note='Partial claim. Trusted: symx engine, z3, the file-system and pickle models. Bounds: every kill step of the three commands (<= 60 steps), every prefix length of the '
         'interrupted write; one option changed.')

M = types.SimpleNamespace()
_TMP = []


class Killed(BaseException):
    pass


class Inode:
    def __init__(self, c): self.c = c


class Files(dict):
    def __setitem__(self, k, v): dict.__setitem__(self, k, v if isinstance(v, Inode) else Inode(v))


class FS:
    """path -> Inode; content = str (text) | ('PICKLE', obj, complete[, 'truncated'])"""
    def __init__(self):
        self.files = Files(); self.step = 0; self.kill_at = None; self.log = []; self.dirs = set()

    def tick(self, what):
        """one mutating step; -> True if the process dies DURING this step"""
        self.step += 1
        self.log.append(what)
        if self.kill_at is None: return False
        return decide(eq(self.kill_at, self.step))

    def before(self, what):
        if self.tick(what): raise Killed(what)


class WF:
    """a buffered writer as CPython's: write() fills a user-space buffer, the bytes reach the file at flush()/close(); a killed process never flushes"""
    def __init__(self, fs, name, binary):
        self.fs, self.name, self.binary = fs, name, binary
        fs.before('open-truncate ' + os.path.basename(name))
        empty = ('PICKLE', None, False) if binary else ''
        if name in fs.files: fs.files[name].c = empty
        else: fs.files[name] = Inode(empty)
        self.inode = fs.files[name]         # follows the file through a rename
        self.buf = []; self.obj = None; self.closed = False
    def write(self, data):
        self.buf.append(data); return len(data)
    def dump(self, obj): self.obj = obj
    def _flush(self):
        if self.obj is not None:
            obj, self.obj = self.obj, None
            if self.fs.tick('write(pickle) ' + os.path.basename(self.name)):
                cut = choose(3, 'pickle_cut')        # nothing | truncated | all of it
                if cut == 1: self.inode.c = ('PICKLE', obj, False, 'truncated')
                elif cut == 2: self.inode.c = ('PICKLE', copy.deepcopy(obj), True)
                raise Killed('write')
            self.inode.c = ('PICKLE', copy.deepcopy(obj), True)
        if self.buf:
            data = ''
            for p in self.buf: data = data + p
            self.buf = []
            if self.fs.tick('write(%d bytes) ' % len(data) + os.path.basename(self.name)):
                cut = concretize_int(sym_int('cut', 0, len(data)), 300)
                self.inode.c = self.inode.c + data[:cut]
                raise Killed('write')
            self.inode.c = self.inode.c + data
    def flush(self): self._flush()
    def fileno(self): return 0
    def close(self):
        if not self.closed: self.closed = True; self._flush()
    def __enter__(self): return self
    def __exit__(self, et, ev, tb):
        if et is None or not issubclass(et, Killed): self.close()
        return False


class RF:
    def __init__(self, fs, name, binary):
        if name not in fs.files: raise FileNotFoundError(2, 'No such file or directory', name)
        self.content = fs.files[name].c; self.binary = binary
    def __iter__(self): return iter(self.content.splitlines(True))
    def read(self): return self.content
    def __enter__(self): return self
    def __exit__(self, *a): return False


def mk_open(fs):
    def fopen(name, mode='r', **k):
        name = str(name)
        if 'w' in mode: return WF(fs, name, 'b' in mode)
        return RF(fs, name, 'b' in mode)
    return fopen


class PathProxy:
    def __init__(self, fs): self.fs = fs
    def __getattr__(self, n): return getattr(os.path, n)
    def exists(self, p): return str(p) in self.fs.files or str(p) in self.fs.dirs or any(k.startswith(str(p) + '/') for k in self.fs.files)
    def isfile(self, p): return str(p) in self.fs.files
    def isdir(self, p): return str(p) in self.fs.dirs or any(k.startswith(str(p) + '/') for k in self.fs.files)


class OsProxy:
    def __init__(self, fs): self.fs = fs; self.path = PathProxy(fs)
    def __getattr__(self, n): return getattr(os, n)
    def makedirs(self, p, exist_ok=False, **k): self.fs.dirs.add(str(p)); return None
    def fsync(self, fd): self.fs.before('fsync')
    def replace(self, a, b):
        self.fs.before('rename %s -> %s' % (os.path.basename(a), os.path.basename(b)))
        self.fs.files[str(b)] = self.fs.files.pop(str(a))
    def unlink(self, p):
        self.fs.before('unlink'); del self.fs.files[str(p)]


def mk_pickle(fs):
    import pickle as real

    def dump(obj, f): f.dump(obj)

    def load(f):
        c = f.content
        if isinstance(c, tuple) and c[0] == 'PICKLE':
            if c[2]: return copy.deepcopy(c[1])
            if len(c) > 3: raise real.UnpicklingError('pickle data was truncated')
            raise EOFError('Ran out of input')
        raise real.UnpicklingError('invalid load key')
    return types.SimpleNamespace(dump=dump, load=load, UnpicklingError=real.UnpicklingError)


def setup():
    import argparse, tempfile, atexit, shutil
    from mesonbuild import coredata, cmdline, build, environment, mesonlib
    from mesonbuild.options import OptionKey
    import mesonbuild.utils.universal as U
    import configparser
    from harness.common import quiet_mlog
    quiet_mlog()
    M.coredata, M.cmdline, M.build, M.environment, M.U, M.configparser, M.OptionKey, M.ME = coredata, cmdline, build, environment, U, configparser, OptionKey, mesonlib.MesonException
    p = argparse.ArgumentParser()
    cmdline.register_builtin_arguments(p)
    o = p.parse_args([])
    o.cross_file = []; o.native_file = []
    cmdline.parse_cmd_line_options(o)
    src = tempfile.mkdtemp(prefix='c09src'); bld = tempfile.mkdtemp(prefix='c09bld')
    _TMP.extend([src, bld])
    atexit.register(lambda: [shutil.rmtree(d, ignore_errors=True) for d in _TMP])
    with open(os.path.join(src, 'meson.build'), 'w') as f:
        f.write("project('p')\n")
    M.src, M.bld, M.opts = src, bld, o
    env = environment.Environment(src, bld, o)
    M.cd0 = env.coredata
    M.WL = OptionKey('warning_level')


def options_with(value):
    o = copy.copy(M.opts)
    o.cmd_line_options = {M.WL: value} if value is not None else {}
    o.cross_file = []; o.native_file = []
    return o


def coredata_with(value):
    cd = copy.deepcopy(M.cd0)
    cd.optstore.set_option(M.WL, value)
    return cd


class Patched:
    """route the file operations of the persistence modules to the model for the duration of a with-block"""
    def __init__(self, fs): self.fs = fs
    def __enter__(self):
        import shutil
        fs = self.fs
        fo, osp, pk = mk_open(fs), OsProxy(fs), mk_pickle(fs)
        self.saved = []
        def setg(mod, name, val):
            self.saved.append((mod, name, mod.__dict__.get(name, Patched)))
            setattr(mod, name, val)
        for mod in (M.coredata, M.cmdline, M.build, M.U, M.configparser):
            setg(mod, 'open', fo)
        for mod in (M.coredata, M.cmdline, M.environment, M.build):
            setg(mod, 'os', osp)
        for mod in (M.coredata, M.build, M.U):
            setg(mod, 'pickle', pk)

        def copyfile(a, b, **k):
            fs.before('copy: create ' + os.path.basename(b))
            src = fs.files[str(a)].c
            fs.files[str(b)] = Inode(('PICKLE', None, False) if isinstance(src, tuple) else '')
            if fs.tick('copy: data ' + os.path.basename(b)):
                if isinstance(src, tuple):
                    if choose(2, 'copy_cut') == 1: fs.files[str(b)].c = ('PICKLE', src[1], False, 'truncated')
                else:
                    fs.files[str(b)].c = src[:concretize_int(sym_int('copy_cut', 0, len(src)), 300)]
                raise Killed('copyfile')
            fs.files[str(b)].c = src
        setg(shutil, 'copyfile', copyfile)
        return self
    def __exit__(self, *a):
        for mod, name, val in reversed(self.saved):
            if val is Patched: delattr(mod, name)
            else: setattr(mod, name, val)
        return False


def priv(name): return os.path.join(M.bld, 'meson-private', name)


def configured_dir(fs):
    """a build directory configured earlier with -Dwarning_level=1 (written by the real functions, no kill)"""
    M.coredata.save(coredata_with('1'), M.bld)
    fs.files[priv('build.dat')] = ('PICKLE', 'build', True)
    fs.files[os.path.join(M.bld, 'build.ninja')] = 'ninja old\n'
    M.cmdline.write_cmd_line_file(M.bld, options_with('1'))


def generate_backend(fs, fo, osp):
    f = fo(os.path.join(M.bld, 'build.ninja~'), 'w')
    f.write('ninja new\n'); f.close()
    osp.replace(os.path.join(M.bld, 'build.ninja~'), os.path.join(M.bld, 'build.ninja'))


def ob_kill(command):
    def h():
        fs = FS()
        with Patched(fs):
            fo, osp = M.coredata.open, M.coredata.os
            if command != 'first-setup':
                configured_dir(fs)
            fs.step = 0; fs.log = []
            fs.kill_at = sym_int('kill_at', 1, 60)
            killed = False
            b = types.SimpleNamespace(environment=types.SimpleNamespace(coredata=None))
            try:
                if command == 'configure':          # mconf.run_impl: update_cmd_line_file, then Conf.save
                    M.cmdline.update_cmd_line_file(M.bld, options_with('2'))
                    M.coredata.save(coredata_with('2'), M.bld)
                elif command == 'reconfigure':      # msetup._generate: dump_coredata, backend.generate, build.save, update_cmd_line_file
                    M.coredata.save(coredata_with('2'), M.bld)
                    generate_backend(fs, fo, osp)
                    M.build.save(b, priv('build.dat'))
                    M.cmdline.update_cmd_line_file(M.bld, options_with('2'))
                else:                               # first setup: ... write_cmd_line_file
                    M.coredata.save(coredata_with('2'), M.bld)
                    generate_backend(fs, fo, osp)
                    M.build.save(b, priv('build.dat'))
                    M.cmdline.write_cmd_line_file(M.bld, options_with('2'))
            except Killed:
                killed = True
            steps = fs.step
            fs.kill_at = None
            if not killed:
                assume(fs.step < 60)          # the command completed: kill_at lies beyond its last step
                cover('completed')
            else:
                cover('killed')
            observe('step', steps)
            # ---------------- the follow-up: meson setup [--reconfigure] (no new -D)
            follow = options_with(None)
            try:
                env = M.environment.Environment(M.src, M.bld, follow)
                user = options_with(None)
                M.cmdline.read_cmd_line_file(M.bld, user)          # first statement of MesonApp._generate
            except Exception as e:
                check(False, 'the follow-up meson setup can load the state the killed command left behind')
                return
            if env.first_invocation:
                # fresh directory, or coredata regenerated from cmd_line.txt: the value comes from the recorded command line
                val = follow.cmd_line_options.get(M.WL)
                if command == 'first-setup':
                    check(val in (None, '2'), 'after a killed first setup the recorded command line is absent or complete')
                else:
                    check(val in ('1', '2'), 'option value is the old or the new one (regenerated from cmd_line.txt)')
                cover('regenerated')
            else:
                val = env.coredata.optstore.get_value_for(M.WL)
                check(val in ('1', '2'), 'option value is the old or the new one (coredata.dat)')
                cover('loaded')
            uval = user.cmd_line_options.get(M.WL)
            if command != 'first-setup' or uval is not None:
                check(uval in ('1', '2'), 'the recorded command line has the old or the new value')
            # ---------------- ... and that follow-up run completes: its own persistence calls (end of msetup.MesonApp._generate) work on whatever the
            # killed command left (e.g. coredata.dat but no cmd_line.txt yet), and the state is loadable again afterwards
            newval = '3' if choose(2, 'the follow-up gives -D') == 1 else None
            f2 = options_with(newval)
            try:
                if env.first_invocation:
                    M.cmdline.write_cmd_line_file(M.bld, f2)
                else:
                    M.cmdline.update_cmd_line_file(M.bld, f2)
                again = options_with(None)
                M.cmdline.read_cmd_line_file(M.bld, again)
            except Exception:
                check(False, 'the follow-up run can record its command line and the record is readable afterwards'); return
            if newval is not None:
                check(again.cmd_line_options.get(M.WL) == '3', 'the follow-up run records the value it was given')
            elif not env.first_invocation and uval is not None:
                check(again.cmd_line_options.get(M.WL) == uval, 'a follow-up without -D keeps the recorded value')
            cover('follow-up completed')
    return h


def ob_recover():
    """whatever an interrupted earlier command left of coredata.dat (absent, empty, truncated, intact), the follow-up recovers as long as the recorded command line is there;
    without it an unreadable coredata.dat is a MesonException that names `meson setup --wipe`, never a Python error"""
    def h():
        fs = FS()
        with Patched(fs):
            configured_dir(fs)
            cdstate = choose(4, 'coredata.dat')       # intact | absent | empty | truncated
            cd = priv('coredata.dat')
            if cdstate == 1: del fs.files[cd]
            elif cdstate == 2: fs.files[cd] = ('PICKLE', None, False)
            elif cdstate == 3: fs.files[cd] = ('PICKLE', fs.files[cd].c[1], False, 'truncated')
            has_cmdline = choose(2, 'cmd_line.txt') == 0
            if not has_cmdline: del fs.files[priv('cmd_line.txt')]
            # an interrupted `setup --wipe` removes the top-level entries one by one: meson-info / meson-logs may be gone while meson-private is still there
            for dname in ('meson-info', 'meson-logs'):
                if choose(2, dname + ' exists') == 0: fs.dirs.add(os.path.join(M.bld, dname))
            leftovers = choose(2, 'leftover temp files') == 1
            if leftovers:
                fs.files[priv('coredata.dat~')] = ('PICKLE', None, False, 'truncated'); fs.files[priv('cmd_line.txt~')] = '[opt'
            follow = options_with(None)
            try:
                env = M.environment.Environment(M.src, M.bld, follow)
                user = options_with(None)
                M.cmdline.read_cmd_line_file(M.bld, user)
            except M.ME as e:
                check(cdstate in (2, 3) and not has_cmdline, 'MesonException only when coredata.dat is unreadable and there is no recorded command line to regenerate from')
                check('--wipe' in str(e), 'the error names the way out (meson setup --wipe)')
                cover('unrecoverable'); return
            except Exception:
                check(False, 'no Python error escapes while loading the state'); return
            check(not (cdstate in (2, 3) and not has_cmdline), 'an unreadable coredata.dat without a recorded command line is reported')
            pp = M.coredata.os.path
            check(all(pp.isdir(dd) for dd in (env.scratch_dir, env.log_dir, env.info_dir)), 'the directory layout (meson-private, meson-logs, meson-info) is there again after the front end, whatever was missing')
            if cdstate == 0:
                check(not env.first_invocation and env.coredata.optstore.get_value_for(M.WL) == '1', 'an intact coredata.dat is used as it is'); cover('loaded')
            else:
                check(env.first_invocation, 'configuration is regenerated from scratch')
                # an ABSENT coredata.dat means 'not configured yet': the user gives the options again and cmd_line.txt is not consulted by Environment
                if has_cmdline and cdstate != 1: check(follow.cmd_line_options.get(M.WL) == '1', 'with the recorded command line options')
                cover('regenerated')
    return h


def ob_failed_reconfigure():
    """a configuration run that fails AFTER dump_coredata() puts the previous state back (msetup.MesonApp._generate, except-branch, mirrored below): whatever
    the number of earlier successful saves, the persisted value is the one from before the failed command; a failed first setup leaves no coredata.dat"""
    def h():
        fs = FS()
        with Patched(fs):
            osp = M.coredata.os
            vals = ['1', '2', '3']
            n = choose(4, 'earlier_successful_saves')          # 0: this is the first setup
            for i in range(n):
                M.coredata.save(coredata_with(vals[i]), M.bld)
            cdf = M.coredata.save(coredata_with('0'), M.bld)   # the failing command has already dumped its coredata ...
            # ... when an exception arrives; msetup.py, _generate():   if cdf is not None: old_cdf = cdf + '.prev'
            #                                                              if os.path.exists(old_cdf): os.replace(old_cdf, cdf)  else: os.unlink(cdf)
            old_cdf = cdf + '.prev'
            if osp.path.exists(old_cdf): osp.replace(old_cdf, cdf)
            else: osp.unlink(cdf)
            if n == 0:
                check(not osp.path.exists(cdf), 'a failed first setup leaves no coredata.dat (the directory is not "configured")'); cover('first-setup'); return
            try:
                cd = M.coredata.load(M.bld)
            except Exception:
                check(False, 'the state put back after a failed run can be loaded'); return
            check(cd.optstore.get_value_for(M.WL) == vals[n - 1], 'a failed reconfigure leaves the persisted value exactly as it was before that command')
            cover('rolled-back')
    return h


STAGES = ['none', 'interpreter', 'postconf-hooks', 'backend', 'build.save', 'cmd_line', 'introspection', 'postconf-scripts']


def ob_setup_command():
    """the real msetup.MesonApp._generate with every collaborator recorded and ONE of them failing at a symbolic stage: the order of the persistence steps is the
    one the kill obligations assume (read cmd_line.txt; run; dump coredata; generate the backend; save build.dat; write - first invocation - or update
    cmd_line.txt), and a failure after the coredata dump puts the previous coredata.dat back (or removes the new one when there was none), re-raising the error"""
    def h():
        import types, argparse
        from mesonbuild import msetup
        fail = STAGES[choose(len(STAGES), 'failing stage')]
        first = decide(sym_bool('first_invocation')); prev = decide(sym_bool('coredata.dat.prev exists'))
        log = []
        cdf = '/b/meson-private/coredata.dat'

        def step(name, *a):
            log.append((name,) + a)
            if fail == name: raise M.ME('stage %s failed' % name)
        machines = types.SimpleNamespace(**{m: types.SimpleNamespace(cpu_family='x', cpu='x') for m in ('build', 'host', 'target')})
        env = types.SimpleNamespace(is_cross_build=lambda: False, machines=machines, get_scratch_dir=lambda: '/b/meson-private', first_invocation=first,
                                    dump_coredata=lambda: (step('dump-coredata'), cdf)[1],
                                    coredata=types.SimpleNamespace(cross_files=[], config_files=[], optstore=types.SimpleNamespace(get_value_for=lambda k: 'ninja')))
        backend = types.SimpleNamespace(name='ninja', generate=lambda c, v: step('backend'), run_postconf_scripts=lambda: step('postconf-scripts'))

        class Interp:
            def __init__(self, b, user_defined_options=None):
                self.backend = backend; self.user_defined_options = user_defined_options; self.subprojects = {}
            def run(self): step('interpreter')
        app = object.__new__(msetup.MesonApp)
        app.options = argparse.Namespace(profile=False, cross_file=[], native_file=[], cmd_line_options={})
        app.build_dir = '/b'; app.source_dir = '/s'
        app.finalize_postconf_hooks = lambda b, i: step('postconf-hooks')
        app.check_unused_options = lambda *a: None

        class OsProxy:
            path = types.SimpleNamespace(join=os.path.join, exists=lambda p: (log.append(('exists', p)), prev)[1])
            @staticmethod
            def replace(a, b): log.append(('replace', a, b))
            @staticmethod
            def unlink(a): log.append(('unlink', a))
        saved = (msetup.cmdline, msetup.build, msetup.interpreter, msetup.mintro, msetup.os, msetup.mlog)
        msetup.cmdline = types.SimpleNamespace(read_cmd_line_file=lambda bd, o: log.append(('read-cmd_line', bd)), format_cmd_line_options=lambda o: '',
                                               write_cmd_line_file=lambda bd, o: step('cmd_line', 'write', bd), update_cmd_line_file=lambda bd, o: step('cmd_line', 'update', bd))
        msetup.build = types.SimpleNamespace(Build=lambda e: types.SimpleNamespace(environment=e), save=lambda b, f: step('build.save', f))
        msetup.interpreter = types.SimpleNamespace(Interpreter=Interp)
        msetup.mintro = types.SimpleNamespace(write_meson_info_file=lambda b, errs, *a: log.append(('info', len(errs))), generate_introspection_file=lambda b, be: step('introspection'))
        msetup.os = OsProxy
        from harness.common import quiet_mlog
        msetup.mlog = quiet_mlog()
        raised = False
        try:
            app._generate(env, False, None)
        except M.ME:
            raised = True
        finally:
            msetup.cmdline, msetup.build, msetup.interpreter, msetup.mintro, msetup.os, msetup.mlog = saved
        kinds = [e[0] for e in log]
        order = ['read-cmd_line', 'interpreter', 'dump-coredata', 'postconf-hooks', 'backend', 'build.save', 'cmd_line', 'introspection']
        done = [k for k in kinds if k in order]
        upto = order if fail in ('none', 'postconf-scripts') else order[:order.index(fail) + 1]
        check(done == upto, 'the persistence steps run in the order the kill obligations assume, up to the failing one')
        if 'cmd_line' in kinds:
            e = [x for x in log if x[0] == 'cmd_line'][0]
            check(e[1] == ('write' if first else 'update') and e[2] == '/b', 'a first invocation writes cmd_line.txt, a later one updates it')
        check(raised == (fail != 'none'), 'the error of a failing stage is re-raised (the command fails)')
        rollback = [e for e in log if e[0] in ('replace', 'unlink')]
        if fail == 'none' or fail == 'interpreter':
            check(not rollback, 'no roll-back without a failure after the coredata dump')
            cover('completed' if fail == 'none' else 'failed-before-dump')
        else:
            check(rollback == ([('replace', cdf + '.prev', cdf)] if prev else [('unlink', cdf)]), 'a failure after the coredata dump puts the previous coredata.dat back, or removes the new one when there was none')
            check(('info', 1) in log, 'the failure is recorded in meson-info')
            cover('rolled-back')
    return h


def ob_validate_dirs():
    """the very first thing the follow-up command does - the real MesonApp.validate_dirs - on what a kill can leave in a build directory BEFORE any state file
    exists: 0-3 of the ignore files add_ignore_files writes (the last one possibly empty), meson-private / meson-logs / meson-info created or not, coredata.dat
    there or not. The prescribed recovery (plain `meson setup`, with --reconfigure iff the directory is configured) is never refused"""
    def h():
        import tempfile, shutil, argparse
        from mesonbuild import msetup
        tmp = tempfile.mkdtemp(prefix='c09vd')
        try:
            src = os.path.join(tmp, 'src'); bld = os.path.join(tmp, 'bld')
            os.makedirs(src); os.makedirs(bld)
            with open(os.path.join(src, 'meson.build'), 'w') as f: f.write("project('p')\n")
            nign = choose(4, 'ignore files written')
            for name in ['.gitignore', '.hgignore', 'CACHEDIR.TAG'][:nign]:
                with open(os.path.join(bld, name), 'w') as f: f.write('x')
            if nign and choose(2, 'last ignore file still empty'):
                open(os.path.join(bld, ['.gitignore', '.hgignore', 'CACHEDIR.TAG'][nign - 1]), 'w').close()
            priv = nign == 3 and choose(2, 'meson-private exists') == 1
            configured = False
            if priv:
                os.makedirs(os.path.join(bld, 'meson-private'))
                for dname in ('meson-logs', 'meson-info'):
                    if choose(2, dname + ' exists'): os.makedirs(os.path.join(bld, dname))
                configured = choose(2, 'coredata.dat exists') == 1
                if configured: open(os.path.join(bld, 'meson-private', 'coredata.dat'), 'w').close()
            app = object.__new__(msetup.MesonApp)
            app.options = argparse.Namespace(builddir=bld, sourcedir=src, reconfigure=configured, wipe=False, cmd_line_options={})
            try:
                s, b = app.validate_dirs()
            except (M.ME, SystemExit):
                check(False, 'the prescribed recovery command is not refused, whatever the interrupted command left'); return
            check(os.path.samefile(s, src) and os.path.samefile(b, bld), 'source and build directory are told apart')
            check(all(os.path.exists(os.path.join(bld, n)) for n in ('.gitignore', '.hgignore', 'CACHEDIR.TAG')) or nign > 0, 'an empty build directory gets its ignore files')
            cover('configured' if configured else ('partial' if nign else 'empty'))
        finally:
            shutil.rmtree(tmp, ignore_errors=True)
    return h


def ob_kill_wipe():
    """`meson setup --wipe` killed at any of its file-system steps - the real MesonApp.__init__ (validate_dirs, backup of cmd_line.txt and machine files to a
    temporary directory, read_cmd_line_file, removal of every entry of the build directory, add_ignore_files, restore) on a real scratch directory; every
    mutating call it issues is one step and `kill_at` is a SYMBOLIC step number. The recovery is the same command again: it must not be refused or end in a
    Python error, and the recorded command line it re-derives the configuration from still names the value from before"""
    def h():
        import tempfile, shutil, argparse, glob
        from mesonbuild import msetup, mesonlib
        tmp = tempfile.mkdtemp(prefix='c09wipe')
        saved = []
        try:
            src = os.path.join(tmp, 'src'); bld = os.path.join(tmp, 'bld')
            os.makedirs(src); os.makedirs(os.path.join(bld, 'meson-private')); os.makedirs(os.path.join(bld, 'meson-info')); os.makedirs(os.path.join(bld, 'meson-logs'))
            with open(os.path.join(src, 'meson.build'), 'w') as f: f.write("project('p')\n")
            o1 = options_with('1')
            M.cmdline.write_cmd_line_file(bld, o1)
            has_ini = choose(2, 'a machine file copy in meson-private') == 1
            if has_ini:
                with open(os.path.join(bld, 'meson-private', 'meson_native_file.ini'), 'w') as f: f.write('[binaries]\n')
            for rel in ('meson-private/coredata.dat', 'build.ninja', 'meson-info/intro-targets.json', 'meson-logs/meson-log.txt', '.gitignore', '.hgignore', 'CACHEDIR.TAG'):
                with open(os.path.join(bld, rel), 'w') as f: f.write('x')
            step = [0]; kill_at = sym_int('kill_at', 1, 40); log = []
            # two ways to die: SIGKILL - nothing runs any more, so every later mutating call of the dying process (a `finally:` clause being unwound) dies too -
            # and SIGINT - KeyboardInterrupt at that point, the `finally:` clauses DO run
            hard = choose(2, 'SIGKILL (else SIGINT)') == 1
            dead = [False]

            def tick(what):
                if dead[0] and hard: raise Killed(what)
                step[0] += 1; log.append(what)
                if not dead[0] and step[0] <= 40 and decide(eq(kill_at, step[0])):
                    dead[0] = True; raise Killed(what)

            def wrap(mod, name, what):
                real = getattr(mod, name)
                def w(*a, **k):
                    tick(what + ' ' + os.path.basename(str(a[0])) if a else what)
                    return real(*a, **k)
                saved.append((mod, name, real)); setattr(mod, name, w)
            fake_shutil = types.SimpleNamespace(**{n: getattr(shutil, n) for n in dir(shutil) if not n.startswith('_')})
            saved.append((msetup, 'shutil', msetup.shutil)); msetup.shutil = fake_shutil
            wrap(fake_shutil, 'copy', 'backup'); wrap(fake_shutil, 'move', 'restore')
            wrap(mesonlib, 'windows_proof_rmtree', 'rmtree'); wrap(mesonlib, 'windows_proof_rm', 'rm')
            real_open = open
            def fopen(name, mode='r', **k):
                if 'w' in mode: tick('write ' + os.path.basename(str(name)))
                return real_open(name, mode, **k)
            saved.append((msetup, 'open', msetup.__dict__.get('open', Patched))); msetup.open = fopen

            def wipe_cmd():
                o = options_with(None)
                o.builddir = bld; o.sourcedir = src; o.wipe = True; o.reconfigure = False
                app = msetup.MesonApp(o)
                return o
            killed = False
            try:
                wipe_cmd()
            except Killed:
                killed = True
            n_steps = step[0]
            if not killed:
                assume(n_steps < 40); cover('completed')
            else:
                cover('killed')
            observe('steps', n_steps)
            # ---- recovery: the same command again, no kill
            kill_at = 10 ** 6; step[0] = 10 ** 3; dead[0] = False; hard = False
            try:
                o2 = wipe_cmd()
            except (M.ME, SystemExit):
                check(False, 'the recovery command (setup --wipe again) is not refused'); return
            except Killed:
                raise
            val = o2.cmd_line_options.get(M.WL)
            check(val == '1', 'after the recovery the recorded command line still names the value from before the interrupted --wipe')
            check(os.path.isfile(M.cmdline.get_cmd_line_file(bld)), 'the recorded command line is back in place')
            if has_ini: check(os.path.isfile(os.path.join(bld, 'meson-private', 'meson_native_file.ini')), 'the private machine-file copy is back in place')
        finally:
            for mod, name, val in reversed(saved):
                if val is Patched: delattr(mod, name)
                else: setattr(mod, name, val)
            shutil.rmtree(tmp, ignore_errors=True)
    return h


def classify_wipe(label, inputs):
    return label


def obligations(tier):
    out = []
    for c in ('configure', 'reconfigure', 'first-setup'):
        out.append(Obligation('kill[%s]' % c, ob_kill(c), dict(command=c, kill_step='symbolic 1..60 (every step of the command)', interrupted_write='every prefix'),
                              labels=('killed', 'completed', 'loaded') + (('regenerated',) if c == 'first-setup' else ()), optional_labels=('regenerated',), max_paths=200000, path_timeout=120))
    out.append(Obligation('kill[wipe]', ob_kill_wipe(), dict(real='msetup.MesonApp.__init__ (validate_dirs, backup, read_cmd_line_file, removal, add_ignore_files, restore) on a scratch directory', kill_step='symbolic 1..40 (every mutating call)', kill_kind='SIGKILL (nothing runs afterwards) | SIGINT (finally clauses run)',
                          recovery='the same command again'), labels=('killed', 'completed'), classify=classify_wipe, max_paths=100000, path_timeout=120))
    import harness.c08 as _c08; _c08.setup()          # the record of the command line is what --wipe and the recovery from an unreadable coredata.dat rebuild every option from
    for n in (0, 1):
        out.append(Obligation('recorded-values[%d]' % n, _c08.ob_cmdline_file(n), dict(real='cmdline.write_cmd_line_file / update_cmd_line_file / read_cmd_line_file (decided for C08 as well)', value_length=n, alphabet='a space = # newline [ % : ; tab', keys='opt, sub:o2, build.o3', then='nothing | update | delete'), labels=('done',), max_paths=3000000, classify=_c08.classify_cmdline))
    out.append(Obligation('failed-reconfigure', ob_failed_reconfigure(), dict(earlier_successful_saves='0..3', rollback='the except-branch of MesonApp._generate, mirrored'), labels=('first-setup', 'rolled-back')))
    out.append(Obligation('setup-command', ob_setup_command(), dict(real='msetup.MesonApp._generate', recorded='Interpreter, Build, build.save, backend, cmdline.*, mintro, os.replace/unlink/path.exists', failing_stage=STAGES, first_invocation='symbolic', prev_exists='symbolic'), labels=('completed', 'failed-before-dump', 'rolled-back')))
    out.append(Obligation('validate-dirs', ob_validate_dirs(), dict(real='msetup.MesonApp.validate_dirs / validate_core_dirs / add_ignore_files on a scratch directory', left_behind='0-3 ignore files (last possibly empty), meson-private / -logs / -info, coredata.dat', command='meson setup, --reconfigure iff configured'), labels=('empty', 'partial', 'configured')))
    out.append(Obligation('recover', ob_recover(), dict(coredata_dat='intact | absent | empty | truncated', cmd_line_txt='present | absent', leftover_temp_files='both'),
                          labels=('loaded', 'regenerated', 'unrecoverable')))
    return out
