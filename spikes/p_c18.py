import sys, time
sys.path.insert(0, __import__('os').path.dirname(__import__('os').path.abspath(__file__))); sys.path.insert(0, '/repo')
from sx import instr, core
from sx.values import *
from sx.core import choose, check, cover
instr.install()
from mesonbuild.mtest import TAPParser, TestResult
import z3

def casevar(word):
    # each letter independently upper or lower: symbolic char constrained to the two spellings
    s = core.ctx().solver
    cs = []
    for ch in word:
        v = z3.Int(core.fresh_name('cs'))
        s.add(z3.Or(v == ord(ch.lower()), v == ord(ch.upper())))
        cs.append(v)
    return SymStr(cs)

def mkline():
    k = choose(9, 'form')
    if k == 0:   # test line
        ok = choose(2) == 0
        line = 'ok' if ok else 'not ok'
        hasnum = choose(2) == 0
        num = None
        if hasnum:
            num = sym_int('n', 0, 99)
            line = line + ' ' + sym_str_of_int(num, 2)
        nm = choose(2)
        if nm: line = line + ' ' + sym_str(1, 'nm', 33, 126)
        d = choose(4)
        if d == 1: line = line + ' # ' + casevar('skip') + sym_str(choose(2), 'sk', 33, 126)
        elif d == 2: line = line + ' # ' + casevar('todo')
        elif d == 3: line = line + ' #' + sym_str(2, 'dj', 32, 126)
        return ('test', ok, num, d), line
    if k == 1:
        n = sym_int('p', 0, 99)
        d = choose(3)
        line = '1..' + sym_str_of_int(n, 2)
        if d == 1: line = line + ' # ' + casevar('skip')
        elif d == 2: line = line + ' # ' + casevar('todo')
        return ('plan', n, d), line
    if k == 2:
        v = sym_int('v', 0, 99)
        return ('version', v), 'TAP version ' + sym_str_of_int(v, 2)
    if k == 3: return ('bail',), 'Bail out! x'
    if k == 4: return ('diag',), '# ' + sym_str(1, 'dg', 32, 126)
    if k == 5: return ('yamlstart',), sym_str(1, 'ind', alphabet=' \t') + '---'
    if k == 6: return ('yamlend',), sym_str(1, 'ind', alphabet=' \t') + '...'
    if k == 7: return ('blank',), ''
    return ('junk',), sym_str(2, 'j', 32, 126)

def harness(nlines):
    def h():
        forms = []; lines = []
        for i in range(nlines):
            f, l = mkline(); forms.append(f); lines.append(l)
        ev = list(TAPParser().parse(iter(lines)))
        cover('done')
        # sanity property: number of Test events == number of test-form lines not swallowed by yaml...
        ntests = sum(1 for e in ev if isinstance(e, TAPParser.Test))
    return h

if __name__ == "__main__":
  for n in (1, 2):
        t0 = time.time()
        st = core.explore(harness(n), max_paths=200000)
        print('lines', n, 'paths', st['paths'], 'checks', st['checks'], 'errors', len(st['errors']), 'aborted', st['aborted'], 'time %.1f' % st['time'], st.get('truncated'))
        for e in st['errors'][:3]: print(e[:2])
