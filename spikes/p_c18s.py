import sys, time
sys.path.insert(0, __import__('os').path.dirname(__import__('os').path.abspath(__file__))); sys.path.insert(0, '/repo')
from sx import instr, core
from sx.values import *
from sx.core import choose, check, cover, assume
instr.install()
from mesonbuild.mtest import TAPParser, TestResult
import z3
from p_c18 import mkline

def mkstate():
    p = TAPParser()
    p.state = [1, 2, 3][choose(3, 'st')]
    p.version = [12, 13][choose(2, 'ver')]
    if choose(2, 'hasplan'):
        n = sym_int('pn', 0); late = sym_bool('late')
        p.plan = TAPParser.Plan(num_tests=n, late=late, skipped=sym_bool('sk'), explanation=None)
    p.num_tests = sym_int('nt', 0); p.last_test = sym_int('lt', 0); p.highest_test = sym_int('ht', 0)
    assume(p.highest_test >= p.last_test)
    p.found_late_test = sym_bool('flt'); p.bailed_out = sym_bool('bo')
    p.lineno = sym_int('ln', 0)
    p.yaml_lineno = 1
    p.yaml_indent = sym_str(1, 'yi', alphabet=' \t') if p.state == 3 else ''
    return p

def harness(free):
    def h():
        p = mkstate()
        if free:
            line = sym_str(free, 'f', 1, 126)
        else:
            _, line = mkline()
        eof = (not free) and choose(2, 'eof') == 1
        try:
            ev = list(p.parse_line(None if eof else line))
        except AssertionError:
            check(False, 'assertion raised'); return
        check(p.highest_test >= p.last_test, 'inv highest>=last')
        check(p.num_tests >= 0, 'inv num_tests')
        ok = True
        for e in ev:
            if isinstance(e, TAPParser.Test):
                check(e.number == p.last_test, 'test number is last_test')
        cover('done')
    return h

if __name__ == '__main__':
    for free in (0, 1, 2, 3):
        st = core.explore(harness(free), max_paths=60000)
        print('free', free, 'paths', st['paths'], 'viol', len(st['violations']), 'errors', len(st['errors']), st['labels'], 'time %.1f' % st['time'], st.get('truncated'), flush=True)
        for e in st['errors'][:3]: print('   ', e[:2])
        seen = set()
        for v in st['violations']:
            if v[0] in seen: continue
            seen.add(v[0]); print('   V', v[0], str(v[1]).replace('\n', ' ')[:300])
