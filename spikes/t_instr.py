import sys, os, time
sys.path.insert(0, __import__('os').path.dirname(__import__('os').path.abspath(__file__))); sys.path.insert(0, '/repo')
from sx import instr
instr.install()
os.chdir('/repo')
import unittest
t0 = time.time()
suite = unittest.defaultTestLoader.loadTestsFromNames(['unittests.versiontests', 'unittests.cargotests', 'unittests.taptests', 'unittests.optiontests'])
import io
r = unittest.TextTestRunner(verbosity=0, stream=io.StringIO()).run(suite)
print('ran', r.testsRun, 'fail', len(r.failures), 'err', len(r.errors), 'time %.2f' % (time.time() - t0))
for t, tb in (r.failures + r.errors)[:5]:
    print(t); print(tb[-1500:])
