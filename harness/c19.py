"""C19 - version comparison is a consistent order; constraint logic is sound."""
from symx.api import *
import copy

PROPERTY = 'C19'
LEVEL = 'other'
FILES = ['mesonbuild/utils/universal.py', 'mesonbuild/interpreterbase/interpreterbase.py', 'mesonbuild/interpreter/primitives/string.py']
ENCODED = ['mesonbuild.utils.universal.Version.__init__', 'Version.__lt__/__le__/__gt__/__ge__/__eq__/__ne__/__hash__/__cmp',
           '_version_extract_cmpop', 'version_compare', 'version_compare_many', 'Range.__post_init__/__contains__/_intersect_min/'
           '_intersect_max/intersect/always', 'version_check_to_range', 'version_compare_condition_with_min',
           '_VERSION_TOK_RE (interpreted from CPython\'s own parse tree)',
           'InterpreterBase.evaluate_if / evaluate_notstatement / evaluate_andstatement / evaluate_orstatement (meson_version narrowing)', 'MesonVersionStringHolder.version_compare_method']
EXPLANATION = ('Symbolic execution (own engine symx: proxy values through the real CPython functions, fork-by-re-execution, z3 decides every '
               'branch and every assertion) of mesonlib.Version / version_compare / Range on symbolic version strings (concrete length, symbolic '
               'characters over printable ASCII) and symbolic Range end points; compared on every path with an independent reference comparator '
               'written from the property statement, with the order axioms, and with the set-theoretic meaning of Range operations.')
ASSUMPTIONS = ['alphabet: printable ASCII 32..126 (under it \\d and [a-zA-Z] coincide with their Unicode meaning)',
               'string lengths as stated per obligation; longer strings and non-ASCII are outside the claim',
               'hash() is modelled as an injective function of its argument (no collisions): equal iff the hashed values are equal',
               'numeric components are unbounded mathematical integers (Python int)']
OUT = 'version strings longer than the stated lengths, non-ASCII digits/letters, search_version()'

MANIFEST = dict(
    text='Bounded symbolic decision: for ALL pairs of version strings up to the stated lengths over printable ASCII (not a sample), every comparison of the real '
         'Version class agrees with an independent reference order and satisfies the order axioms; Range algebra is decided over unbounded integer end points. '
         'Right level: the property is a universally quantified statement over strings whose interesting cases (digit/letter boundaries, prefixes, leading zeros) are '
         'found by the code\'s own branches; outside the length bound nothing is claimed.',
    note='Trusted: the symx engine (validated on every run by re-running sampled path witnesses natively), z3, the reference comparator (20 lines, from the statement). '
         'Bounds: pairs len<=3 (quick) / <=4 (thorough), triples len<=2/3, constraint lists <=2/3 over {0-9,a,b,.}; ASCII only.')

U = None


def setup():
    global U
    import mesonbuild.utils.universal as U_
    U = U_


# ------------------------------------------------------------------ reference comparator (from the statement)
def ref_tokens(s):
    """maximal digit runs (numbers) and maximal ASCII-letter runs (strings); everything else separates"""
    out = []; i = 0; cs = chars_of(s); n = len(cs)
    while i < n:
        if decide(c_isdigit(cs[i])):
            j = i
            while j < n and decide(c_isdigit(cs[j])): j += 1
            out.append(('n', sym_int_of_str(mkstr(cs[i:j])))); i = j
        elif decide(c_isalpha(cs[i])):
            j = i
            while j < n and decide(c_isalpha(cs[j])): j += 1
            out.append(('a', mkstr(cs[i:j]))); i = j
        else:
            i += 1
    return out


def ref_cmp(ta, tb):
    """-1/0/1: numeric components compare numerically and rank above alphabetic ones; alphabetic ones
    compare as strings; a proper prefix is smaller"""
    for (ka, va), (kb, vb) in zip(ta, tb):
        if ka != kb:
            return 1 if ka == 'n' else -1
        if decide(va < vb): return -1
        if decide(va > vb): return 1
    return (len(ta) > len(tb)) - (len(ta) < len(tb))


def six(A, B):
    return (A < B, A <= B, A > B, A >= B, A == B, A != B)


def expect_six(e):
    return (e < 0, e <= 0, e > 0, e >= 0, e == 0, e != 0)


NAMES = ('lt', 'le', 'gt', 'ge', 'eq', 'ne')


def ob_order(la, lb):
    def h():
        a = sym_str(la, 'a', 32, 126); b = sym_str(lb, 'b', 32, 126)
        A, B = U.Version(a), U.Version(b)
        got = six(A, B)
        e = ref_cmp(ref_tokens(a), ref_tokens(b))
        for name, g, x in zip(NAMES, got, expect_six(e)):
            check(eq(g, x), name + ' agrees with the reference comparator')
        # mirror laws, oracle-free
        check(eq(B > A, got[0]), 'a<b iff b>a')
        check(eq(B >= A, got[1]), 'a<=b iff b>=a')
        # equal versions have equal hash keys
        if decide(bt_any(got[4])):
            check(eq(A.__hash__(), B.__hash__()), 'equal versions hash equally')
            cover('equal')
        else:
            cover('unequal')
        observe('cmp', e)
    return h


def ob_trans(la, lb, lc):
    def h():
        a = sym_str(la, 'a', 32, 126); b = sym_str(lb, 'b', 32, 126); c = sym_str(lc, 'c', 32, 126)
        A, B, C = U.Version(a), U.Version(b), U.Version(c)
        ab = A < B; bc = B < C; ac = A < C
        check(sym_implies(sym_and(ab, bc), ac), '< is transitive')
        abe = A <= B; bce = B <= C; ace = A <= C
        check(sym_implies(sym_and(abe, bce), ace), '<= is transitive')
        check(sym_implies(sym_and(A == B, B == C), A == C), '== is transitive')
        # exactly one of <, ==, >
        lt, e, gt = bt_any(ab), bt_any(A == B), bt_any(A > B)
        one = sym_or(sym_and(lt, sym_not(mkbool(e)), sym_not(mkbool(gt))),
                     sym_and(sym_not(mkbool(lt)), e, sym_not(mkbool(gt))),
                     sym_and(sym_not(mkbool(lt)), sym_not(mkbool(e)), gt))
        check(one, 'trichotomy')
        cover('done')
    return h


OPS = ['>=', '<=', '!=', '==', '=', '>', '<', '']


def ref_op(opstr):
    """what the documentation says a constraint's leading operator means"""
    return {'>=': 3, '<=': 1, '!=': 5, '==': 4, '=': 4, '>': 2, '<': 0, '': 4}[opstr]


def ob_compare(lo, lv, lw):
    """version_compare with a symbolic spelling of the operator part"""
    def h():
        o = sym_str(lo, 'op', alphabet='<>=! 1'); v = sym_str(lv, 'v', 32, 126); w = sym_str(lw, 'w', alphabet='0123456789ab. ,')
        got = U.version_compare(v, o + w)
        # reference: longest operator among the documented ones at the start, rest stripped
        s = o + w
        op = ''
        for cand in ['>=', '<=', '!=', '==', '=', '>', '<']:
            if decide(bt_any(s.startswith(cand))):
                op = cand; break
        rest = s[len(op):]
        rest = rest.strip()
        e = ref_cmp(ref_tokens(v), ref_tokens(rest))
        exp = expect_six(e)[ref_op(op)]
        check(eq(got, exp), 'version_compare == reference')
        ok, nf, f = U.version_compare_many(v, [s])
        check(eq(ok, exp), 'version_compare_many agrees')
        check(len(nf) + len(f) == 1, 'partition')
        ok1, nf1, f1 = U.version_compare_many(v, s)          # a bare string is ONE condition (what 'x'.version_compare(s) passes), whatever characters it holds
        check(eq(ok1, exp), 'version_compare_many(v, str) is version_compare(v, str)')
        check(len(nf1) + len(f1) == 1 and eq((nf1 + f1)[0], s), 'a bare string is one condition')
        cover('op' + op)
    return h


class Pt:
    """an end point / a member: a distinct OBJECT per value in both modes (like a Version; two equal Python ints may be one object, which would hide an
    `is` written for `==`), ordered by its integer"""
    __slots__ = ('v',)
    def __init__(self, v): self.v = v
    def __lt__(self, o): return self.v < o.v
    def __le__(self, o): return self.v <= o.v
    def __gt__(self, o): return self.v > o.v
    def __ge__(self, o): return self.v >= o.v
    def __eq__(self, o): return isinstance(o, Pt) and self.v == o.v
    def __ne__(self, o): return not isinstance(o, Pt) or self.v != o.v
    __hash__ = None
    def __repr__(self): return 'Pt(%r)' % (self.v,)


def mk_range(tag):
    """an arbitrary Range over integers"""
    kind = choose(4, tag + 'kind')      # 0: empty flag, 1: min only, 2: max only, 3: both  (None/None covered by emptiness flag False)
    if kind == 0:
        return U.Range(is_empty=decide(sym_bool(tag + 'empty')))
    mn = Pt(sym_int(tag + 'min')) if kind in (1, 3) else None
    mx = Pt(sym_int(tag + 'max')) if kind in (2, 3) else None
    return U.Range(min=mn, min_eq=sym_bool(tag + 'mineq'), max=mx, max_eq=sym_bool(tag + 'maxeq'))


def member(x, r):
    """set-theoretic meaning of a Range, written independently of Range.__contains__"""
    if r.is_empty is True: return False
    c = [sym_not(r.is_empty)]
    if r.min is not None:
        c.append(sym_ite(r.min_eq, x >= r.min, x > r.min))
    if r.max is not None:
        c.append(sym_ite(r.max_eq, x <= r.max, x < r.max))
    return sym_and(*c)


def ob_range():
    def h():
        a = mk_range('a'); b = mk_range('b')
        x = Pt(sym_int('x'))
        ma, mb = member(x, a), member(x, b)
        check(eq(x in a, decide(bt_any(ma))), '__contains__ means membership')
        r = a.intersect(b)
        check(eq(member(x, r), sym_and(ma, mb)), 'intersect is set intersection')
        check(eq(member(x, a), ma) and eq(member(x, b), mb), 'intersect leaves its operands alone (ranges are shared between if-blocks)')
        al = a.always(b)
        if al is True:
            check(sym_implies(ma, mb), 'always()==True: every member of self satisfies inner'); cover('always-true')
        elif al is False:
            check(sym_implies(ma, sym_not(mb)), 'always()==False: no member of self satisfies inner'); cover('always-false')
        else:
            check(al is None, 'always() returns True/False/None'); cover('always-none')
    return h


def ob_checks(nchecks, lv, lx):
    def h():
        checks = []
        for i in range(nchecks):
            op = OPS[choose(len(OPS), 'op%d' % i)]
            checks.append(op + sym_str(lv, 'v%d' % i, alphabet='0123456789ab.'))
        x = sym_str(lx, 'x', alphabet='0123456789ab.')
        rng = U.version_check_to_range(checks)
        X = U.Version(x)
        sat = [U.version_compare(x, c) for c in checks]
        inr = X in rng
        allsat = True
        for s_ in sat: allsat = sym_and(allsat, s_)
        check(sym_implies(allsat, inr), 'a version satisfying every check lies in the range')
        for c, s_ in zip(checks, sat):
            if not c.startswith('!='):
                check(sym_implies(inr, s_), 'a version in the range satisfies every non-!= check')
        cover('done')
    return h


def ob_checks_start(nchecks, lv, lx, AB='0123456789ab.'):
    """version_check_to_range with an explicit start range (the project's meson_version range, itself built from two checks), as the if-block narrowing of the
    interpreter calls it: the result is sound relative to start AND the checks, and the caller's start range is the same set afterwards - it is used again for
    the next if-block"""
    def h():
        SOPS = ['>=', '>', '<=', '<']          # the start range: bounds (equalities and != add nothing to what the one-range obligations cover)
        first = [SOPS[choose(4, 'sop%d' % i)] + sym_str(lv, 'sv%d' % i, alphabet=AB) for i in range(2)]
        start = U.version_check_to_range(first)
        checks = [OPS[choose(len(OPS), 'op%d' % i)] + sym_str(lv, 'v%d' % i, alphabet=AB) for i in range(nchecks)]
        x = sym_str(lx, 'x', alphabet=AB)
        X = U.Version(x)
        in_start = X in start
        rng = U.version_check_to_range(checks, start)
        check(eq(X in start, in_start), 'the start range passed in denotes the same set of versions after the call')
        sat = [U.version_compare(x, c) for c in checks]
        inr = X in rng
        allsat = in_start
        for s_ in sat: allsat = sym_and(allsat, s_)
        check(sym_implies(allsat, inr), 'a version in start satisfying every check lies in the narrowed range')
        check(sym_implies(inr, in_start), 'the narrowed range lies within start')
        for c, s_ in zip(checks, sat):
            if not c.startswith('!='):
                check(sym_implies(inr, s_), 'a version in the narrowed range satisfies every non-!= check')
        if len(AB) > 6:
            rng2 = U.version_check_to_range(checks, start)
            check(eq(X in rng2, inr), 'narrowing the same start by the same checks again gives the same set')
        cover('done')
    return h


def ob_condmin(lv, lm, lx):
    def h():
        op = OPS[choose(len(OPS), 'op')]
        cond = op + sym_str(lv, 'v', alphabet='0123456789ab.')
        minimum = sym_str(lm, 'm', alphabet='0123456789ab.')
        x = sym_str(lx, 'x', alphabet='0123456789ab.')
        r = U.version_compare_condition_with_min(cond, minimum)
        if r:
            # every version that satisfies the condition is at least the minimum
            check(sym_implies(U.version_compare(x, cond), U.Version(x) >= U.Version(minimum)), 'condition implies >= minimum')
            cover('true')
        else:
            cover('false')
    return h


def ob_if_narrowing(symbolic_x):
    """the meson_version narrowing of if-blocks (InterpreterBase.evaluate_if + MesonVersionString.version_compare + Range.intersect): a real Interpreter runs
    an if / elif / else chain whose conditions are version tests (symbolic operator and version), Booleans, and and/or/not combinations of them; a probe inside
    every block records the range feature checks would use there. In a block that runs, that range contains the running version (a feature check that is
    silenced there is silenced for a version that can reach the block), it is the project's range wherever the clause tests no version, and it is the project's
    range again after the statement"""
    import harness.c01 as C1
    from mesonbuild import mesonlib, coredata

    def h():
        if C1.ENV is None: C1.setup()
        running = U.Version(coredata.version)
        B0 = sym_bool('B0'); B1 = sym_bool('B1')
        VOPS = ['>=', '<', '==']
        def vc(tag):
            op = VOPS[choose(len(VOPS), 'op' + tag)]
            v = sym_str(1, 'a' + tag, alphabet='012') + '.' + ['0', '12.99'][choose(2, 'c' + tag)]
            return ('meth', ('meth', ('var', 'meson'), 'version', [], {}), 'version_compare', [('var', 'V' + tag)], {}), op + v
        presets = {'B0': B0, 'B1': B1}
        clauses = []
        for ci, bname in ((0, 'B0'), (1, 'B1')):
            shape = choose(9 if ci == 0 else 3, 'shape%d' % ci)          # 8: vc or vc - two version tests, either of which lets a version in
            e1, s1 = vc('%da' % ci); presets['V%da' % ci] = s1
            b = ('var', bname)
            has_v = shape != 2
            if shape == 0: cond = e1
            elif shape == 1: cond = ('not', e1)
            elif shape == 2: cond = b
            elif shape == 3: cond = ('bin', 'and', e1, b)
            elif shape == 4: cond = ('bin', 'and', b, e1)
            elif shape == 5: cond = ('bin', 'or', e1, b)
            elif shape == 6: cond = ('bin', 'or', b, e1)
            else:
                e2, s2 = vc('%db' % ci); presets['V%db' % ci] = s2
                cond = ('bin', 'and' if shape == 7 else 'or', e1, e2)
            # the clause as a predicate of an ARBITRARY version x (reference: version_compare on x; the Booleans are this run's)
            bv = B0 if ci == 0 else B1
            def truth(x, shape=shape, s1=s1, bv=bv, s2=(presets.get('V%db' % ci))):
                v1 = U.version_compare(x, s1)
                if shape == 0: return v1
                if shape == 1: return sym_not(v1)
                if shape == 2: return bv
                if shape in (3, 4): return sym_and(v1, bv)
                if shape in (5, 6): return sym_or(v1, bv)
                if shape == 8: return sym_or(v1, U.version_compare(x, s2))
                return sym_and(v1, U.version_compare(x, s2))
            clauses.append((cond, has_v, truth))
        prog = [('expr', ('call', 'probe', [('num', 0)], {})),
                ('if', [(clauses[0][0], [('expr', ('call', 'probe', [('num', 1)], {}))]), (clauses[1][0], [('expr', ('call', 'probe', [('num', 2)], {}))])],
                 [('expr', ('call', 'probe', [('num', 3)], {}))]),
                ('expr', ('call', 'probe', [('num', 4)], {}))]
        text = C1.render_block(prog)
        pmin = '>=0.5' + sym_str(1, 'pm', alphabet='05')
        ast = C1.mp.Parser("project('p', meson_version : '%s')\n" % '@PM@' + text, 'meson.build').parse()
        # the project's requirement is symbolic too: put it where the literal was parsed
        for n_ in ast.lines[0].args.kwargs.values(): n_.value = pmin
        it = C1.Interpreter(C1.B.Build(C1.ENV), ast=ast, backend=None, user_defined_options=C1.OPTS)
        for k, v in presets.items(): it.variables[k] = it._holderify(C1.clone(v))
        seen = []
        def probe(node, args, kwargs):
            r = mesonlib.project_meson_versions[it.subproject]
            seen.append((args[0], copy.deepcopy(r)))
        it.funcs['probe'] = probe
        it.run()
        check(len(seen) == 3 and seen[0][0] == 0 and seen[2][0] == 4, 'exactly one block of the chain runs')
        if len(seen) != 3: return
        proj = seen[0][1]
        blk, r = seen[1]
        check(running in proj, 'the project range contains the running version')
        check(running in r, 'the range in force inside a block that runs contains the running version')
        if blk == 3 or not clauses[blk - 1][1]:
            check(r == proj, 'a clause that tests no version leaves the project range in force')
        check(seen[2][1] == proj, 'after the if statement the project range is in force again')
        # soundness for EVERY version, not only the running one: a version of the project's range for which the earlier clauses are false and this one true
        # reaches the block - it must lie in the range feature checks use there
        xs = (sym_str(1, 'x0', alphabet='012') + '.' + ['0', '12.99', '13'][choose(3, 'x1')]) if symbolic_x else ['0.0', '1.12.99', '2.0'][choose(3, 'x')]
        X = U.Version(xs)
        reaches = X in proj
        for ci in range(blk - 1 if blk < 3 else 2):
            reaches = sym_and(reaches, sym_not(clauses[ci][2](xs)))
        if blk < 3: reaches = sym_and(reaches, clauses[blk - 1][2](xs))
        check(sym_implies(reaches, X in r), 'every version that can reach a block lies in the range in force there')
        cover('block%d' % blk)
    return h


def obligations(tier):
    out = []
    L = 3 if tier == 'quick' else 4
    for la in range(0, L + 1):
        for lb in range(0, L + 1):
            if tier == 'quick' and la + lb > 5: continue
            out.append(Obligation('order[%d,%d]' % (la, lb), ob_order(la, lb), dict(len_a=la, len_b=lb, alphabet='ASCII 32..126'),
                                  labels=() if la == 0 or lb == 0 else ('equal', 'unequal'), outside='longer strings; non-ASCII'))
    T3 = 2 if tier == 'quick' else 3
    for la in range(1, T3 + 1):
        for lb in range(1, T3 + 1):
            for lc in range(1, T3 + 1):
                if tier == 'thorough' and la + lb + lc > 7: continue
                out.append(Obligation('axioms[%d,%d,%d]' % (la, lb, lc), ob_trans(la, lb, lc), dict(lens=(la, lb, lc), alphabet='ASCII 32..126'), labels=('done',)))
    for lo in (0, 1, 2) if tier == 'quick' else (0, 1, 2, 3):
        out.append(Obligation('compare[%d]' % lo, ob_compare(lo, 2, 2), dict(op_len=lo, op_alphabet='<>=! 1', v_len=2, w_len=2, w_alphabet='0-9ab. and comma', many='as a list of one and as a bare string'), labels=('op',)))
    out.append(Obligation('range-algebra', ob_range(), dict(endpoints='unbounded ints', shapes='all 4x4 min/max presence, all flags'),
                          labels=('always-true', 'always-false', 'always-none')))
    for n in (1, 2) if tier == 'quick' else (1, 2, 3):
        lv = 2 if (n == 1 or (n == 2 and tier == 'thorough')) else 1
        out.append(Obligation('check-to-range[%d]' % n, ob_checks(n, lv, 2), dict(checks=n, version_len=lv, x_len=2, alphabet='0-9ab.'), labels=('done',), max_paths=5000000))
    for n in (1,) if tier == 'quick' else (1, 2):
        out.append(Obligation('check-to-range-start[%d]' % n, ob_checks_start(n, 1, 1 if (tier == 'quick' or n == 2) else 2, '019a.' if (tier == 'quick' or n == 2) else '0123456789ab.'), dict(start='built from 2 checks', checks=n, version_len=1, x_len=1 if (tier == 'quick' or n == 2) else 2, alphabet='019a.' if (tier == 'quick' or n == 2) else '0-9ab.'), labels=('done',), max_paths=5000000))
    out.append(Obligation('if-narrowing', ob_if_narrowing(tier != 'quick'), dict(chain='if / elif / else, probe in every block', clause='if: vc | not vc | B | vc and B | B and vc | vc or B | B or vc | vc and vc | vc or vc; elif: vc | not vc | B',
                          version_test="symbolic operator (>= < ==) and version [0-2].(0|12.99); running version 1.12.99 (coredata.version)", project_requirement='>=0.5[05]'),
                          labels=('block1', 'block2', 'block3'), max_paths=3000000))
    out.append(Obligation('condition-with-min', ob_condmin(2, 2, 2), dict(lens=2, alphabet='0-9ab.'), labels=('true', 'false')))
    return out
