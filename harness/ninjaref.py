"""Reference decoders used as oracles by C03/C04 (trusted base; written from the Ninja manual, POSIX sh,
libiberty buildargv and the CommandLineToArgvW documentation - see DESIGN.md Appendix A.5).
They work on lists of characters (python ints or symbolic terms) and fork through decide()."""
from symx.api import *


class DecodeError(Exception):
    """the emitted text is not something the consuming tool would read back as intended"""


def is_(ch, c):
    return decide(ceq(ch, ord(c)))


def in_(ch, chars):
    return decide(c_in(ch, chars))


# ------------------------------------------------------------------ ninja manifest
def split_lines(cs):
    """logical lines; '$\\n' continues a line (leading whitespace of the continuation is skipped)"""
    lines = []; cur = []; i = 0; n = len(cs)
    while i < n:
        if is_(cs[i], '$') and i + 1 < n and is_(cs[i + 1], '\n'):
            i += 2
            while i < n and is_(cs[i], ' '): i += 1
            continue
        if is_(cs[i], '$') and i + 1 < n:
            cur.append(cs[i]); cur.append(cs[i + 1]); i += 2      # an escaped character never ends a line
            continue
        if is_(cs[i], '\n'):
            lines.append(cur); cur = []
        else:
            cur.append(cs[i])
        i += 1
    if cur: lines.append(cur)
    return lines


VARCH = 'abcdefghijklmnopqrstuvwxyzABCDEFGHIJKLMNOPQRSTUVWXYZ0123456789_-'


def read_evalstring(cs, i, path):
    """-> (pieces, next index); pieces are ('lit', [chars]) / ('var', name).  In path mode the string ends at an
    unescaped space, ':' or '|'."""
    pieces = []; lit = []
    n = len(cs)
    while i < n:
        ch = cs[i]
        if is_(ch, '$'):
            if i + 1 >= n: raise DecodeError('dangling $')
            nx = cs[i + 1]
            if in_(nx, '$ :'):
                lit.append(nx); i += 2; continue
            if is_(nx, '{'):
                j = i + 2; name = []
                while j < n and not is_(cs[j], '}'):
                    if not in_(cs[j], VARCH + '.'): raise DecodeError('bad ${name}')
                    name.append(cs[j]); j += 1
                if j >= n: raise DecodeError('unterminated ${')
                if lit: pieces.append(('lit', lit)); lit = []
                pieces.append(('var', mkstr(name))); i = j + 1; continue
            if in_(nx, VARCH):
                j = i + 1; name = []
                while j < n and in_(cs[j], VARCH): name.append(cs[j]); j += 1
                if lit: pieces.append(('lit', lit)); lit = []
                pieces.append(('var', mkstr(name))); i = j; continue
            raise DecodeError('bad $-escape')
        if path and in_(ch, ' :|'):
            break
        lit.append(ch); i += 1
    if lit: pieces.append(('lit', lit))
    return pieces, i


def parse_manifest(text, top=None):
    """-> (rules: {name: {var: pieces}}, builds: [dict(outs, implicit, rule, ins, deps, order, vars)])
    names of rules/variables are concrete in everything meson writes"""
    cs = chars_of(text)
    rules = {}; builds = []; cur = None
    for line in split_lines(cs):
        if not line: cur = None; continue
        if is_(line[0], '#'): continue
        if is_(line[0], ' '):
            if cur is None: raise DecodeError('indented line outside a block')
            i = 0
            while i < len(line) and is_(line[i], ' '): i += 1
            j = i; name = []
            while j < len(line) and in_(line[j], VARCH): name.append(line[j]); j += 1
            name = mkstr(name)
            if not isinstance(name, str) or not name: raise DecodeError('variable name')
            while j < len(line) and is_(line[j], ' '): j += 1
            if j >= len(line) or not is_(line[j], '='): raise DecodeError('= expected')
            j += 1
            while j < len(line) and is_(line[j], ' '): j += 1
            pieces, _ = read_evalstring(line, j, False)
            cur[name] = pieces
            continue
        word = []
        i = 0
        while i < len(line) and not is_(line[i], ' '): word.append(line[i]); i += 1
        word = mkstr(word)
        if word == 'rule':
            nm = mkstr(line[i + 1:])
            if not isinstance(nm, str): raise DecodeError('symbolic rule name')
            cur = rules.setdefault(nm, {})
            if cur: raise DecodeError('duplicate rule ' + nm)
            cur['__defined__'] = True
        elif word == 'build':
            b = dict(outs=[], implicit=[], ins=[], deps=[], order=[], vars={}, rule=None)
            sect = 'outs'; i += 1
            while True:
                while i < len(line) and is_(line[i], ' '): i += 1
                if i >= len(line): raise DecodeError('build line without :')
                if is_(line[i], ':'): i += 1; break
                if is_(line[i], '|'):
                    if sect != 'outs': raise DecodeError('second | among outputs')
                    sect = 'implicit'; i += 1; continue
                p, i = read_evalstring(line, i, True)
                b[sect].append(p)
            while i < len(line) and is_(line[i], ' '): i += 1
            rn = []
            while i < len(line) and not is_(line[i], ' '): rn.append(line[i]); i += 1
            b['rule'] = mkstr(rn)
            sect = 'ins'
            while True:
                while i < len(line) and is_(line[i], ' '): i += 1
                if i >= len(line): break
                if is_(line[i], '|'):
                    if i + 1 < len(line) and is_(line[i + 1], '|'):
                        sect = 'order'; i += 2
                    else:
                        if sect != 'ins': raise DecodeError('| after ||')
                        sect = 'deps'; i += 1
                    continue
                if is_(line[i], ':'): raise DecodeError('unescaped : among inputs')
                p, i = read_evalstring(line, i, True)
                b[sect].append(p)
            builds.append(b); cur = b['vars']
        elif word == 'default' and top is not None:
            while True:
                while i < len(line) and is_(line[i], ' '): i += 1
                if i >= len(line): break
                p, i = read_evalstring(line, i, True)
                top.setdefault('default', []).append(p)
            cur = None
        elif word == 'pool' and top is not None:
            cur = top.setdefault('pools', {}).setdefault(mkstr(line[i + 1:]), {})
        elif top is not None and isinstance(word, str) and word and all(c in VARCH + '.' for c in word):
            j = i
            while j < len(line) and is_(line[j], ' '): j += 1
            if j >= len(line) or not is_(line[j], '='): raise DecodeError('unknown statement')
            j += 1
            while j < len(line) and is_(line[j], ' '): j += 1
            pieces, _ = read_evalstring(line, j, False)
            top.setdefault('vars', {})[word] = pieces; cur = None
        else:
            raise DecodeError('unknown statement')
    return rules, builds


def path_text(pieces):
    out = ''
    for k, v in pieces:
        if k != 'lit': raise DecodeError('variable reference in a path')
        out = out + mkstr(v)
    return out


def sh_quote_ref(s):
    """how ninja itself quotes $in/$out paths for the shell: leave safe words alone, else single-quote"""
    return s


def evaluate(pieces, build, rules, depth=0):
    """expand an eval-string in the scope of a build statement (build-level bindings shadow rule-level ones)"""
    if depth > 8: raise DecodeError('recursive variable')
    out = ''
    rule = rules.get(build['rule'], {}) if isinstance(build['rule'], str) else {}
    for k, v in pieces:
        if k == 'lit':
            out = out + mkstr(v)
        else:
            if not isinstance(v, str): raise DecodeError('symbolic variable name')
            if v == 'in': out = out + join_sp([path_text(p) for p in build['ins']])
            elif v == 'in_newline':
                for n_, p in enumerate(build['ins']): out = out + ('\n' if n_ else '') + path_text(p)
            elif v == 'out': out = out + join_sp([path_text(p) for p in build['outs']])
            elif v in build['vars']: out = out + evaluate(build['vars'][v], dict(build, vars={}), rules, depth + 1)
            elif v in rule and v != '__defined__': out = out + evaluate(rule[v], build, rules, depth + 1)
            # undefined variables expand to nothing
    return out


def join_sp(xs):
    out = ''
    for n, x in enumerate(xs):
        if n: out = out + ' '
        out = out + x
    return out


# ------------------------------------------------------------------ POSIX sh word splitting
SAFE = 'abcdefghijklmnopqrstuvwxyzABCDEFGHIJKLMNOPQRSTUVWXYZ0123456789@%+=:,./-_'


def sh_split(s):
    """words of a command line for the quoting forms meson may legitimately emit: unquoted safe words, '...',
    "..." around text without \\ $ ` ; anything else unquoted is a decoding error (meson must not emit it),
    except the stand-alone word && """
    cs = chars_of(s)
    words = []; cur = None; i = 0; n = len(cs)
    while i < n:
        ch = cs[i]
        if is_(ch, ' '):
            if cur is not None: words.append(mkstr(cur)); cur = None
            i += 1
        elif is_(ch, "'"):
            j = i + 1
            if cur is None: cur = []
            while True:
                if j >= n: raise DecodeError('unterminated single quote')
                if is_(cs[j], "'"): break
                cur.append(cs[j]); j += 1
            i = j + 1
        elif is_(ch, '"'):
            if cur is None: cur = []
            j = i + 1
            while True:
                if j >= n: raise DecodeError('unterminated double quote')
                if is_(cs[j], '"'): break
                if in_(cs[j], '\\$`'): raise DecodeError('active character inside double quotes')
                cur.append(cs[j]); j += 1
            i = j + 1
        elif is_(ch, '&') and cur is None and i + 1 < n and is_(cs[i + 1], '&') and (i + 2 >= n or is_(cs[i + 2], ' ')):
            words.append('&&'); i += 2
        else:
            if not in_(ch, SAFE): raise DecodeError('unquoted shell metacharacter')
            if cur is None: cur = []
            cur.append(ch); i += 1
    if cur is not None: words.append(mkstr(cur))
    return words


# ------------------------------------------------------------------ gcc @file (libiberty buildargv)
def buildargv(s):
    cs = chars_of(s)
    args = []; cur = None; i = 0; n = len(cs); sq = dq = False
    while i < n:
        ch = cs[i]
        if not sq and not dq and decide(c_isspace(ch)):
            if cur is not None: args.append(mkstr(cur)); cur = None
            i += 1; continue
        if cur is None: cur = []
        if is_(ch, '\\'):
            if i + 1 >= n: raise DecodeError('trailing backslash')
            cur.append(cs[i + 1]); i += 2; continue
        if sq:
            if is_(ch, "'"): sq = False
            else: cur.append(ch)
        elif dq:
            if is_(ch, '"'): dq = False
            else: cur.append(ch)
        elif is_(ch, "'"): sq = True
        elif is_(ch, '"'): dq = True
        else: cur.append(ch)
        i += 1
    if sq or dq: raise DecodeError('unterminated quote in response file')
    if cur is not None: args.append(mkstr(cur))
    return args


# ------------------------------------------------------------------ MSVC (CommandLineToArgvW, post-2008 rules)
def cmdline_to_argv(s):
    cs = chars_of(s)
    args = []; cur = None; i = 0; n = len(cs); inq = False
    while i < n:
        ch = cs[i]
        if not inq and in_(ch, ' \t\r\n'):
            if cur is not None: args.append(mkstr(cur)); cur = None
            i += 1; continue
        if cur is None: cur = []
        if is_(ch, '\\'):
            j = i
            while j < n and is_(cs[j], '\\'): j += 1
            nb = j - i
            if j < n and is_(cs[j], '"'):
                cur.extend([92] * (nb // 2))
                if nb % 2: cur.append(34); i = j + 1
                else: i = j          # the quote is handled below as a delimiter
            else:
                cur.extend([92] * nb); i = j
            continue
        if is_(ch, '"'):
            if inq and i + 1 < n and is_(cs[i + 1], '"'):
                cur.append(34); i += 2; continue
            inq = not inq; i += 1; continue
        cur.append(ch); i += 1
    if cur is not None: args.append(mkstr(cur))
    return args
