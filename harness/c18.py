"""C18 - TAP streams are interpreted per the TAP specification."""
import asyncio
from symx.api import *

PROPERTY = 'C18'
LEVEL = 'model_checking'
FILES = ['mesonbuild/mtest.py']
ENCODED = ['mtest.TAPParser.parse_line/parse_test/parse (the seven regexes interpreted from CPython\'s parse trees)', 'TestRunTAP.parse (async generator chain)/complete',
           'TestRun._complete', 'TestResult.is_bad']
EXPLANATION = ('One step from ANY parser state: the TAPParser object is given arbitrary field values (state, version, plan absent/present with symbolic fields, unbounded symbolic '
               'counters, flags) under the stated invariant, and is fed one line of any form with symbolic holes (numbers, names, per-letter case of directives, indentation) '
               'or end of stream; emitted events and the post-state are compared with the TAP 12/13 step machine of DESIGN.md A.2 - an inductive step that covers streams of '
               'any length. Free text lines check totality. Bounded streams go end to end through TestRunTAP.parse + complete for the whole-test verdict.')
ASSUMPTIONS = ['invariant assumed of the pre-state: state in {1,2,3}, 0 <= last_test <= highest_test, num_tests >= 0, lineno >= 0',
               'line forms as generated (test / plan / version / bail out / diagnostic / YAML start, end, body / blank / junk) with holes of bounded length; free text <= 3 characters',
               'harness.log_subtest is a stub']
OUT = 'free parts longer than the forms allow, non-ASCII, log rendering of subtests, junit output'
MANIFEST = dict(
    text='Model checking of the TAP parser as a state machine: one symbolic step from an arbitrary (invariant-satisfying) state against the TAP 12/13 reference machine - which '
         'lifts to streams of any length - plus bounded whole streams through TestRunTAP for the verdict rule.',
    note='Trusted: symx engine incl. regex interpreter, z3, the reference step machine (DESIGN.md A.2). Bounds: numbers <=2 rendered digits (compared as unbounded ints), names 1 char, '
         'streams <=3 (quick) / 4 (thorough) lines over 14 line forms.')

M = TAP = TR = None


def setup():
    global M, TAP, TR
    from mesonbuild import mtest as m
    from harness.common import quiet_mlog
    m.mlog.debug = lambda *a, **k: None
    M, TAP, TR = m, m.TAPParser, m.TestResult


def casevar(word, tag):
    out = ''
    for i, ch in enumerate(word):
        out = out + sym_str(1, tag + str(i), alphabet=ch.lower() + ch.upper())
    return out


NAMEAB = 'xyZ_-.'


def mkform():
    k = choose(10, 'form')
    if k == 0:
        ok = choose(2, 'ok') == 0
        line = 'ok' if ok else 'not ok'
        num = None
        if choose(2, 'hasnum') == 0:
            num = sym_int('n', 0, 99); line = line + ' ' + sym_str_of_int(num, 2)
        name = ''
        if choose(2, 'hasname'):
            name = sym_str(1, 'nm', alphabet=NAMEAB); line = line + ' ' + name
        d = choose(4, 'dir')
        dname = None
        if d == 1: dname = 'SKIP'; line = line + ' # ' + casevar('skip', 'cs') + sym_str(choose(2, 'skl'), 'sk', alphabet='xy')
        elif d == 2:
            # TODO is a directive only as a whole word: '# TODO', '# todo: x', '# TODO x' - but '# TODOs left' or '# todo_list' is a plain comment
            tail = sym_str(choose(3, 'tdl'), 'td', alphabet='s_ :')
            line = line + ' # ' + casevar('todo', 'ct') + tail
            dname = 'TODO' if (len(tail) == 0 or decide(c_in(chars_of(tail)[0], ' :'))) else None
        elif d == 3: line = line + ' # ' + sym_str(2, 'dj', alphabet='xy')
        return ('test', ok, num, name, dname), line
    if k == 1:
        n = sym_int('p', 0, 99); d = choose(4, 'pdir'); line = '1..' + sym_str_of_int(n, 2); dn = None
        if d == 1: dn = 'SKIP'; line = line + ' # ' + casevar('skip', 'cs')
        elif d == 2: dn = 'TODO'; line = line + ' # ' + casevar('todo', 'ct')
        elif d == 3: line = line + ' # xy'
        return ('plan', n, dn), line
    if k == 2:
        v = sym_int('v', 0, 99); return ('version', v), 'TAP version ' + sym_str_of_int(v, 2)
    if k == 3: return ('bail',), 'Bail out! x'
    if k == 4: return ('diag',), '# ' + sym_str(1, 'dg', alphabet='xy 1')
    if k == 5:
        ind = sym_str(1 + choose(2, 'indl'), 'ind', alphabet=' \t'); return ('yamlstart', ind), ind + '---'
    if k == 6: return ('yamlend',), sym_str(1, 'ind', alphabet=' \t') + '...'
    if k == 7: return ('blank',), ''
    if k == 8:
        ind = sym_str(1 + choose(2, 'bil'), 'bi', alphabet=' \t'); return ('yamlbody', ind), ind + 'k: v'
    return ('junk',), 'xyzzy'


def mkstate():
    p = TAP()
    p.state = [1, 2, 3][choose(3, 'st')]
    p.version = [12, 13][choose(2, 'ver')]
    if choose(2, 'hasplan'):
        p.plan = TAP.Plan(num_tests=sym_int('pn', 0), late=sym_bool('late'), skipped=sym_bool('sk'), explanation=None)
    p.num_tests = sym_int('nt', 0); p.last_test = sym_int('lt', 0); p.highest_test = sym_int('ht', 0)
    assume(p.highest_test >= p.last_test)
    p.found_late_test = sym_bool('flt'); p.bailed_out = sym_bool('bo')
    p.lineno = sym_int('ln', 0)
    p.yaml_lineno = 1
    p.yaml_indent = sym_str(1, 'yi', alphabet=' \t') if p.state == 3 else ''
    return p


class Ref:
    MAIN, AFTER, YAML = 1, 2, 3

    def __init__(self, p):
        self.mode = p.state; self.version = p.version
        self.plan = None if p.plan is None else (p.plan.num_tests, p.plan.late)
        self.num = p.num_tests; self.last = p.last_test; self.high = p.highest_test
        self.flt = p.found_late_test; self.bailed = p.bailed_out; self.lineno = p.lineno; self.yind = p.yaml_indent

    def step(self, form, line):
        ev = []
        self.lineno = self.lineno + 1
        kind = form[0]
        if self.mode == Ref.AFTER:
            if decide(self.version >= 13) and kind == 'yamlstart':
                self.mode = Ref.YAML; self.yind = form[1]; return ev
            self.mode = Ref.MAIN
        elif self.mode == Ref.YAML:
            if kind == 'yamlend': self.mode = Ref.MAIN; return ev
            if len(line) >= len(self.yind) and decide(bt_any(line[:len(self.yind)] == self.yind)): return ev
            ev.append(('error',)); self.mode = Ref.MAIN
        if kind in ('blank', 'diag'): return ev
        if kind == 'test':
            _, ok, num, name, dname = form
            if self.plan is not None and decide(bt_any(self.plan[1])) and not decide(bt_any(self.flt)):
                ev.append(('error',)); self.flt = True
            self.num = self.num + 1
            self.last = num if num is not None else self.last + 1
            if decide(self.last > self.high): self.high = self.last
            if self.plan is not None and decide(self.last > self.plan[0]): ev.append(('error',))
            if dname == 'SKIP' and ok: res = TR.SKIP
            elif dname == 'TODO': res = TR.UNEXPECTEDPASS if ok else TR.EXPECTEDFAIL
            else: res = TR.OK if ok else TR.FAIL
            ev.append(('test', self.last, name, res))
            self.mode = Ref.AFTER
            return ev
        if kind == 'plan':
            _, n, dn = form
            if self.plan is not None: ev.append(('error',)); return ev
            if dn == 'SKIP':
                if decide(n > 0): ev.append(('error',))
            elif dn == 'TODO': ev.append(('error',))
            self.plan = (n, decide(self.num > 0)); ev.append(('plan', n)); return ev
        if kind == 'bail': ev.append(('bail',)); self.bailed = True; return ev
        if kind == 'version':
            if decide(self.lineno != 1): ev.append(('error',)); return ev
            self.version = form[1]
            ev.append(('error',) if decide(form[1] < 13) else ('version', form[1])); return ev
        ev.append(('unknown',)); return ev

    def end(self):
        ev = []
        if self.mode == Ref.YAML: ev.append(('error',))
        if decide(bt_any(self.bailed)): return ev
        if self.plan is not None and decide(self.num != self.plan[0]): ev.append(('error',)); return ev
        if decide(self.high != self.num): ev.append(('error',))
        return ev


def abstract(events):
    out = []
    for e in events:
        if isinstance(e, TAP.Test): out.append(('test', e.number, e.name, e.result))
        elif isinstance(e, TAP.Plan): out.append(('plan', e.num_tests))
        elif isinstance(e, TAP.Error): out.append(('error',))
        elif isinstance(e, TAP.Bailout): out.append(('bail',))
        elif isinstance(e, TAP.Version): out.append(('version', e.version))
        elif isinstance(e, TAP.UnknownLine): out.append(('unknown',))
    return out


def same_events(got, exp):
    check(len(got) == len(exp), 'number of events')
    if len(got) != len(exp): return
    for x, y in zip(got, exp):
        check(x[0] == y[0] and len(x) == len(y), 'event kinds')
        if x[0] == y[0] and len(x) == len(y):
            for u, v in zip(x[1:], y[1:]):
                if u is v: continue
                check(eq(u, v), 'event fields (number, name, status)')


def ob_step():
    def h():
        p = mkstate()
        ref = Ref(p)
        eof = choose(2, 'eof') == 1
        if eof:
            got = abstract(list(p.parse_line(None))); exp = ref.end(); cover('eof')
        else:
            form, line = mkform()
            got = abstract(list(p.parse_line(line))); exp = ref.step(form, line); cover(form[0])
        same_events(got, exp)
        if not eof:
            check(p.state == ref.mode, 'post-state: mode'); check(eq(p.num_tests, ref.num), 'post-state: num_tests'); check(eq(p.last_test, ref.last), 'post-state: last_test')
            check(eq(p.highest_test, ref.high), 'post-state: highest_test'); check(eq(p.bailed_out, ref.bailed), 'post-state: bailed_out')
            check(eq(p.found_late_test, ref.flt), 'post-state: found_late_test'); check(eq(p.version, ref.version), 'post-state: version')
            check((p.plan is None) == (ref.plan is None), 'post-state: plan presence')
            if p.plan is not None and ref.plan is not None:
                check(eq(p.plan.num_tests, ref.plan[0]), 'post-state: plan size'); check(eq(p.plan.late, ref.plan[1]), 'post-state: plan lateness')
            check(p.highest_test >= p.last_test, 'invariant: highest >= last'); check(p.num_tests >= 0, 'invariant: num_tests >= 0')
    return h


def ob_free(n):
    def h():
        p = mkstate()
        line = sym_str(n, 'f', 1, 126)
        ev = list(p.parse_line(line))
        check(p.highest_test >= p.last_test, 'invariant: highest >= last')
        check(p.num_tests >= 0, 'invariant: num_tests >= 0')
        check(p.state in (1, 2, 3), 'invariant: state')
        for e in ev:
            if isinstance(e, TAP.Test): check(eq(e.number, p.last_test), 'emitted test number is last_test')
        cover('done')
    return h


STREAM_FORMS = ['ok', 'not ok', 'ok # SKIP', 'ok # TODO', 'not ok # TODO', '1..N', 'Bail out!', 'TAP version 13', '  ---', '  ...', '# d', 'junk', 'ok 2', 'ok 1']


class FakeHarness:
    def log_subtest(self, *a, **k): pass


async def _aiter(lines):
    for l in lines:
        yield l


def ob_verdict(nlines):
    def h():
        lines = []
        for i in range(nlines):
            f = STREAM_FORMS[choose(len(STREAM_FORMS), 'f%d' % i)]
            if f == '1..N': f = '1..' + sym_str_of_int(sym_int('N%d' % i, 0, 9), 1)
            lines.append(f)
        rc = sym_int('returncode')
        xfail = sym_bool('should_fail')
        events = list(TAP().parse(iter(lines)))
        r = object.__new__(M.TestRunTAP)
        r.res = TR.RUNNING; r.results = []; r.additional_error = ''; r.warnings = []; r.returncode = rc; r.stdo = ''; r.stde = ''
        r.expected_fail = xfail; r.starttime = 0.0; r.interactive = False; r.verbose = False; r.is_parallel = True
        loop = asyncio.new_event_loop()
        try:
            loop.run_until_complete(r.parse(FakeHarness(), _aiter(lines)))
        finally:
            loop.close()
        r.complete()
        err = any(isinstance(e, (TAP.Error, TAP.Bailout)) for e in events)
        tests = [e for e in events if isinstance(e, TAP.Test)]
        badsub = any(t.result in (TR.FAIL, TR.UNEXPECTEDPASS) for t in tests)
        allskip = all(t.result is TR.SKIP for t in tests)
        # DESIGN.md A.2/A.4: whole-test verdict
        if err: base = 'ERROR'
        elif badsub: base = 'FAIL'
        elif allskip: base = 'SKIP'
        else: base = 'OK'
        nonzero = rc != 0
        if base in ('OK', 'SKIP'):
            exp_err = nonzero
        else:
            exp_err = False
        got = r.res.name
        if decide(bt_any(exp_err)): want = 'ERROR'
        else: want = base
        if want in ('OK', 'FAIL') and decide(bt_any(xfail)):
            want = 'UNEXPECTEDPASS' if want == 'OK' else 'EXPECTEDFAIL'
        if err and badsub and got in ('ERROR', 'FAIL', 'EXPECTEDFAIL'):
            pass        # both an error event and a failed subtest: bad either way; which of the two classes is reported is not specified
        else:
            check(got == want, 'whole-test verdict')
        bad_expected = err or badsub or decide(bt_any(nonzero))
        if not decide(bt_any(xfail)):
            check(r.res.is_bad() == bad_expected, 'reported bad iff a subtest failed/unexpectedly passed, an error or bail-out event occurred, or the exit status is non-zero')
        cover(want)
    return h


def obligations(tier):
    q = tier == 'quick'
    out = [Obligation('step/forms', ob_step(), dict(state='arbitrary under the invariant', line='one of 10 forms with symbolic holes, or end of stream'),
                      labels=('eof', 'test', 'plan', 'version', 'bail', 'diag', 'yamlstart', 'yamlend', 'blank', 'yamlbody', 'junk'), max_paths=5000000)]
    for n in (1, 2, 3) if q else (1, 2, 3, 4):
        out.append(Obligation('step/free[%d]' % n, ob_free(n), dict(state='arbitrary', free_text=n, alphabet='ASCII 1..126'), labels=('done',), max_paths=5000000))
    for n in (1, 2, 3) if q else (1, 2, 3, 4):
        out.append(Obligation('verdict[%d lines]' % n, ob_verdict(n), dict(lines=n, forms=STREAM_FORMS, returncode='any integer', should_fail='symbolic'),
                              labels=('OK', 'ERROR', 'SKIP') + (('FAIL',) if n >= 1 else ()), max_paths=5000000))
    return out
