import sys, time, os, argparse, tempfile
sys.path.insert(0, '/repo')
t0 = time.time()
from mesonbuild import mparser, build, environment, mlog
from mesonbuild.interpreter import Interpreter
from mesonbuild import cmdline
print('import', time.time() - t0)
def fake_opts():
    p = argparse.ArgumentParser()
    cmdline.register_builtin_arguments(p)
    o = p.parse_args([])
    o.cross_file = []; o.native_file = []
    cmdline.parse_cmd_line_options(o)
    return o
src = tempfile.mkdtemp(); bld = tempfile.mkdtemp()
open(os.path.join(src, 'meson.build'), 'w').write("project('p')\n")
t0 = time.time()
OPTS = fake_opts()
env = environment.Environment(src, bld, OPTS)
print('env', time.time() - t0)
code = "project('p')\nx = 7 / 2\ny = 'a\\tb'.split('\\t')\nz = [1,2]\nw = z\nw += [3]\nmessage(x)\n"
t0 = time.time()
for i in range(5):
    ast = mparser.Parser(code, 'meson.build').parse()
    b = build.Build(env)
    it = Interpreter(b, ast=ast, backend=None, user_defined_options=OPTS)
    it.run()
print('5 runs', time.time() - t0)
print({k: v for k, v in it.variables.items() if k in 'xyzw'})
