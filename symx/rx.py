"""symx: symbolic regex matching over SymStr, driven by CPython's own regex parse tree.
Backtracking in sre priority order; every character test forks (decide)."""
import re
import re._parser as sp
import re._constants as sc
from . import terms as T
from .core import Unsupported
from .values import (SymStr, mkstr, decide, ceq, cin_range, zor, zand, znot, c_isspace, c_isdigit,
                     c_isword, chars_of, u_isspace, u_isdecimal, u_isword)

_UNI = [True]      # str patterns use the Unicode categories unless re.ASCII is given (set per matching run)


def _p(ascii_pred, uni_pred, ch):
    return uni_pred(ch) if _UNI[0] else ascii_pred(ch)


def cat_pred(cat, ch):
    if cat in (sc.CATEGORY_DIGIT, sc.CATEGORY_UNI_DIGIT): return _p(c_isdigit, u_isdecimal, ch)
    if cat in (sc.CATEGORY_NOT_DIGIT, sc.CATEGORY_UNI_NOT_DIGIT): return znot(_p(c_isdigit, u_isdecimal, ch))
    if cat in (sc.CATEGORY_SPACE, sc.CATEGORY_UNI_SPACE): return _p(c_isspace, u_isspace, ch)
    if cat in (sc.CATEGORY_NOT_SPACE, sc.CATEGORY_UNI_NOT_SPACE): return znot(_p(c_isspace, u_isspace, ch))
    if cat in (sc.CATEGORY_WORD, sc.CATEGORY_UNI_WORD): return _p(c_isword, u_isword, ch)
    if cat in (sc.CATEGORY_NOT_WORD, sc.CATEGORY_UNI_NOT_WORD): return znot(_p(c_isword, u_isword, ch))
    if cat == sc.CATEGORY_LINEBREAK: return ceq(ch, 10)
    if cat == sc.CATEGORY_NOT_LINEBREAK: return znot(ceq(ch, 10))
    raise Unsupported('category %s' % cat)

def in_pred(items, ch):
    neg = False
    alts = []
    for op, av in items:
        if op == sc.NEGATE: neg = True
        elif op == sc.LITERAL: alts.append(ceq(ch, av))
        elif op == sc.RANGE: alts.append(cin_range(ch, av[0], av[1]))
        elif op == sc.CATEGORY: alts.append(cat_pred(av, ch))
        else: raise Unsupported('in-item %s' % op)
    p = zor(alts)
    return znot(p) if neg else p

class M:
    """one matching run over chars cs with flags"""
    def __init__(self, cs, flags):
        self.cs = cs
        self.n = len(cs)
        self.flags = flags
        _UNI[0] = not (flags & re.ASCII)

    def _fold(self, ch):
        """the other-case partner of an ASCII letter (as a term for a symbolic character); case-insensitive matching is modelled for ASCII only"""
        if isinstance(ch, int):
            if ch >= 128 and chr(ch).lower() != chr(ch).upper(): raise Unsupported('IGNORECASE on a non-ASCII cased character')
            return ch ^ 32 if (65 <= ch <= 90 or 97 <= ch <= 122) else ch
        if T.simplify_under(cin_range(ch, 0, 127)) is not True and decide(cin_range(ch, 128, 255)):
            raise Unsupported('IGNORECASE on a non-ASCII character')
        return T.iite(cin_range(ch, 65, 90), T.iadd(ch, 32), T.iite(cin_range(ch, 97, 122), T.iadd(ch, -32), ch))

    def lit(self, ch, c):
        if not (self.flags & re.IGNORECASE): return ceq(ch, c)
        c2 = self._fold(c)
        if not isinstance(ch, int): self._fold(ch)      # guard: the subject character must be ASCII too
        return ceq(ch, c) if c2 == c else zor([ceq(ch, c), ceq(ch, c2)])

    def inset(self, items, ch):
        if not (self.flags & re.IGNORECASE): return in_pred(items, ch)
        return zor([in_pred(items, ch), in_pred(items, self._fold(ch))])

    def isword_at(self, i):
        if i < 0 or i >= self.n: return False
        return _p(c_isword, u_isword, self.cs[i])

    def seq(self, nodes, idx, pos, groups, k):
        if idx == len(nodes):
            return k(pos, groups)
        op, av = nodes[idx]
        cs = self.cs
        def rest(p, g):
            return self.seq(nodes, idx + 1, p, g, k)
        if op == sc.LITERAL:
            if pos < self.n and decide(self.lit(cs[pos], av)): return rest(pos + 1, groups)
            return None
        if op == sc.NOT_LITERAL:
            if pos < self.n and decide(znot(self.lit(cs[pos], av))): return rest(pos + 1, groups)
            return None
        if op == sc.ANY:
            if pos < self.n and (self.flags & re.DOTALL or decide(znot(ceq(cs[pos], 10)))): return rest(pos + 1, groups)
            return None
        if op == sc.IN:
            if pos < self.n and decide(self.inset(av, cs[pos])): return rest(pos + 1, groups)
            return None
        if op == sc.SUBPATTERN:
            gid, add_flags, del_flags, sub = av
            if (add_flags | del_flags) & ~re.IGNORECASE: raise Unsupported('inline flags other than (?i:...)')
            start = pos
            outer = self.flags
            inner = (outer | add_flags) & ~del_flags
            def k2(p, g):
                if gid is not None:
                    g = dict(g); g[gid] = (start, p)
                # the continuation runs with the flags of the enclosing pattern; a backtrack into the group gets the group's flags back
                self.flags = outer
                try:
                    return rest(p, g)
                finally:
                    self.flags = inner
            self.flags = inner
            try:
                return self.seq(list(sub), 0, pos, groups, k2)
            finally:
                self.flags = outer
        if op == sc.BRANCH:
            for alt in av[1]:
                r = self.seq(list(alt), 0, pos, groups, rest)
                if r is not None: return r
            return None
        if op in (sc.MAX_REPEAT, sc.MIN_REPEAT):
            lo, hi, sub = av
            sub = list(sub)
            greedy = op == sc.MAX_REPEAT
            def rep(count, p, g):
                def more():
                    if count >= hi: return None
                    def k3(p2, g2):
                        if p2 == p and count >= lo: return None
                        return rep(count + 1, p2, g2)
                    return self.seq(sub, 0, p, g, k3)
                def stop():
                    if count >= lo: return rest(p, g)
                    return None
                first, second = (more, stop) if greedy else (stop, more)
                r = first()
                if r is not None: return r
                return second()
            return rep(0, pos, groups)
        if op == sc.AT:
            ok = self.at(av, pos)
            if decide(ok): return rest(pos, groups)
            return None
        if op in (sc.ASSERT, sc.ASSERT_NOT):
            direction, sub = av
            sub = list(sub)
            if direction >= 0:
                r = self.seq(sub, 0, pos, groups, lambda p, g: (p, g))
            else:
                lo, hi = sp.SubPattern(sp.State(), sub).getwidth()
                if lo != hi: raise Unsupported('variable-width lookbehind')
                if pos - lo < 0:
                    r = None
                else:
                    r = self.seq(sub, 0, pos - lo, groups, lambda p, g: (p, g) if p == pos else None)
            if op == sc.ASSERT:
                if r is None: return None
                return rest(pos, r[1])
            else:
                if r is not None: return None
                return rest(pos, groups)
        raise Unsupported('regex op %s' % op)

    def at(self, where, pos):
        cs, n = self.cs, self.n
        if where == sc.AT_BEGINNING_STRING: return pos == 0
        if where == sc.AT_BEGINNING:
            if self.flags & re.MULTILINE:
                return pos == 0 or ceq(cs[pos - 1], 10)
            return pos == 0
        if where == sc.AT_END_STRING: return pos == n
        if where == sc.AT_END:
            if self.flags & re.MULTILINE:
                return pos == n or ceq(cs[pos], 10)
            if pos == n: return True
            if pos == n - 1: return ceq(cs[pos], 10)
            return False
        if where in (sc.AT_BOUNDARY, sc.AT_NON_BOUNDARY):
            a = self.isword_at(pos - 1); b = self.isword_at(pos)
            r = T.bxor(a, b)
            return r if where == sc.AT_BOUNDARY else znot(r)
        raise Unsupported('at %s' % where)

class SymMatch:
    def __init__(self, pat, s, st, en, g):
        self.re = pat; self.string = s; self._st = st; self._en = en; self._g = g
    def _gid(self, i):
        if isinstance(i, str): return self.re.groupindex[i]
        return i
    def _one(self, i, default=None):
        i = self._gid(i)
        if i == 0: return self.string[self._st:self._en]
        if i not in self._g: return default
        a, b = self._g[i]
        return self.string[a:b]
    def group(self, *ids):
        if not ids: ids = (0,)
        r = tuple(self._one(i) for i in ids)
        return r[0] if len(r) == 1 else r
    __getitem__ = lambda self, i: self._one(i)
    def groups(self, default=None):
        return tuple(self._one(i, default) for i in range(1, self.re.groups + 1))
    def groupdict(self, default=None):
        return {k: self._one(v, default) for k, v in self.re.groupindex.items()}
    def start(self, i=0):
        i = self._gid(i)
        if i == 0: return self._st
        return self._g[i][0] if i in self._g else -1
    def end(self, i=0):
        i = self._gid(i)
        if i == 0: return self._en
        return self._g[i][1] if i in self._g else -1
    def span(self, i=0): return (self.start(i), self.end(i))

_TEMPLATE_TOK = re.compile(r'\\g<([^>]+)>|\\(\d+)|\\(.)', re.S)

class SymPattern:
    def __init__(self, pat):
        if isinstance(pat, SymPattern): pat = pat.real
        if isinstance(pat, str): pat = re.compile(pat)
        self.real = pat
        self.pattern = pat.pattern
        self.flags = pat.flags
        self.groups = pat.groups
        self.groupindex = dict(pat.groupindex)
        if self.flags & re.LOCALE:
            raise Unsupported('regex flags')
        self.tree = list(sp.parse(pat.pattern, pat.flags & ~re.UNICODE if False else pat.flags))

    def _m(self, s, pos, full=False):
        m = M(s.c, self.flags)
        def fin(p, g):
            if full and p != len(s.c): return None
            return (p, g)
        return m.seq(self.tree, 0, pos, {}, fin)

    def match(self, s, pos=0, endpos=None):
        if isinstance(s, str): return self.real.match(s, pos) if endpos is None else self.real.match(s, pos, endpos)
        r = self._m(s, pos)
        return None if r is None else SymMatch(self, s, pos, r[0], r[1])
    def fullmatch(self, s):
        if isinstance(s, str): return self.real.fullmatch(s)
        r = self._m(s, 0, True)
        return None if r is None else SymMatch(self, s, 0, r[0], r[1])
    def search(self, s, pos=0):
        if isinstance(s, str): return self.real.search(s, pos)
        for p in range(pos, len(s.c) + 1):
            r = self._m(s, p)
            if r is not None: return SymMatch(self, s, p, r[0], r[1])
        return None
    def finditer(self, s):
        if isinstance(s, str):
            yield from self.real.finditer(s); return
        pos = 0; n = len(s.c)
        while pos <= n:
            r = None; st = pos
            while st <= n:
                r = self._m(s, st)
                if r is not None: break
                st += 1
            if r is None: return
            yield SymMatch(self, s, st, r[0], r[1])
            pos = r[0] if r[0] > st else st + 1
    def findall(self, s):
        out = []
        for m in self.finditer(s):
            if self.groups == 0: out.append(m.group(0))
            elif self.groups == 1: out.append(m.group(1) if m.group(1) is not None else '')
            else: out.append(tuple(x if x is not None else '' for x in m.groups()))
        return out
    def _expand(self, m, repl):
        out = ''
        i = 0
        for t in _TEMPLATE_TOK.finditer(repl):
            out = out + repl[i:t.start()]
            if t.group(1) is not None:
                g = t.group(1)
                out = out + (m.group(int(g)) if g.isdigit() else m.group(g))
            elif t.group(2) is not None:
                out = out + m.group(int(t.group(2)))
            else:
                out = out + {'n': '\n', 't': '\t', '\\': '\\', 'r': '\r'}.get(t.group(3), '\\' + t.group(3))
            i = t.end()
        return out + repl[i:]
    def sub(self, repl, s, count=0):
        if hasattr(s, '__sx_resub__'): return s.__sx_resub__(self, repl)
        if isinstance(s, str) and isinstance(repl, str):
            return self.real.sub(repl, s, count)
        if isinstance(s, str):
            # callable repl may return symbolic text; run natively but join symbolically
            pieces = []; last = 0; n = 0
            for m in self.real.finditer(s):
                if count and n >= count: break
                pieces.append(s[last:m.start()]); pieces.append(repl(m)); last = m.end(); n += 1
            pieces.append(s[last:])
            out = ''
            for p in pieces: out = out + p
            return out
        out = ''; last = 0; n = 0
        for m in self.finditer(s):
            if count and n >= count: break
            out = out + s[last:m.start()]
            out = out + (repl(m) if callable(repl) else self._expand(m, repl))
            last = m.end(); n += 1
        return out + s[last:]
    def split(self, s, maxsplit=0):
        if isinstance(s, str): return self.real.split(s, maxsplit)
        out = []; last = 0; n = 0
        for m in self.finditer(s):
            if maxsplit and n >= maxsplit: break
            if m.end() == m.start() and (m.start() == 0 or m.start() == len(s)): continue
            out.append(s[last:m.start()])
            for g in m.groups(): out.append(g)
            last = m.end(); n += 1
        out.append(s[last:])
        return out

class ReShim:
    """replacement for the `re` module name inside instrumented modules"""
    def __init__(self):
        self._cache = {}
        for k in dir(re):
            if k.isupper() or k in ('error', 'Pattern', 'Match', 'escape', 'purge'):
                setattr(self, k, getattr(re, k))
    def compile(self, pattern, flags=0):
        if isinstance(pattern, SymPattern): return pattern
        key = (pattern, int(flags)) if isinstance(pattern, str) else None
        if key is None: return SymPattern(pattern)
        if key not in self._cache:
            self._cache[key] = SymPattern(re.compile(pattern, flags))
        return self._cache[key]
    def match(self, p, s, flags=0): return self.compile(p, flags).match(s)
    def fullmatch(self, p, s, flags=0): return self.compile(p, flags).fullmatch(s)
    def search(self, p, s, flags=0): return self.compile(p, flags).search(s)
    def finditer(self, p, s, flags=0): return self.compile(p, flags).finditer(s)
    def findall(self, p, s, flags=0): return self.compile(p, flags).findall(s)
    def sub(self, p, repl, s, count=0, flags=0): return self.compile(p, flags).sub(repl, s, count)
    def split(self, p, s, maxsplit=0, flags=0): return self.compile(p, flags).split(s, maxsplit)
