"""C20 - Cargo requirements and cfg() mean what Cargo says."""
from symx.api import *

PROPERTY = 'C20'
LEVEL = 'other'
FILES = ['mesonbuild/cargo/version.py', 'mesonbuild/cargo/cfg.py', 'mesonbuild/utils/universal.py', 'mesonbuild/cargo/manifest.py']
ENCODED = ['cargo.version.split', 'SemVer.__init__/__cmp/__lt__/__le__/__gt__/__ge__/__eq__/__ne__/next_ver/has_prerelease',
           'cargo_parse (lru_cache stripped) and its compare closure', 'cargo.version.api/_api_of', 'cargo.cfg.lexer/parse/_parse/_eval_cfg/eval_cfg',
           'mesonlib.lookahead', '_SEMVER_TOK_RE (interpreted from CPython\'s parse tree)']
EXPLANATION = ('Symbolic execution of cargo_parse/SemVer/cfg on symbolic requirement and version strings: numeric components are symbolic integers '
               'rendered to 1-2 symbolic digits, pre-release identifiers and cfg names/values are symbolic strings; on every path the result is compared '
               'with Cargo\'s interval semantics (with the two pinned deviations), with an independent SemVer section 11 comparator, and with the '
               'Boolean structure of the generated cfg expression; free malformed cfg strings are compared with a reference recogniser.')
ASSUMPTIONS = ['components 0..99 (two rendered digits, compared as unbounded ints)', 'pre-release identifiers of 1-2 characters over {0,1,9,a,-}',
               'cfg names over {a,l,n,y,o,t,_}, string values additionally with space , ( = ; a keyword spelled as the very last word of the text is read as an '
               'identifier (pinned by the code)',
               'well-formed SemVer strings only for the order (assume() on the reference parser accepting)']
OUT = 'manifest.py / interpreter.py uses of the results, TOML loading, non-ASCII, components with more than 2 digits'
MANIFEST = dict(
    text='Bounded symbolic decision: for every operator, every partial length and ALL component values 0..99 at once the acceptance predicate built by the real '
         'cargo_parse equals Cargo\'s interval semantics; SemVer ordering is compared with an independent section-11 comparator on symbolic version strings; cfg '
         'evaluation with the Boolean structure over a symbolic configuration; malformed cfg strings differentially against a reference recogniser.',
    note='Trusted: symx engine (validated by native re-runs), z3, the reference semantics written from the Cargo reference/semver crate docs with the two deviations '
         'pinned by unittests/cargotests.py. Bounds: components 0..99, <=3 components, comma lists <=2, identifiers <=2 chars, cfg depth <=2, free cfg text <=5/7 chars.')

V = C = ME = None


def setup():
    global V, C, ME
    import mesonbuild.cargo.version as V_
    import mesonbuild.cargo.cfg as C_
    from mesonbuild.mesonlib import MesonException
    V, C, ME = V_, C_, MesonException
    if hasattr(V.cargo_parse, '__wrapped__'):      # native side: bypass the memoisation too
        V.cargo_parse = V.cargo_parse.__wrapped__


OPS = ['', '^', '~', '=', '<', '<=', '>', '>=']


def ver(name, ncomp):
    comps = [sym_int(name + str(i), 0, 99) for i in range(ncomp)]
    s = ''
    for i, c in enumerate(comps):
        if i: s = s + '.'
        s = s + sym_str_of_int(c, 2)
    return comps, s


def lt3(a, b):
    return sym_or(a[0] < b[0], sym_and(a[0] == b[0], sym_or(a[1] < b[1], sym_and(a[1] == b[1], a[2] < b[2]))))


def eq3(a, b): return sym_and(a[0] == b[0], a[1] == b[1], a[2] == b[2])
def le3(a, b): return sym_or(lt3(a, b), eq3(a, b))


def ref_accept(op, rc, v):
    """Cargo's rule on release versions (Appendix A.3 of DESIGN.md); rc = given components, v = 3 components"""
    n = len(rc)
    r = list(rc) + [0] * (3 - n)
    if op in ('', '^'):
        if decide(r[0] != 0): ub = lt3(v, [r[0] + 1, 0, 0])
        elif n > 1 and decide(r[1] != 0): ub = lt3(v, [r[0], r[1] + 1, 0])
        elif n > 2 and decide(r[2] != 0): ub = lt3(v, [r[0], r[1], r[2] + 1])
        else: ub = lt3(v, [1, 0, 0])      # pinned deviation: all given components zero -> < 1.0.0
        return sym_and(le3(r, v), ub)
    if op == '~':
        ub = lt3(v, [r[0], r[1] + 1, 0]) if n >= 2 else lt3(v, [r[0] + 1, 0, 0])
        return sym_and(le3(r, v), ub)
    if op == '=': return eq3(v, r)       # pinned deviation: padded with zeros
    if op == '<': return lt3(v, r)
    if op == '>': return lt3(r, v)       # pinned deviation: padded with zeros
    if op == '>=': return le3(r, v)
    if op == '<=':
        b = list(r); b[n - 1] = b[n - 1] + 1
        for i in range(n, 3): b[i] = 0
        return lt3(v, b)
    raise AssertionError(op)


def ob_req(opi, nr, nv):
    def h():
        rc, rs = ver('r', nr)
        vc, vs = ver('v', nv)
        sp = ' ' if choose(2, 'space') else ''
        req = OPS[opi] + sp + rs
        got = V.cargo_parse(req)(vs)
        exp = ref_accept(OPS[opi], rc, list(vc) + [0] * (3 - nv))
        check(eq(got, exp), 'acceptance == Cargo interval semantics')
        observe('accepted', got)
        cover('done')
    return h


def ob_wild(form):
    """wildcards: '*', 'I.*', 'I.J.*' and the empty requirement"""
    def h():
        vc, vs = ver('v', 3)
        if form == 0:
            req = '*' if choose(2, 'star') else ''
            exp = True
        elif form == 1:
            rc, rs = ver('r', 1); req = rs + '.*'
            exp = sym_and(le3([rc[0], 0, 0], vc), lt3(vc, [rc[0] + 1, 0, 0]))
        else:
            rc, rs = ver('r', 2); req = rs + '.*'
            exp = sym_and(le3([rc[0], rc[1], 0], vc), lt3(vc, [rc[0], rc[1] + 1, 0]))
        check(eq(V.cargo_parse(req)(vs), exp), 'wildcard requirement')
        cover('done')
    return h


def ob_op_wild(opi):
    """an explicit operator in front of a wildcard component (`>=1.*`, `<1.2.*`, `^1.2.*`; Cargo's parser reads the wildcard as a missing component there):
    accepted exactly like the same comparator with the partial version - alone and as the first member of a comma list"""
    def h():
        nr = 1 + choose(2, 'given components')
        rc, rs = ver('r', nr)
        vc, vs = ver('v', 3)
        req = OPS[opi] + (' ' if choose(2, 'space') else '') + rs + '.*'
        exp = ref_accept(OPS[opi], rc, vc)
        if choose(2, 'in a list'):
            qc, qs = ver('q', 1)
            req = req + ', <' + qs; exp = sym_and(exp, ref_accept('<', qc, vc))
        check(eq(V.cargo_parse(req)(vs), exp), 'operator + wildcard = operator + partial version')
        cover('done')
    return h


def ob_list(op1, op2):
    def h():
        r1, s1 = ver('r', 2); r2, s2 = ver('q', 2)
        vc, vs = ver('v', 3)
        req = OPS[op1] + s1 + (', ' if choose(2, 'sp') else ',') + OPS[op2] + s2
        exp = sym_and(ref_accept(OPS[op1], r1, vc), ref_accept(OPS[op2], r2, vc))
        check(eq(V.cargo_parse(req)(vs), exp), 'comma list is a conjunction')
        cover('done')
    return h


# ---------------------------------------------------------------- SemVer section 11, independent comparator
IDA = '019a-'


def mk_semver(tag, maxpre):
    ncomp = 1 + choose(3, tag + 'ncomp')
    comps = [sym_int(tag + 'c%d' % i, 0, 99) for i in range(ncomp)]
    s = ''
    for i, c in enumerate(comps):
        if i: s = s + '.'
        s = s + sym_str_of_int(c, 2)
    npre = choose(maxpre + 1, tag + 'npre')
    pre = []
    for i in range(npre):
        n = 1 + choose(2, tag + 'ilen')
        pre.append(sym_str(n, tag + 'p%d' % i, alphabet=IDA))
    if pre:
        s = s + '-' + pre[0]
        for p in pre[1:]: s = s + '.' + p
    if choose(2, tag + 'build'):
        s = s + '+' + sym_str(1, tag + 'b', alphabet='019a.-')
    return s, list(comps) + [0] * (3 - ncomp), pre, ncomp


def ident_kind(x):
    """'n' if all digits else 'a' """
    return 'n' if decide(bt_any(x.isdigit())) else 'a'


def ref_semver_cmp(a, b):
    (ca, pa), (cb, pb) = a[1:3], b[1:3]
    for x, y in zip(ca, cb):
        if decide(x < y): return -1
        if decide(x > y): return 1
    if not pa and not pb: return 0
    if not pa: return 1          # a release outranks its pre-releases
    if not pb: return -1
    for x, y in zip(pa, pb):
        kx, ky = ident_kind(x), ident_kind(y)
        if kx == 'n' and ky == 'n':
            xi, yi = sym_int_of_str(x), sym_int_of_str(y)
            if decide(xi < yi): return -1
            if decide(xi > yi): return 1
        elif kx == 'n': return -1     # numeric identifiers rank below alphanumeric ones
        elif ky == 'n': return 1
        else:
            if decide(x < y): return -1
            if decide(x > y): return 1
    return (len(pa) > len(pb)) - (len(pa) < len(pb))


def classify_semver(label, inputs):
    """known-finding key: does the witness need a numeric FIRST pre-release identifier?"""
    d = {}
    for k, n, v in inputs:
        d[n] = v
    firstnum = any(isinstance(d.get(t + 'p0'), str) and d[t + 'p0'].isdigit() for t in ('a', 'b', 'r', 'v'))
    return label + (' [first pre-release identifier numeric]' if firstnum else '')


def ob_order(maxpre):
    def h():
        a = mk_semver('a', maxpre); b = mk_semver('b', maxpre)
        A, B = V.SemVer(a[0]), V.SemVer(b[0])
        e = ref_semver_cmp(a, b)
        got = (A < B, A <= B, A > B, A >= B, A == B, A != B)
        exp = (e < 0, e <= 0, e > 0, e >= 0, e == 0, e != 0)
        for nm, g, x in zip(('lt', 'le', 'gt', 'ge', 'eq', 'ne'), got, exp):
            check(eq(g, x), 'SemVer %s agrees with section 11' % nm)
        check(eq(A.has_prerelease, bool(a[2])), 'has_prerelease')
        cover('pre' if a[2] or b[2] else 'release')
    return h


def mk_pre_only(tag, core):
    """a version with the concrete core and 1-2 symbolic pre-release identifiers of 1-2 characters (digit-first alphanumeric ones included)"""
    npre = 1 + choose(2, tag + 'npre')
    pre = [sym_str(1 + choose(2, tag + 'ilen'), tag + 'p%d' % i, alphabet=IDA) for i in range(npre)]
    s = core + '-' + pre[0]
    for p in pre[1:]: s = s + '.' + p
    return s, [1, 2, 3], pre, 3


def ob_order_pre():
    """the order of pre-releases of ONE release: every identifier position (not only the first) is compared as section 11.4 says"""
    def h():
        a = mk_pre_only('a', '1.2.3'); b = mk_pre_only('b', '1.2.3')
        A, B = V.SemVer(a[0]), V.SemVer(b[0])
        e = ref_semver_cmp(a, b)
        got = (A < B, A <= B, A > B, A >= B, A == B, A != B)
        exp = (e < 0, e <= 0, e > 0, e >= 0, e == 0, e != 0)
        for nm, g, x in zip(('lt', 'le', 'gt', 'ge', 'eq', 'ne'), got, exp):
            check(eq(g, x), 'SemVer %s agrees with section 11' % nm)
        cover('pre')
    return h


def ob_gate(opi):
    """a pre-release version satisfies a requirement only if the requirement names a pre-release; then by the order"""
    def h():
        r = mk_semver('r', 1); v = mk_semver('v', 1)
        op = OPS[opi]
        got = V.cargo_parse(op + r[0])(v[0])
        if v[2] and not r[2]:
            check(eq(got, False), 'pre-release never satisfies a requirement naming no pre-release'); cover('gated')
        elif op in ('<', '<=', '>', '>=', '=') and len(r[1]) == 3 and (op != '<=' or r[3] == 3):      # a partial '<=1.2' means '<1.3.0' (list[...] obligations); with a pre-release it is not a Cargo requirement at all
            e = ref_semver_cmp(v, (r[0], r[1], r[2]))
            exp = {'<': e < 0, '<=': e <= 0, '>': e > 0, '>=': e >= 0, '=': e == 0}[op]
            check(eq(got, exp), 'comparison requirement follows the section 11 order'); cover('ordered')
    return h


# ---------------------------------------------------------------- cfg()
NAMEA = 'alnyot_cfg'      # c f g: the letters of the cfg( wrapper itself


def gen_cfg(depth, tag='e', lite=False, top=None):
    """-> (text, evaluator(cfgs_ref) -> SymBool); lite: the nested levels of a depth-2 expression use 1-character names, values of 0-1 characters and no
    optional blanks (their variety is covered at depth 1); top: the kind of the outermost operator, fixed by the obligation"""
    k = top if top is not None else choose(5 if depth > 0 else 2, tag + 'kind')
    ws = (lambda t: '') if lite else (lambda t: ' ' if choose(2, t) else '')
    if k == 0:
        nm = sym_str(1 if lite else 1 + choose(2, tag + 'nl'), tag + 'name', alphabet=NAMEA)
        return nm, ('id', nm)
    if k == 1:
        nm = sym_str(1, tag + 'name', alphabet=NAMEA); val = sym_str(choose(2 if lite else 3, tag + 'vl'), tag + 'val', alphabet=NAMEA + ' ,(=')
        return nm + ws(tag + 'w1') + '=' + ws(tag + 'w2') + '"' + val + '"', ('eq', nm, val)
    sub_lite = lite or depth >= 2
    if k == 2:
        t, e = gen_cfg(depth - 1, tag + 'n', sub_lite)
        return 'not(' + ws(tag + 'w') + t + ')', ('not', e)
    n = choose(3, tag + 'nargs')
    parts = [gen_cfg(depth - 1, tag + str(i), sub_lite) for i in range(n)]
    txt = ('any' if k == 3 else 'all') + '('
    for i, (t, _) in enumerate(parts):
        if i: txt = txt + ',' + ws(tag + 'c%d' % i)
        txt = txt + t
    return txt + ')', ('any' if k == 3 else 'all', [e for _, e in parts])


def keywordish(nm):
    return sym_or(nm == 'any', nm == 'all', nm == 'not')


def ref_eval(e, keys, vals):
    if e[0] == 'id':
        return sym_or(*[k == e[1] for k in keys]) if keys else False
    if e[0] == 'eq':
        return sym_or(*[sym_and(k == e[1], v == e[2]) for k, v in zip(keys, vals)]) if keys else False
    if e[0] == 'not': return sym_not(ref_eval(e[1], keys, vals))
    rs = [ref_eval(x, keys, vals) for x in e[1]]
    if e[0] == 'any': return sym_or(*rs) if rs else False
    return sym_and(*rs) if rs else True


def names_of(e, acc):
    if e[0] in ('id', 'eq'): acc.append(e[1])
    elif e[0] == 'not': names_of(e[1], acc)
    else:
        for x in e[1]: names_of(x, acc)
    return acc


def sym_dict(pairs):
    if concrete(): return dict(pairs)
    from symx.instr import SymDict
    return SymDict(pairs)


def ob_cfg(depth, top=None):
    def h():
        txt, e = gen_cfg(depth, top=top)
        for nm in names_of(e, []):
            assume(sym_not(keywordish(nm)))       # an identifier spelled any/all/not is a keyword
        k1 = sym_str(1 + choose(2, 'k1l'), 'k1', alphabet=NAMEA); v1 = sym_str(choose(3, 'v1l'), 'v1', alphabet=NAMEA)
        k2 = sym_str(1, 'k2', alphabet=NAMEA); v2 = sym_str(1, 'v2', alphabet=NAMEA)
        assume(sym_not(k1 == k2))
        cfgs = sym_dict([(k1, v1), (k2, v2)])
        got = C.eval_cfg('cfg(' + txt + ')', cfgs)
        check(eq(got, ref_eval(e, [k1, k2], [v1, v2])), 'cfg value == Boolean structure')
        cover(e[0])
    return h


CFGA = 'alnyot(),=" '


class Reject(Exception):
    pass


def ref_cfg_tokens(cs):
    """reference lexer on a list of characters (one predicate per class)"""
    toks = []; i = 0; n = len(cs)
    while i < n:
        ch = cs[i]
        if decide(c_isspace(ch)): i += 1; continue
        if decide(c_in(ch, '(),=')):
            for sym in '(),=':
                if decide(ceq(ch, ord(sym))): toks.append((sym, None)); break
            i += 1; continue
        if decide(ceq(ch, 34)):
            j = i + 1
            while True:
                if j >= n: raise Reject('unterminated string')
                if decide(ceq(cs[j], 34)): break
                j += 1
            toks.append(('str', mkstr(cs[i + 1:j]))); i = j + 1; continue
        j = i
        while j < n and not decide(zor([c_isspace(cs[j]), c_in(cs[j], '(),="')])): j += 1
        w = mkstr(cs[i:j])
        if j >= n: toks.append(('id', w))       # pinned by the code: the last word of the text "should always be an identifier"
        elif decide(bt_any(w == 'any')): toks.append(('any', None))
        elif decide(bt_any(w == 'all')): toks.append(('all', None))
        elif decide(bt_any(w == 'not')): toks.append(('not', None))
        else: toks.append(('id', w))
        i = j
    return toks


def ref_cfg_parse(toks, p):
    if p >= len(toks): raise Reject('eof')
    k, v = toks[p]
    if k == 'id':
        if p + 1 < len(toks) and toks[p + 1][0] == '=':
            if p + 2 >= len(toks) or toks[p + 2][0] != 'str': raise Reject('string expected')
            return ('eq', v, toks[p + 2][1]), p + 3
        return ('id', v), p + 1
    if k in ('any', 'all'):
        if p + 1 >= len(toks) or toks[p + 1][0] != '(': raise Reject('(')
        p += 2; args = []
        if p < len(toks) and toks[p][0] == ')': return (k, args), p + 1
        while True:
            e, p = ref_cfg_parse(toks, p); args.append(e)
            if p >= len(toks): raise Reject('eof')
            if toks[p][0] == ')': return (k, args), p + 1
            if toks[p][0] != ',': raise Reject(', or )')
            p += 1
    if k == 'not':
        if p + 1 >= len(toks) or toks[p + 1][0] != '(': raise Reject('(')
        e, p = ref_cfg_parse(toks, p + 2)
        if p >= len(toks) or toks[p][0] != ')': raise Reject(')')
        return ('not', e), p + 1
    raise Reject('unexpected ' + k)


def ob_cfg_free(n, ctx=None):
    """ctx: the free text is the argument list of not( ) / all( ) / any( ), alone or nested in all( ): arity and separators of every operator"""
    def h():
        if ctx is None:
            body = sym_str(n, 'c', alphabet=CFGA)
        else:
            kw = ['not', 'all', 'any'][choose(3, 'kw')]
            pre, post = [('', ''), ('all(', ')'), ('any(a, ', ')')][choose(3, 'nest')]
            body = pre + kw + '(' + sym_str(n, 'c', alphabet='al,() ="') + ')' + post
        k1 = sym_str(1, 'k', alphabet='alny'); v1 = sym_str(1, 'v', alphabet='alny')
        cfgs = sym_dict([(k1, v1)])
        try:
            got = C.eval_cfg('cfg(' + body + ')', cfgs); rej = False
        except ME:
            rej = True
        try:
            toks = ref_cfg_tokens(chars_of(body))
            e, p = ref_cfg_parse(toks, 0)
            if p != len(toks): raise Reject('trailing')
            exp = ref_eval(e, [k1], [v1]); rrej = False
        except Reject:
            rrej = True
        check(rej == rrej, 'malformed expressions are rejected, well-formed ones accepted')
        if not rej and not rrej:
            check(eq(got, exp), 'free-text cfg value'); cover('value')
        else:
            cover('rejected')
    return h


def ob_dependency_update():
    """cargo.manifest.Dependency: the version requirement of a dependency is replaced (update_version: a Cargo.lock pin) after `accepts_version` and / or `api`
    may already have been read - every later answer is the one for the NEW requirement (what cargo_parse / api give for it), never a remembered one"""
    def h():
        from mesonbuild.cargo import manifest
        D = '0123456789'
        req1 = OPS[choose(len(OPS), 'op1')] + '1.' + sym_str(1, 'r', alphabet=D)
        req2 = OPS[choose(len(OPS), 'op2')] + ['1.', '2.'][choose(2, 'major2')] + sym_str(1, 's', alphabet=D)
        vs = ['1.', '2.'][choose(2, 'vmajor')] + sym_str(1, 'v', alphabet=D) + '.0'
        dep = manifest.Dependency('x', req1)
        read_acc = choose(2, 'accepts_version read before the update'); read_api = choose(2, 'api read before the update')
        order = choose(2, 'order of the reads')
        for what in (('acc', 'api') if order else ('api', 'acc')):
            if what == 'acc' and read_acc:
                check(eq(dep.accepts_version(vs), V.cargo_parse(req1)(vs)), 'before the update: the declared requirement decides')
            if what == 'api' and read_api:
                try: dep.api
                except ME: pass
        dep.update_version(req2)
        check(dep.version is req2 or eq(dep.version, req2), 'the requirement is replaced')
        check(eq(dep.accepts_version(vs), V.cargo_parse(req2)(vs)), 'after the update: acceptance is decided by the new requirement')
        try:
            exp_api = V.api(req2); exp_err = False
        except ME:
            exp_api = None; exp_err = True
        try:
            got_api = dep.api; got_err = False
        except ME:
            got_api = None; got_err = True
        check(got_err == exp_err and (got_err or eq(got_api, exp_api)), 'after the update: api is the one of the new requirement')
        cover('updated')
    return h


def obligations(tier):
    out = []
    for opi in range(len(OPS)):
        for nr in (1, 2, 3):
            for nv in ((3,) if tier == 'quick' else (1, 2, 3)):
                out.append(Obligation('req[%s,%d,%d]' % (OPS[opi] or 'bare', nr, nv), ob_req(opi, nr, nv),
                                      dict(op=OPS[opi], req_components=nr, ver_components=nv, values='0..99'), labels=('done',)))
    for f in range(3):
        out.append(Obligation('wildcard[%d]' % f, ob_wild(f), dict(form=['*', 'I.*', 'I.J.*'][f]), labels=('done',)))
    pairs = [(5, 4), (7, 4)] if tier == 'quick' else [(a, b) for a in range(len(OPS)) for b in range(len(OPS))]
    for opi in range(1, len(OPS)):
        out.append(Obligation('op-wildcard[%s]' % OPS[opi], ob_op_wild(opi), dict(form=OPS[opi] + 'I.* | ' + OPS[opi] + 'I.J.*', alone_or_in_list='both'), labels=('done',)))
    for a, b in pairs:
        out.append(Obligation('list[%s,%s]' % (OPS[a] or 'bare', OPS[b] or 'bare'), ob_list(a, b), dict(ops=(OPS[a], OPS[b]), components=2), labels=('done',)))
    out.append(Obligation('semver-order', ob_order(1 if tier == 'quick' else 2),
                          dict(components='1-3 of 0..99', prerelease_identifiers='<=%d of 1-2 chars over %s' % (1 if tier == 'quick' else 2, IDA), build='optional'),
                          labels=('pre', 'release'), classify=classify_semver, max_paths=3000000))
    out.append(Obligation('semver-order[pre-releases of one release]', ob_order_pre(), dict(core='1.2.3', prerelease_identifiers='1-2 of 1-2 chars over ' + IDA), labels=('pre',), classify=classify_semver, max_paths=3000000))
    for opi in (3, 5, 7) if tier == 'quick' else range(len(OPS)):
        out.append(Obligation('prerelease-gate[%s]' % (OPS[opi] or 'bare'), ob_gate(opi), dict(op=OPS[opi]), labels=('gated',), classify=classify_semver, max_paths=2000000))
    out.append(Obligation('cfg[depth 1]', ob_cfg(1), dict(depth=1, args='<=2', names='1-2 chars over ' + NAMEA), labels=('id', 'eq', 'not', 'any', 'all'), max_paths=3000000))
    if tier != 'quick':
        for top, nm in ((2, 'not'), (3, 'any'), (4, 'all')):
            out.append(Obligation('cfg[depth 2,%s]' % nm, ob_cfg(2, top), dict(depth=2, outermost=nm, args='<=2', nested='1-character names, values of 0-1 characters, no optional blanks (their variety is at depth 1)'),
                                  labels=(nm,), max_paths=5000000))
    for n in range(0, 6 if tier == 'quick' else 8):
        out.append(Obligation('cfg-free[%d]' % n, ob_cfg_free(n), dict(length=n, alphabet=CFGA), labels=('rejected',), max_paths=3000000))
    for n in (0, 1, 2, 3, 4) if tier == 'quick' else (0, 1, 2, 3, 4, 5, 6):
        out.append(Obligation('cfg-args[%d]' % n, ob_cfg_free(n, 'args'), dict(context='not(W) | all(W) | any(W), alone, in all( ) or after any(a, ', window=n, alphabet='a l , ( ) space = "'), labels=('rejected', 'value') if n >= 3 else (), optional_labels=('rejected', 'value'), max_paths=3000000))
    out.append(Obligation('dependency-update', ob_dependency_update(), dict(real='cargo.manifest.Dependency.accepts_version / api / update_version', requirements='op + 1.d, then op + {1,2}.d (d a symbolic digit)', version='{1,2}.d.0', reads_before_update='accepts_version and/or api, either order'), labels=('updated',), max_paths=3000000))
    return out
