"""symx prototype core: fork-by-re-execution with z3 (feasibility spike, round 0)."""
import time, z3

class Unsupported(Exception):
    pass

class PathAbort(BaseException):
    """assume() failed / infeasible"""

class Ctx:
    def __init__(self, prefix):
        self.solver = z3.Solver()
        self.prefix = prefix
        self.pos = 0
        self.trail = []
        self.pending = []
        self.nchecks = 0
        self.model = None
        self.fresh = 0
        self.violations = []
        self.labels = set()
        self.taint = False

    def sat(self, extra):
        self.solver.push()
        self.solver.add(extra)
        self.nchecks += 1
        r = self.solver.check()
        m = self.solver.model() if r == z3.sat else None
        self.solver.pop()
        if r == z3.unknown:
            raise Unsupported('solver unknown')
        return r == z3.sat, m

CTX = None

def ctx():
    return CTX

def fresh_name(base):
    CTX.fresh += 1
    return '%s!%d' % (base, CTX.fresh)

def _model_says(m, cond):
    if m is None:
        return None
    v = m.eval(cond, model_completion=True)
    if z3.is_true(v):
        return True
    if z3.is_false(v):
        return False
    return None

def branch(cond):
    """decide a z3 Bool under the current path condition; forks when both sides feasible"""
    c = CTX
    cond = z3.simplify(cond)
    if z3.is_true(cond):
        return True
    if z3.is_false(cond):
        return False
    if c.pos < len(c.prefix):
        take = c.prefix[c.pos]
        c.model = None
    else:
        ms = _model_says(c.model, cond)
        if ms is True:
            ft, mt = True, c.model
            ff, mf = c.sat(z3.Not(cond))
        elif ms is False:
            ff, mf = True, c.model
            ft, mt = c.sat(cond)
        else:
            ft, mt = c.sat(cond)
            ff, mf = c.sat(z3.Not(cond))
        if ft and ff:
            take = True
            c.pending.append(c.trail + [False])
            c.model = mt
        elif ft:
            take = True
            c.model = mt
        elif ff:
            take = False
            c.model = mf
        else:
            raise PathAbort('infeasible')
    c.pos += 1
    c.trail.append(take)
    c.solver.add(cond if take else z3.Not(cond))
    return take

def choose(n, name='choice'):
    """fork over 0..n-1"""
    for i in range(n - 1):
        v = z3.Bool(fresh_name(name))
        if branch(v):
            return i
    return n - 1

def assume(cond):
    c = CTX
    t = cond.t if hasattr(cond, 't') else z3.BoolVal(bool(cond))
    c.solver.add(t)
    c.model = None
    ok, m = c.sat(z3.BoolVal(True))
    if not ok:
        raise PathAbort('assume')
    c.model = m

def check(cond, label=''):
    c = CTX
    t = cond.t if hasattr(cond, 't') else z3.BoolVal(bool(cond))
    t = z3.simplify(t)
    if z3.is_true(t):
        return
    bad, m = c.sat(z3.Not(t))
    if bad:
        c.violations.append((label, m, list(c.trail)))

def cover(label):
    CTX.labels.add(label)

def explore(harness, max_paths=None, on_violation=None, verbose=False):
    global CTX
    work = [[]]
    stats = dict(paths=0, checks=0, aborted=0, violations=[], labels=set(), errors=[])
    t0 = time.time()
    while work:
        prefix = work.pop()
        CTX = Ctx(prefix)
        try:
            harness()
        except PathAbort:
            stats['aborted'] += 1
        except Unsupported as e:
            stats['errors'].append(('unsupported', str(e), list(CTX.trail)))
        stats['paths'] += 1
        stats['checks'] += CTX.nchecks
        stats['labels'] |= CTX.labels
        work.extend(CTX.pending)
        for v in CTX.violations:
            stats['violations'].append(v)
            if on_violation:
                on_violation(v)
        if max_paths and stats['paths'] >= max_paths:
            stats['truncated'] = len(work)
            break
    stats['time'] = time.time() - t0
    CTX = None
    return stats
