"""Whole configurations of small projects WITHOUT a compiled language, shared by C03 / C04 / C15: the real Interpreter runs a generated meson.build
(custom targets with one or two outputs, consuming a source file, a whole target, one indexed output, a configure_file() output or a generator() list;
alias / run targets; tests and benchmarks; a subdirectory), the real NinjaBackend.generate() writes build.ninja and the real mintro lists the targets.
The STRUCTURE of the project is enumerated by the executor (`choose`), its flags and indices (build_by_default, install, build_always_stale, which output is
indexed) are symbolic values that flow through the interpreter and the backend. The manifest is read back with the reference Ninja parser (ninjaref)."""
import os, sys, shutil, tempfile, argparse, atexit, types
from symx.api import *
from harness import ninjaref as NR

M = types.SimpleNamespace(ready=False)
_ROOTS = {}


def setup():
    if M.ready: return
    from mesonbuild import mparser, build, environment, cmdline, mintro, mesonlib, tooldetect
    from mesonbuild.interpreter import Interpreter
    from mesonbuild.backend import ninjabackend as nb
    from mesonbuild.mesonlib import MesonException
    from harness.common import quiet_mlog
    quiet_mlog()
    p = argparse.ArgumentParser(); cmdline.register_builtin_arguments(p)
    o = p.parse_args([]); o.cross_file = []; o.native_file = []
    cmdline.parse_cmd_line_options(o)
    M.mp, M.B, M.E, M.MI, M.ML, M.I, M.nb, M.ME, M.OPTS = mparser, build, environment, mintro, mesonlib, Interpreter, nb, MesonException, o
    p2 = argparse.ArgumentParser(); cmdline.register_builtin_arguments(p2)
    o2 = p2.parse_args(['-Dlayout=flat']); o2.cross_file = []; o2.native_file = []
    cmdline.parse_cmd_line_options(o2)
    M.OPTS_FLAT = o2
    # environment stubs (listed in the evidence): there is no ninja binary - meson only asks it for its version; no compilation database (`ninja -t compdb`)
    tooldetect.detect_ninja_command_and_version = lambda *a, **k: (['ninja'], '1.11.1')
    nb.NinjaBackend.generate_compdb = lambda self: None
    try: mesonlib.get_meson_command()
    except Exception: mesonlib.set_meson_command('/repo/meson.py')
    if not mesonlib.get_meson_command(): mesonlib.set_meson_command('/repo/meson.py')
    M.ready = True


def root():
    pid = os.getpid()
    if pid not in _ROOTS:
        d = tempfile.mkdtemp(prefix='projw%d_' % pid)
        _ROOTS.clear(); _ROOTS[pid] = d
        atexit.register(lambda: shutil.rmtree(d, ignore_errors=True))
    return _ROOTS[pid]


class Configured:
    pass


def configure(files, presets, flat=False):
    """files: {relative path: text} of the source tree (meson.build included); presets: variables defined before the first statement runs.
    -> Configured(text of build.ninja, rules, builds, top, targets (mintro.list_targets), tests, src, bld) or raises MesonException"""
    setup()
    r = root(); src = os.path.join(r, 'src'); bld = os.path.join(r, 'bld')
    shutil.rmtree(src, ignore_errors=True); shutil.rmtree(bld, ignore_errors=True)
    os.makedirs(src); os.makedirs(bld)
    for rel, text in files.items():
        p = os.path.join(src, rel)
        os.makedirs(os.path.dirname(p), exist_ok=True)
        with open(p, 'w') as f: f.write(text)
    opts = M.OPTS_FLAT if flat else M.OPTS
    env = M.E.Environment(src, bld, opts)
    b = M.B.Build(env)
    it = M.I(b, user_defined_options=opts)
    for k, v in presets.items(): it.variables[k] = it._holderify(v)
    it.run()
    b.def_files = it.get_build_def_files()
    os.makedirs(os.path.join(bld, 'meson-private'), exist_ok=True)
    with open(os.path.join(bld, 'meson-private', 'coredata.dat'), 'w') as f: f.write('')     # msetup dumps coredata before generate(); the backend only looks at its mtime
    it.backend.generate(False, None)
    c = Configured()
    c.src, c.bld, c.build, c.backend, c.it = src, bld, b, it.backend, it
    with open(os.path.join(bld, 'build.ninja')) as f: c.text = f.read()
    c.top = {}
    c.rules, c.builds = NR.parse_manifest(c.text, c.top)
    c.targets = M.MI.list_targets(env.get_coredata(), b, it.backend)
    c.installed = M.MI.list_installed(env.get_coredata(), b, it.backend)
    c.install_plan = M.MI.list_install_plan(env.get_coredata(), b, it.backend)
    c.tests = it.backend.create_test_serialisation(b.get_tests())
    c.benchmarks = it.backend.create_test_serialisation(b.get_benchmarks())
    return c


# ---------------------------------------------------------------- graph facts from the parsed manifest
def P(pieces): return NR.path_text(pieces)


class Graph:
    def __init__(self, c):
        self.c = c
        self.producer = {}           # output path -> index of its statement
        self.dups = []
        self.stmts = []
        for n, b in enumerate(c.builds):
            outs = [P(x) for x in b['outs']] + [P(x) for x in b['implicit']]
            ins = [P(x) for x in b['ins']]; deps = [P(x) for x in b['deps']]; order = [P(x) for x in b['order']]
            self.stmts.append(dict(outs=outs, ins=ins, deps=deps, order=order, rule=b['rule'], raw=b))
            for o in outs:
                if o in self.producer: self.dups.append(o)
                self.producer[o] = n

    def all_inputs(self, n):
        s = self.stmts[n]; return s['ins'] + s['deps'] + s['order']

    def reach(self, start):
        """every path reachable from `start` through producing statements (building one output of a statement runs the statement)"""
        seen = set(); todo = [start]
        while todo:
            x = todo.pop()
            if x in seen: continue
            seen.add(x)
            if x in self.producer:
                n = self.producer[x]
                todo.extend(self.all_inputs(n)); todo.extend(self.stmts[n]['outs'])
        return seen

    def cyclic(self):
        color = {}
        def visit(n):
            color[n] = 1
            for i in self.all_inputs(n):
                m = self.producer.get(i)
                if m is None: continue
                if color.get(m) == 1: return True
                if color.get(m) is None and visit(m): return True
            color[n] = 2
            return False
        return any(color.get(n) is None and visit(n) for n in range(len(self.stmts)))


def wellformed(c, g):
    """the statement-level and closure clauses of C04 on a parsed manifest"""
    for s in g.stmts:
        check(s['rule'] == 'phony' or s['rule'] in c.rules, 'every build statement uses a defined rule')
    check(not g.dups, 'no path is produced by two statements')
    check(not g.cyclic(), 'the dependency graph is acyclic')
    for n, s in enumerate(g.stmts):
        for i in g.all_inputs(n):
            ok = i in g.producer or os.path.exists(os.path.join(c.bld, i))
            check(ok, 'every input exists after configuration or is the output of another statement')
    for d in c.top.get('default', []):
        check(P(d) in g.producer, 'the default target is produced by a statement')


# ---------------------------------------------------------------- the project generator
PYCMD = "[py, '-c', 'pass'"


class Proj:
    """one generated project: text, presets and the facts the reference expects of it"""


def gen_project(dim, full=False):
    """dim = 'inputs': what B and C consume varies (consumers fixed); 'consumers': alias / run target / test / benchmark vary (inputs fixed); 'all': both"""
    pr = Proj()
    PS = pr.presets = {}
    two_a = choose(2, 'outputs of A') == 1
    a_outs = ['a1.txt', 'a2.txt'] if two_a else ['a1.txt']
    odd = 0          # set below, once the input shapes are known: 1 = a space, 2 = a dollar sign and a colon in the output names of A
    # the flags matter for what is built by default / installed: symbolic where the consumers vary; where the INPUTS vary only the index and the install flag are
    PS['BA'] = sym_bool('A.build_by_default') if (dim != 'inputs' or full) else False
    PS['BB'] = sym_bool('B.build_by_default') if (dim != 'inputs' or full) else False
    PS['IC'] = sym_bool('C.install')
    PS['SC'] = sym_bool('C.build_always_stale') if full else False
    PS['IA'] = sym_int('index into A', 0, len(a_outs) - 1)
    vary_in = dim in ('inputs', 'all'); vary_co = dim in ('consumers', 'all')
    in_b = choose(8, 'input of B') if vary_in else 2          # 7: a source file named by its ABSOLUTE path
    in_c = choose(5, 'input of C') if vary_in else 0
    odd = choose(3, 'odd output names') if (vary_in and in_b in (1, 2) and in_c in (0, 1)) else 0
    if odd: a_outs = [n_.replace('a', ['', 'a b', 'a$:'][odd], 1) for n_ in a_outs]
    place = choose(3, 'where B lives') if vary_in else 0          # 0: top level, 1: subdir('sub'), 2: top level with build_subdir : 'deep' (builddir != subdir)
    b_sub = place == 1
    EAS = ['plain', 'a\\b', 'keep@INPUT@', '@BUILD_DIR@/y', '@OUTPUT0@']      # extra_args of generator.process(): passed on verbatim - no template substitution, no backslash normalisation
    ea = EAS[choose(len(EAS), 'generator extra_args')] if (vary_in and in_b == 4) else 'plain'
    extra = choose(9, 'alias / run target') if vary_co else 0        # alias_target() takes whole targets only; 7: an alias of an alias, 8: an alias of a run target
    tst = choose(12, 'test') if vary_co else 1          # 11: a test AND a benchmark that use the same target
    flat = (choose(2, 'layout') == 1) if ((vary_in and place != 0 and in_b in (0, 1)) or (vary_co and extra in (7, 8))) else False        # --layout=flat: every target output under meson-out/ (plus build_subdir)
    pr.flat = flat
    bdir = ('sub/' if b_sub else ('deep/' if place == 2 else '')) if not flat else ('meson-out/deep/' if place == 2 else 'meson-out/')
    odir = 'meson-out/' if flat else ''
    # ---- text
    L = ["project('p')", "py = find_program('python3')", "cf = configure_file(output : 'cf.txt', configuration : {'K' : 1})",
         "g = generator(py, output : ['@BASENAME@.c', '@BASENAME@.h'], arguments : ['-c', 'pass', '@INPUT@', '--pair=@OUTPUT0@,@OUTPUT1@', '@OUTPUT1@', '@EXTRA_ARGS@'])"]
    L.append("A = custom_target('A', output : %r, command : %s, '@OUTPUT@'], build_by_default : BA)" % (a_outs, PYCMD))
    inb_expr = ["'%sin.txt'" % ('../' if b_sub else ''), 'A', 'A[IA]', 'cf', "g.process('%sin.txt', extra_args : ['%s'])" % ('../' if b_sub else '', ea.replace('\\', '\\\\')), "[A[0], '%sin.txt']" % ('../' if b_sub else ''), None, "meson.project_source_root() / 'in.txt'"][in_b]
    bl = "B = custom_target('B', %soutput : 'b.txt', command : %s, %s'@OUTPUT0@'], build_by_default : BB%s%s)" % (
        ('input : %s, ' % inb_expr) if inb_expr else '', PYCMD, "'@INPUT@', " if inb_expr else '', ", depends : A, depend_files : files('%sin.txt')" % ('../' if b_sub else '') if in_b == 6 else '',
        ", build_subdir : 'deep'" if place == 2 else '')
    files = {'in.txt': '', 'dep.txt': '', 'd/one.dat': '', 'two.dat': ''}
    PS['PP'] = sym_bool('install_data.preserve_path') if (vary_in and (in_b == 0 or full)) else True
    L.append("install_data('d/one.dat', 'two.dat', preserve_path : PP, install_dir : 'share/kept')")
    if b_sub:
        L.append("subdir('sub')"); files['sub/meson.build'] = bl + '\n'
    else:
        L.append(bl)
    inc_expr = ['B', 'A[0]', "'in.txt'", '[B, A]', "'in.txt'"][in_c]
    # odd names of what is INSTALLED: two outputs of one target whose names differ only in letter case (each with its own install_dir), and a directory
    # installed under a name that ends with a slash (with and without strip_directory)
    twins = vary_in and in_b == 0 and in_c in (0, 2) and choose(2, 'outputs of C that differ only in case') == 1
    c_outs, c_dirs = (['c1.txt', 'C1.txt'], "['share', 'lib']") if twins else (['c1.txt', 'c2.txt'], "['share', false]")
    sdk = choose(4, 'install_subdir') if (vary_in and in_b == 0 and in_c in (0, 2)) else 0          # 1: 'tree', 2: 'tree/', 3: 'tree/' with strip_directory
    if sdk:
        files['tree/f.txt'] = ''
        L.append("install_subdir('%s', install_dir : 'share/x'%s)" % (['', 'tree', 'tree/', 'tree/'][sdk], ', strip_directory : true' if sdk == 3 else ''))
    L.append("C = custom_target('C', input : %s, output : %r, command : %s, %s'@INPUT@', '@OUTPUT@'], build_always_stale : SC, install : IC, install_dir : %s)" % (inc_expr, c_outs, PYCMD, 'A[IA], ' if in_c == 4 else '', c_dirs))
    bare = vary_in and in_b == 0 and in_c == 0 and choose(2, 'a program given as a bare command name with arguments') == 1
    if bare:
        from mesonbuild import programs
        PS['SH'] = programs.ExternalProgram('mysh', ['sh', '-e'], silent=True)          # as a machine file's [binaries] mysh = ['sh', '-e'] gives it: found, but its 'path' is not a file
        L.append("D = custom_target('D', output : 'd.txt', command : [SH, '-c', 'true'])")
        L.append("run_target('go', command : [SH, '-c', 'true'])")
    X = [None, 'A', 'C', 'B', 'C', 'A[IA]', 'A', 'C', 'B'][extra]
    if extra in (1, 2, 3): L.append("alias_target('al', %s)" % X)
    elif extra in (4, 5): L.append("run_target('rt', command : %s, %s])" % (PYCMD, X))
    elif extra == 6: L.append("run_target('rt', command : %s], depends : %s)" % (PYCMD, X))
    elif extra == 7: L.append("al = alias_target('al', %s)" % X); L.append("alias_target('al2', al)")
    elif extra == 8: L.append("rt = run_target('rt', command : %s], depends : %s)" % (PYCMD, X)); L.append("alias_target('al2', rt)")
    TX = [None, 'B', 'A[IA]', 'C[1]', 'B', 'A[IA]', 'C', 'A[IA]', 'C[0]', 'B', 'A[IA]', 'B'][tst]
    kind = 'benchmark' if tst in (9, 10) else 'test'
    if tst in (1, 2, 3, 9, 10): L.append("%s('t', py, args : ['-c', 'pass', %s])" % (kind, TX))
    elif tst in (4, 5, 6): L.append("test('t', py, args : ['-c', 'pass'], depends : %s)" % TX)
    elif tst in (7, 8): L.append("test('t', %s)" % TX)
    elif tst == 11: L.append("test('t', py, args : ['-c', 'pass', %s])" % TX); L.append("benchmark('b', py, args : ['-c', 'pass', %s])" % TX)
    files['meson.build'] = '\n'.join(L) + '\n'
    pr.files = files
    # ---- expected facts (reference, from the description above and the documentation of the functions used)
    ia = concretize_int(PS['IA']) if is_sym(PS['IA']) else PS['IA']
    a_outs = [odir + x for x in a_outs]
    outs = {'A': a_outs, 'B': [bdir + 'b.txt'], 'C': [odir + x for x in c_outs]}
    pr.c_dest = ['share/c1.txt', 'lib/C1.txt'] if twins else ['share/c1.txt', None]          # where install puts each output of C (None: not installed)
    pr.subdir_dest = [None, 'share/x/tree', 'share/x/tree', 'share/x'][sdk]
    def target_of(x): return None if x is None else x[0]
    pr.outs = outs
    pr.ins = {'A': [], 'C': [outs['B'], [a_outs[0]], ['../src/in.txt'], outs['B'] + a_outs, ['../src/in.txt']][in_c]}
    pr.c_cmd_dep = a_outs[ia] if in_c == 4 else None       # an output of another target used as an ARGUMENT of the command: a dependency, not an input
    pr.ins['B'] = [['../src/in.txt'], a_outs, [a_outs[ia]], ['cf.txt'], None, [a_outs[0], '../src/in.txt'], [], ['../src/in.txt']][in_b]         # None: generator outputs in B's private directory
    pr.b_generated = in_b == 4
    pr.b_extra_deps = [a_outs[0], '../src/in.txt'] if in_b == 6 else []
    pr.default = [t for t, f in (('A', PS['BA']), ('B', PS['BB'])) if decide(bt_any(f))]
    pr.installed_c = decide(bt_any(PS['IC']))
    pr.preserve = decide(bt_any(PS['PP']))
    if pr.installed_c: pr.default.append('C')        # an installed custom target is built by default
    pr.alias = (target_of(X) if extra in (1, 2, 3, 7) else None)
    pr.run_needs = (target_of(X) if extra in (4, 5, 6, 8) else None)
    pr.alias2 = target_of(X) if extra in (7, 8) else None
    pr.test_needs = target_of(TX) if (tst < 9 or tst == 11) else None
    pr.bench_needs = target_of(TX) if tst >= 9 else None
    pr.tst, pr.extra, pr.in_b, pr.in_c, pr.ia, pr.ea = tst, extra, in_b, in_c, ia, ea
    return pr


def run_project(dim, full=False):
    pr = gen_project(dim, full)
    c = configure(pr.files, pr.presets, pr.flat)
    return pr, c, Graph(c)


FLAT_INDEX_CLASS = 'flat layout: one indexed output of a custom target used as a command ARGUMENT is written without meson-out/'
FLAT_INDEX_LABELS = ('every input exists after configuration or is the output of another statement', 'a target output named in a command is a dependency of the statement',
                     '@INPUT@ / @OUTPUT@ / @OUTPUT0@ become exactly the inputs and outputs of the statement')


def classify(label, inputs):
    """known-finding key (see known_findings.txt): --layout=flat AND custom_target(command : [..., A[i], ...])"""
    d = {(k, n): v for k, n, v in inputs}
    if d.get(('choice', 'layout')) == 1 and d.get(('choice', 'input of C')) == 4 and label in FLAT_INDEX_LABELS:
        return FLAT_INDEX_CLASS
    return label
