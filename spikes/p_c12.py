import sys, time, asyncio, argparse
sys.path.insert(0, __import__('os').path.dirname(__import__('os').path.abspath(__file__))); sys.path.insert(0, '/repo')
from sx import instr, core
from sx.values import *
from sx.core import choose, check, cover
instr.install()
from mesonbuild import mtest
from mesonbuild.mtest import TestHarness, TestResult
import z3

class FakeRes:
    def __init__(self, res): self.res = res
class FakeRunner:
    def __init__(self, name, parallel, st):
        self.visible_name = name; self.is_parallel = parallel; self.fut = None; self.started = 0; self.st = st
    async def run(self, harness):
        self.started += 1
        st = self.st
        st['running'].append(self)
        check(len(st['running']) <= st['nproc'], 'job bound')
        if len(st['running']) > 1:
            for r in st['running']:
                # a serial test never overlaps: is_parallel must be true for all when >1 running
                check(r.is_parallel if isinstance(r.is_parallel, bool) else r.is_parallel, 'serial isolation')
        self.fut = asyncio.get_running_loop().create_future()
        await self.fut
        st['running'].remove(self)
        return FakeRes(TestResult.OK)

def harness(n, nproc):
    def h():
        st = {'running': [], 'nproc': nproc}
        runners = [FakeRunner('t%d' % i, sym_bool('par%d' % i), st) for i in range(n)]
        hh = object.__new__(TestHarness)
        hh.options = argparse.Namespace(num_processes=nproc, repeat=1, maxfail=0)
        hh.loggers = []; hh.fail_count = 0; hh.maxfail_reached = False
        for a in ('timeout_count','skip_count','ignored_count','success_count','expectedfail_count','unexpectedpass_count'): setattr(hh, a, 0)
        hh.collected_failures = []
        loop = asyncio.new_event_loop(); asyncio.set_event_loop(loop)
        try:
            task = loop.create_task(hh._run_tests(runners))
            while not task.done():
                for _ in range(30):
                    loop.call_soon(loop.stop); loop.run_forever()
                if task.done(): break
                pend = [r for r in runners if r.fut is not None and not r.fut.done()]
                check(len(pend) > 0, 'no deadlock')
                if not pend: return
                k = choose(len(pend), 'next')
                pend[k].fut.set_result(None)
            task.result()
            for r in runners: check(r.started == 1, 'exactly once')
            check(hh.success_count == n, 'tally')
            cover('done')
        finally:
            if not task.done(): task.cancel()
            loop.close()
    return h

if __name__ == '__main__':
    for n, nproc in ((2, 2), (3, 2), (4, 2), (4, 3)):
        st = core.explore(harness(n, nproc), max_paths=40000)
        print(n, nproc, 'paths', st['paths'], 'checks', st['checks'], 'viol', len(st['violations']), 'errors', len(st['errors']), st['labels'], 'time %.1f' % st['time'], st.get('truncated'), flush=True)
        for e in st['errors'][:3]: print('   ', e[:2])
        for v in st['violations'][:3]: print('   V', v[0], v[1])
