import sys, time
sys.path.insert(0, __import__('os').path.dirname(__import__('os').path.abspath(__file__))); sys.path.insert(0, '/repo')
from sx import instr, core
from sx.values import *
from sx.core import choose, check, cover
instr.install(prefixes=('mesonbuild.', 'shlex'), exact=('mesonbuild', 'shlex'))
from mesonbuild.backend import ninjabackend as nb
import z3

def ch_is(ch, c): return ch == c
def buildargv(s):
    """libiberty buildargv: whitespace separated; ' and " quote; backslash escapes next char everywhere"""
    args = []; cur = None; i = 0; n = len(s); squote = dquote = bsl = False
    while i < n:
        ch = s[i]
        if not (squote or dquote or bsl) and (ch == ' ' or ch == '\t' or ch == '\n'):
            if cur is not None: args.append(cur); cur = None
            i += 1; continue
        if cur is None: cur = ''
        if bsl: cur = cur + ch; bsl = False
        elif ch == '\\': bsl = True
        elif squote:
            if ch == "'": squote = False
            else: cur = cur + ch
        elif dquote:
            if ch == '"': dquote = False
            else: cur = cur + ch
        elif ch == "'": squote = True
        elif ch == '"': dquote = True
        else: cur = cur + ch
        i += 1
    if cur is not None: args.append(cur)
    return args

def argvw(s):
    """CommandLineToArgvW / MSVC CRT rules for one already-isolated quoted argument string list"""
    args = []; cur = None; i = 0; n = len(s); inq = False
    while i < n:
        ch = s[i]
        if ch == '\\':
            j = i
            while j < n and s[j] == '\\': j += 1
            k = j - i
            if cur is None: cur = ''
            if j < n and s[j] == '"':
                cur = cur + '\\' * (k // 2)
                if k % 2 == 1: cur = cur + '"'
                else: inq = not inq
                i = j + 1
            else:
                cur = cur + '\\' * k; i = j
            continue
        if ch == '"':
            if cur is None: cur = ''
            inq = not inq; i += 1; continue
        if (ch == ' ' or ch == '\t') and not inq:
            if cur is not None: args.append(cur); cur = None
            i += 1; continue
        if cur is None: cur = ''
        cur = cur + ch; i += 1
    if cur is not None: args.append(cur)
    return args

def h_gcc(n):
    def h():
        a = sym_str(n, 'a', 1, 126)
        q = nb.gcc_rsp_quote(a)
        back = buildargv(q)
        check(len(back) == 1, 'one arg'); 
        if len(back) == 1:
            check(len(back[0]) == len(a), 'len')
            if len(back[0]) == len(a): check(back[0] == a, 'same')
        cover('done')
    return h
def h_cmd(n):
    def h():
        a = sym_str(n, 'a', 1, 126)
        q = nb.cmd_quote(a)
        back = argvw(q)
        check(len(back) == 1, 'one arg')
        if len(back) == 1:
            check(len(back[0]) == len(a), 'len')
            if len(back[0]) == len(a): check(back[0] == a, 'same')
        cover('done')
    return h
if __name__ == '__main__':
    for name, mk in (('gcc_rsp_quote', h_gcc), ('cmd_quote', h_cmd)):
        for n in (1, 2, 3, 4):
            st = core.explore(mk(n), max_paths=40000)
            print(name, n, 'paths', st['paths'], 'viol', len(st['violations']), 'errors', len(st['errors']), 'time %.1f' % st['time'], flush=True)
            for e in st['errors'][:2]: print('   ', e[:2])
            seen = set()
            for v in st['violations']:
                if v[0] in seen: continue
                seen.add(v[0]); print('   V', v[0], str(v[1]).replace('\n', ' ')[:200])
