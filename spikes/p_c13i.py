import sys, time, collections
sys.path.insert(0, __import__('os').path.dirname(__import__('os').path.abspath(__file__))); sys.path.insert(0, '/repo')
from sx import instr, core
from sx.values import *
from sx.core import choose, check, cover
instr.install()
from mesonbuild.compilers.mixins.clike import CLikeCompilerArgs
from mesonbuild.arglist import Dedup
import z3
from p_c13 import PREFIXES

PRE = ['-I', '-L']; POST = ['-D', '-isystem', '-l', '-f']
def arg(kinds):
    k = choose(len(kinds), 'kind')
    return kinds[k] + sym_str(1, 't', alphabet='ab')

def mkstate(nc, npre, npost):
    a = CLikeCompilerArgs(object(), [arg(PRE + POST) for _ in range(nc)])
    # reachable-state construction of the queues: pre holds prepend-kind args, post the others
    a.pre = collections.deque(arg(PRE) for _ in range(npre))
    a.post = [arg(POST) for _ in range(npost)]
    ov = False
    for x in list(a.pre) + a.post:
        if a._can_dedup(x) is Dedup.OVERRIDDEN: ov = True
    a.needs_override_check = ov
    return a

def clone(a):
    b = CLikeCompilerArgs(object(), list(a._container))
    b.pre = collections.deque(a.pre); b.post = list(a.post); b.needs_override_check = a.needs_override_check
    return b

def harness(nc, npre, npost, nb):
    def h():
        s = mkstate(nc, npre, npost)
        lazy = clone(s); eager = clone(s)
        list(eager)            # a read in between: flush
        batch = [arg(PRE + POST) for _ in range(nb)]
        lazy += list(batch); eager += list(batch)
        l1, l2 = list(lazy), list(eager)
        check(len(l1) == len(l2), 'len')
        if len(l1) == len(l2):
            for x, y in zip(l1, l2): check(x == y, 'elem')
        cover('done')
    return h

if __name__ == '__main__':
    for cfg in ((1, 1, 1, 1), (1, 1, 1, 2), (2, 1, 1, 1), (1, 2, 1, 1), (1, 1, 2, 1)):
        st = core.explore(harness(*cfg), max_paths=40000)
        print(cfg, 'paths', st['paths'], 'checks', st['checks'], 'viol', len(st['violations']), 'errors', len(st['errors']), st['labels'], 'time %.1f' % st['time'], st.get('truncated'), flush=True)
        for e in st['errors'][:3]: print('   ', e[:2])
        for v in st['violations'][:3]: print('   V', v[0], v[1], v[2])
