import typing as T
from mesonbuild.utils.universal import Version, Range

Comp = T.Union[int, str]

def mkv(v: T.Tuple[Comp, ...]) -> Version:
    x = Version('')
    x._v = v
    return x

def trichotomy(a: T.Tuple[Comp, ...], b: T.Tuple[Comp, ...]) -> bool:
    """
    pre: len(a) <= 3 and len(b) <= 3
    pre: all((c >= 0) if isinstance(c, int) else (len(c) > 0) for c in a)
    pre: all((c >= 0) if isinstance(c, int) else (len(c) > 0) for c in b)
    post: _
    """
    A, B = mkv(a), mkv(b)
    lt, eq, gt = A < B, A == B, A > B
    return (int(lt) + int(eq) + int(gt)) == 1 and (A <= B) == (lt or eq) and (A >= B) == (gt or eq) and (lt == (B > A))

def transitive(a: T.Tuple[Comp, ...], b: T.Tuple[Comp, ...], c: T.Tuple[Comp, ...]) -> bool:
    """
    pre: len(a) <= 3 and len(b) <= 3 and len(c) <= 3
    post: _
    """
    A, B, C = mkv(a), mkv(b), mkv(c)
    if A < B and B < C:
        return A < C
    if A <= B and B <= C:
        return A <= C
    return True
