"""what harnesses import"""
from .core import (branch, choose, assume, check, cover, observe, ctx, Unsupported, PathAbort)
from .values import (SymBool, SymInt, SymStr, SymEnum, sym_int, sym_bool, sym_str, sym_enum, sym_not, sym_and, sym_or,
                     sym_implies, sym_ite, is_sym, decide, chars_of, mkstr, mkbool, mkint, ceq, cin_range, c_in, c_isspace,
                     c_isdigit, c_isalpha, c_isalnum, c_isword, c_isupper, c_islower, zor, zand, znot, bt_any,
                     concretize_int, sym_int_of_str, sym_str_of_int)
from .driver_types import Obligation


def concrete():
    c = ctx()
    return c is None or c.concrete


def eq(a, b):
    """equality usable in check(): SymBool or bool; deep on lists/tuples"""
    if isinstance(a, (list, tuple)) and isinstance(b, (list, tuple)):
        if len(a) != len(b):
            return False
        return sym_and(*[eq(x, y) for x, y in zip(a, b)])
    r = (a == b)
    if r is NotImplemented:
        return False
    return r
