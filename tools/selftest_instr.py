#!/usr/bin/env python3
"""instrumentation self-test: the repository's pinned test modules must pass on the INSTRUMENTED modules
(the AST transformation has to be semantics-preserving on concrete values). Run with python3-vt."""
import sys, os, io, time, unittest
VERIF = os.path.dirname(os.path.dirname(os.path.abspath(__file__)))
sys.path.insert(0, VERIF); sys.path.insert(0, os.environ.get('SYMX_REPO', '/repo'))
from symx import instr
instr.install(prefixes=('mesonbuild.',), exact=('mesonbuild', 'shlex'))
os.chdir(os.environ.get('SYMX_REPO', '/repo'))
t0 = time.time()
suite = unittest.defaultTestLoader.loadTestsFromNames(['unittests.versiontests', 'unittests.cargotests', 'unittests.taptests', 'unittests.optiontests'])
r = unittest.TextTestRunner(verbosity=0, stream=io.StringIO()).run(suite)
print('instrumentation self-test: ran %d, failures %d, errors %d, %.1fs' % (r.testsRun, len(r.failures), len(r.errors), time.time() - t0))
for t, tb in (r.failures + r.errors)[:5]:
    print(t); print(tb[-1200:])
sys.exit(0 if r.wasSuccessful() and r.testsRun >= 100 else 1)
