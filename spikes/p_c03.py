import sys, time
sys.path.insert(0, __import__('os').path.dirname(__import__('os').path.abspath(__file__))); sys.path.insert(0, '/repo')
from sx import instr, core
from sx.values import *
from sx.core import choose, check, cover
instr.install(prefixes=('mesonbuild.', 'shlex'), exact=('mesonbuild', 'shlex'))
import shlex
from mesonbuild.backend import ninjabackend as nb
from mesonbuild.mesonlib import MesonException
import z3

class Out:
    def __init__(self): self.parts = []
    def write(self, s): self.parts.append(s)
    def text(self):
        out = ''
        for p in self.parts: out = out + p
        return out

# reference decoders -------------------------------------------------
def ninja_unescape(s):
    """value of a ninja variable binding (no variable references expected): $$ -> $, '$ ' -> ' ', $: -> :"""
    out = []; i = 0; cs = s if isinstance(s, str) else s
    n = len(cs)
    res = ''
    while i < n:
        ch = cs[i]
        if ch == '$':
            if i + 1 >= n: raise ValueError('dangling $')
            nx = cs[i + 1]
            if nx == '$' or nx == ' ' or nx == ':': res = res + nx; i += 2; continue
            raise ValueError('bad escape')
        res = res + ch; i += 1
    return res

SAFE = set('abcdefghijklmnopqrstuvwxyzABCDEFGHIJKLMNOPQRSTUVWXYZ0123456789@%+=:,./-_')
def sh_split(s):
    """POSIX sh word splitting for unquoted-safe words, '...' and "..." containing only a single quote"""
    words = []; cur = None; i = 0; n = len(s)
    while i < n:
        ch = s[i]
        if ch == ' ':
            if cur is not None: words.append(cur); cur = None
            i += 1
        elif ch == "'":
            j = i + 1
            if cur is None: cur = ''
            while True:
                if j >= n: raise ValueError('unterminated quote')
                if s[j] == "'": break
                cur = cur + s[j]; j += 1
            i = j + 1
        elif ch == '"':
            if cur is None: cur = ''
            j = i + 1
            while True:
                if j >= n: raise ValueError('unterminated dquote')
                if s[j] == '"': break
                if s[j] == '\\' or s[j] == '$' or s[j] == '`': raise ValueError('active char in dquote')
                cur = cur + s[j]; j += 1
            i = j + 1
        else:
            ok = (ch in SAFE) if isinstance(ch, str) else decide(zor([ceq(ch.c[0], ord(a)) for a in SAFE]))
            if not ok: raise ValueError('unquoted metachar')
            cur = (cur or '') + ch; i += 1
    if cur is not None: words.append(cur)
    return words

def harness(lens):
    def h():
        args = [sym_str(n, 'a%d' % i, 1, 126) for i, n in enumerate(lens)]
        el = nb.NinjaBuildElement(set(), 'out', 'CUSTOM', 'in')
        el.rule = None
        el.add_item('ARGS', list(args))
        o = Out()
        # avoid the lazy_property / rule lookup: phony-like path by stubbing
        el.__dict__['_should_use_rspfile'] = False
        try:
            el.write(o)
        except MesonException:
            cover('newline-rejected')
            has_nl = False
            for a in args:
                if '\n' in a: has_nl = True
            check(has_nl, 'exception only for newline')
            return
        text = o.text()
        # second line is " ARGS = ..."
        lines = text.split('\n')
        body = lines[1]
        check(body.startswith(' ARGS = '), 'prefix')
        val = body[len(' ARGS = '):]
        cmd = ninja_unescape(val)
        for a in args:
            if a == '&&':
                cover('andand'); return
        argv = sh_split(cmd)
        check(len(argv) == len(args), 'argc')
        if len(argv) == len(args):
            for x, y in zip(argv, args):
                check(x == y, 'argv')
        cover('roundtrip')
    return h

if __name__ == '__main__':
    for lens in ([1], [2], [3], [4], [1, 1], [2, 2]):
        st = core.explore(harness(lens), max_paths=20000)
        print(lens, 'paths', st['paths'], 'checks', st['checks'], 'viol', len(st['violations']), 'errors', len(st['errors']), 'labels', st['labels'], 'time %.1f' % st['time'], st.get('truncated'), flush=True)
        for e in st['errors'][:2]: print('   ', e[:2])
        for v in st['violations'][:3]: print('   V', v[0], v[1])
