from spike import *
import operator
def bad_le(self, other):
    if isinstance(other, Version):
        # mutation: <= decided on raw component tuples (python tuple order) instead of __cmp
        return self._Version__cmp(other, operator.le) if len(self._v) != 2 else self._Version__cmp(other, operator.lt)
    return NotImplemented
Version.__le__ = bad_le
for la in range(0, 4):
    for lb in range(0, 4):
        n, c, v, t = explore(mk_harness(la, lb))
        if v:
            m = v[0]
            a = ''.join(chr(m.eval(z3.Int('a_%d' % i), model_completion=True).as_long()) for i in range(la))
            b = ''.join(chr(m.eval(z3.Int('b_%d' % i), model_completion=True).as_long()) for i in range(lb))
            print('VIOL', la, lb, repr(a), repr(b), len(v)); break
