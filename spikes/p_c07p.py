import sys, time
sys.path.insert(0, __import__('os').path.dirname(__import__('os').path.abspath(__file__))); sys.path.insert(0, '/repo')
from sx import instr, core
from sx.values import *
from sx.core import choose, check, cover
instr.install()
from mesonbuild.options import *
from mesonbuild.mesonlib import MesonException
import z3

VALS = ['v1', 'v2', 'v3', 'v4', 'v5', 'v6', 'v7', 'v8']
def harness(top_has, yielding):
    def h():
        name = 'popt'; subp = 'subp'
        store = OptionStore(False)
        store.add_system_option('prefix', UserStringOption('prefix', 'p', '/usr'))
        if top_has:
            store.add_project_option(OptionKey(name, ''), UserComboOption(name, 'x', 'tdflt', choices=['tdflt', 'dflt'] + VALS))
        P = [bool(sym_bool('p%d' % i)) for i in range(8)]
        k = OptionKey(name); ks = OptionKey(name, subproject=subp)
        top_defaults = {}; sub_defaults = {}; machine = {}; cmd = {}; spcall = {}
        if P[0]: top_defaults[k] = VALS[0]
        if P[1]: sub_defaults[k] = VALS[1]
        if P[2]: machine[k] = VALS[2]
        if P[3]: cmd[k] = VALS[3]
        if P[4]: top_defaults[ks] = VALS[4]
        if P[5]: spcall[k] = VALS[5]
        if P[6]: machine[ks] = VALS[6]
        if P[7]: cmd[ks] = VALS[7]
        pres = ''.join('1' if p else '0' for p in P)
        try:
            store.initialize_from_top_level_project_call(top_defaults, cmd, machine)
        except MesonException as e:
            cover('top-rejects'); check(not top_has and (P[0] or P[2] or P[3]), 'top rejects only unknown option: %s' % pres); return
        store.add_project_option(ks, UserComboOption(name, 'x', 'dflt', yielding, choices=['tdflt', 'dflt'] + VALS))
        try:
            store.initialize_from_subproject_call(subp, spcall, sub_defaults, cmd, machine)
        except MesonException as e:
            check(False, 'subproject call rejects: %s %s' % (pres, e)); return
        # oracle: sources that address the subproject's option: 2,5,6,7,8 in that order
        exp = None
        for i in (1, 4, 5, 6, 7):
            if P[i]: exp = VALS[i]
        if exp is None:
            if yielding and top_has:
                exp = 'tdflt'
                for i in (0, 2, 3):
                    if P[i]: exp = VALS[i]
            else: exp = 'dflt'
        got = store.get_value_for(name, subp)
        check(got == exp, 'top_has=%s yielding=%s present=%s expected %s got %s' % (top_has, yielding, pres, exp, got))
        cover('done')
    return h
if __name__ == '__main__':
    for top_has in (False, True):
        for yielding in (False, True):
            st = core.explore(harness(top_has, yielding), max_paths=2000)
            print(top_has, yielding, 'paths', st['paths'], 'viol', len(st['violations']), 'errors', len(st['errors']), st['labels'], 'time %.1f' % st['time'])
            for e in st['errors'][:3]: print('   ', e[:2])
            for v in st['violations'][:6]: print('   V', v[0])
