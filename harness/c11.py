"""C11 - installation is confined to DESTDIR, exact and reversible (path re-rooting, permission arithmetic, selection; file operations outside)."""
import types
from symx.api import *

PROPERTY = 'C11'
LEVEL = 'other'
FILES = ['mesonbuild/minstall.py', 'mesonbuild/scripts/__init__.py', 'mesonbuild/utils/universal.py', 'mesonbuild/utils/platform.py']
ENCODED = ['Backend.generate_header_install / generate_man_install / generate_data_install / generate_subdir_install (install-entries)', 'minstall.get_destdir_path', 'scripts.destdir_join', 'Installer.should_install', 'minstall.sanitize_permissions', 'minstall.set_mode', 'FileMode.__init__/perms_s_to_bits',
           'Installer.install_data/install_headers/install_man/install_emptydir/install_symlinks (destination computation; every mutating primitive replaced by a recorder)',
           'Installer.set_mode/sanitize_permissions/makedirs dry-run wrappers', 'Installer.do_symlink (against a 4-state model of the link name)']
EXPLANATION = ('Symbolic execution of the destination and mode computation of the installer: DESTDIR, prefix, install directories and file names are symbolic strings over {/, ., a, b}, '
               'install_umask is a symbolic integer built from 9 symbolic bits (or "preserve"), the permission string has 9 symbolic characters, the executable bit of the source, '
               'tags / --tags / skipped subprojects and dry-run are symbolic. Every mutating primitive (copy, chmod, makedirs, symlink) is replaced by a recorder; checked: every '
               'recorded destination is DESTDIR/prefix/rel for a relative path and DESTDIR/abs for an absolute one (hence lexically under DESTDIR when no ".." component is '
               'present), the recorded mode is the declared bits or (0777 if executable else 0666) & ~umask, an entry is installed iff tag and subproject selection admit it, '
               'and nothing is recorded in dry-run mode.')
ASSUMPTIONS = ['PurePath (scripts.destdir_join) and posixpath.isabs are replaced by harness models of their documented semantics in the symbolic run; the native validation runs use the real '
               'pathlib / posixpath, so a model error shows up as a validation mismatch', 'os.stat (is_executable), chmod, chown, copy, makedirs, symlink are recorders / symbolic stubs',
               'no ".." component in install paths (meson does not forbid it in install_dir; with it containment does not hold lexically - stated as a precondition)',
               'POSIX host']
OUT = ('STATED PROMINENTLY: file-system effects, the install log, uninstall and re-installation beyond the plans of the install-world obligation (no build targets: stripping, rpath fixing; no install scripts), '
       'install_targets (needs real files). This check decides WHERE and WITH WHICH MODE meson asks the OS to write, and which entries are selected.')
MANIFEST = dict(
    text='Bounded symbolic decision of path re-rooting (all destdir/prefix/path strings within the bound), permission arithmetic (all umasks, all permission strings, both executable '
         'states) and selection (all tag / subproject combinations). Plus three small file-system worlds run through the real do_symlink / do_copyfile / do_copydir with --dry-run and the exclusion set symbolic. Whole installs (log, uninstall, dry run, twice) are decided for the plans of install-world on a scratch directory; build targets (strip, rpath) and install scripts are outside.',
    note='Partial claim. Trusted: symx engine, z3, the harness models of PurePath / isabs (validated natively on sampled paths). Bounds: path strings <=3 characters over {/, ., a, b}.')

MI = SC = FM = BK = ME = None


def setup():
    global MI, SC, FM, BK, ME
    from mesonbuild import minstall as mi
    from mesonbuild import scripts as sc
    from mesonbuild.mesonlib import FileMode, MesonException
    from mesonbuild.backend import backends as bk
    MI, SC, FM, BK, ME = mi, sc, FileMode, bk, MesonException
    if not concrete_mode():
        from symx import instr
        mi.path_has_root = instr._p_isabs          # posixpath.isabs: starts with '/'
        sc.PurePath = RefPurePath
        mi.destdir_join = sc.destdir_join


def concrete_mode():
    import sys
    return 'z3' not in sys.modules and 'symx.instr' not in sys.modules


class RefPurePath:
    """PurePosixPath: .parts and str() on (possibly symbolic) strings"""
    def __init__(self, *args):
        root = ''; comps = []
        for a in args:
            r, c = self._split(a)
            if r: root = r; comps = list(c)
            else: comps.extend(c)
        self.root = root; self.comps = comps

    @staticmethod
    def _split(s):
        if isinstance(s, RefPurePath): return s.root, s.comps
        n = 0
        while n < len(s) and decide(bt_any(s[n] == '/')): n += 1
        root = '//' if n == 2 else ('/' if n else '')
        comps = [c for c in s[n:].split('/') if len(c) and not (len(c) == 1 and decide(bt_any(c == '.')))]
        return root, comps

    @property
    def parts(self):
        return tuple(([self.root] if self.root else []) + self.comps)

    def __str__(self):
        out = self.root
        for i, c in enumerate(self.comps):
            out = out + ('/' if i else '') + c
        return out if len(out) else '.'


PA = '/.ab'


def has_dotdot(p):
    cs = p.split('/')
    return any(len(c) == 2 and decide(bt_any(c == '..')) for c in cs)


def norm_join(destdir, rest):
    """reference: destdir + '/' + components of rest (without empty and '.' components)"""
    comps = [c for c in rest.split('/') if len(c) and not (len(c) == 1 and decide(bt_any(c == '.')))]
    out = destdir
    for c in comps: out = out + '/' + c
    return out


def ob_rerooting(ld, lp):
    def h():
        destdir = '/D' + sym_str(ld, 'destdir_tail', alphabet='ab')
        prefix = '/' + sym_str(1, 'prefix', alphabet='ab')
        path = sym_str(lp, 'path', alphabet=PA)
        fullprefix = SC.destdir_join(destdir, prefix)
        check(eq(fullprefix, destdir + prefix), 'fullprefix = DESTDIR/prefix')
        out = MI.get_destdir_path(destdir, fullprefix, path)
        observe('out', out)
        if has_dotdot(path):
            cover('dotdot'); return        # outside the lexical containment claim (stated precondition)
        absolute = len(path) > 0 and decide(bt_any(path[0] == '/'))
        if absolute:
            exp = norm_join(destdir, path)
            check(len(out) == len(exp) and decide(bt_any(eq(out, exp))) if len(out) == len(exp) else False, 'an absolute install path is re-rooted under DESTDIR')
            cover('absolute')
        else:
            exp = fullprefix + '/' + path if True else None
            # os.path.join(fullprefix, path): plain concatenation with one separator
            check(len(out) == len(exp) and decide(bt_any(eq(out, exp))) if len(out) == len(exp) else False, 'a relative install path lands under DESTDIR/prefix')
            cover('relative')
        check(sym_or(out.startswith(destdir + '/'), len(out) == len(destdir) and decide(bt_any(eq(out, destdir)))), 'the destination is DESTDIR itself or lexically under it')
    return h


BITS = {'r': (0o400, 0o040, 0o004), 'w': (0o200, 0o020, 0o002)}


def ref_perm_bits(s):
    """stat.filemode inverse, written from the FileMode comment block; s: 9 characters"""
    v = 0
    def bit(c, ch, val): return sym_ite(c == ch, val, 0)
    for t in range(3):
        r, w, x = s[3 * t], s[3 * t + 1], s[3 * t + 2]
        v = v + bit(r, 'r', 0o400 >> (3 * t)) + bit(w, 'w', 0o200 >> (3 * t))
        xbit = 0o100 >> (3 * t)
        special = [0o4000, 0o2000, 0o1000][t]
        low, up = ('s', 'S') if t < 2 else ('t', 'T')
        v = v + sym_ite(sym_or(x == 'x', x == low), xbit, 0) + sym_ite(sym_or(x == low, x == up), special, 0)
    return v


def ob_modes():
    def h():
        rec = []
        MI.set_chmod = lambda path, mode, dir_fd=None, follow_symlinks=True: rec.append(('chmod', path, mode, follow_symlinks))       # defaults as the real functions
        MI.set_chown = lambda path, user=None, group=None, dir_fd=None, follow_symlinks=True: rec.append(('chown', path, user, group, follow_symlinks))
        isexec = sym_bool('source_is_executable')
        MI.is_executable = lambda path, follow_symlinks=False: (rec.append(('isexec', path, None, None, follow_symlinks)), isexec)[1]
        preserve = choose(2, 'umask_preserve') == 1
        ub = [sym_int('umask_bit%d' % i, 0, 1) for i in range(9)]
        umask = 'preserve' if preserve else sum((b * (1 << i) for i, b in enumerate(ub)), 0)
        kind = choose(3, 'mode_kind')       # 0: no mode, 1: perms string, 2: owner only
        if kind == 1:
            ps = ''
            for i in range(9):
                ps = ps + sym_str(1, 'perm%d' % i, alphabet='rwxsStT-')
            try:
                mode = FM(ps, None, None)
            except ME:
                # rejected permission strings: exactly those not matching the documented pattern
                ok = True
                for i in range(9):
                    allowed = ['r-', 'w-', 'xsS-', 'r-', 'w-', 'xsS-', 'r-', 'w-', 'xtT-'][i]
                    ok = sym_and(ok, mkbool(c_in(chars_of(ps[i])[0], allowed)))
                check(sym_not(ok), 'a well-formed permission string is accepted'); cover('perms-rejected'); return
            check(eq(mode.perms, ref_perm_bits(ps)), 'permission string -> mode bits')
        elif kind == 2:
            mode = FM(None, 'root', None)
        else:
            mode = None
        MI.set_mode('/D/x', mode, umask)
        chmods = [r for r in rec if r[0] == 'chmod']
        if kind == 1:
            check(len(chmods) == 1 and decide(bt_any(eq(chmods[0][2], mode.perms))), 'declared permission bits are applied exactly'); cover('declared')
        elif preserve:
            check(len(chmods) == 0, 'umask "preserve" leaves the mode alone'); cover('preserve')
        else:
            exp = 0
            base = sym_ite(isexec, 0o777, 0o666)
            for i in range(9):
                basebit = 1 if (0o666 >> i) & 1 else sym_ite(isexec, 1, 0)
                exp = exp + sym_ite(sym_and(basebit == 1, ub[i] == 0), 1 << i, 0)
            check(len(chmods) == 1, 'one chmod')
            if len(chmods) == 1: check(eq(chmods[0][2], exp), 'mode = (0777 if executable else 0666) & ~umask')
            cover('umask')
        if kind == 2:
            check(any(r[0] == 'chown' and r[2] == 'root' for r in rec), 'declared owner is applied'); cover('owner')
        check(all(r[-1] is False for r in rec), 'permissions are read from and applied to the installed item itself, never through a symlink to its target (which may lie outside DESTDIR)')
        check(all(r[1] == '/D/x' for r in rec), 'only the installed path is touched')
    return h


def ob_isexec():
    """the default permissions hinge on is_executable(): a file counts as executable iff ANY of its three x bits is set; then sanitize_permissions applies
    0777 resp. 0666 masked by the umask - both real functions, the source's mode bits symbolic"""
    def h():
        import os as _os
        bits = [sym_int('mode_bit%d' % i, 0, 1) for i in range(9)]
        mode = sum((b * (1 << i) for i, b in enumerate(bits)), 0)        # permission bits only (the engine's bit operations cover 12 bits; the file-type bits play no role in the mask)
        rec = []
        fos = types.SimpleNamespace(stat=lambda p, follow_symlinks=True: types.SimpleNamespace(st_mode=mode), path=_os.path)
        saved = (MI.os, MI.set_chmod)
        MI.os = fos
        MI.set_chmod = lambda path, m, dir_fd=None, follow_symlinks=True: rec.append(m)
        try:
            got = MI.is_executable('/D/x', follow_symlinks=False)
            MI.sanitize_permissions('/D/x', 0o022)
        finally:
            MI.os, MI.set_chmod = saved
        anyx = sym_or(bits[0] == 1, bits[3] == 1, bits[6] == 1)
        check(eq(mkbool(bt_any(got)) if not isinstance(got, bool) else got, anyx), 'executable iff any x bit (user, group or other) is set')
        check(len(rec) == 1 and decide(bt_any(eq(rec[0], sym_ite(anyx, 0o755, 0o644)))), 'default permissions: 0777 for an executable, else 0666, masked by the umask')
        cover('done')
    return h


def mk_installer(dry_run, tags, skip):
    ins = object.__new__(MI.Installer)
    ins.options = types.SimpleNamespace(quiet=True, only_changed=False)
    ins.dry_run = dry_run; ins.tags = tags; ins.skip_subprojects = skip
    ins.did_install_something = False; ins.printed_symlink_error = False; ins.preserved_file_count = 0
    ins.lf = types.SimpleNamespace(write=lambda s: None, flush=lambda: None)
    return ins


def ob_selection():
    def h():
        tags = [None, ['runtime'], ['runtime', 'devel']][choose(3, 'tags_option')]
        skip = [[], ['sub'], ['*']][choose(3, 'skip_subprojects')]
        tag = [None, 'runtime', 'devel', 'doc'][choose(4, 'entry_tag')]
        subp = ['', 'sub', 'other'][choose(3, 'entry_subproject')]
        dry = decide(sym_bool('dry_run'))
        ins = mk_installer(dry, tags, skip)
        rec = []
        ins.do_copyfile = lambda f, t, **k: (rec.append(('copy', f, t)), True)[1]
        MI.set_chmod = lambda path, mode, **k: rec.append(('chmod', path, mode))
        MI.is_executable = lambda path, follow_symlinks=False: False
        d = types.SimpleNamespace(data=[BK.InstallDataBase('/src/f', 'share/f', 'share/f', None, subp, tag)], install_umask=0o022)
        dm = types.SimpleNamespace(makedirs=lambda *a, **k: rec.append(('mkdir', a[0])))
        ins.install_data(d, dm, '/D', '/D/usr')
        admitted = not (subp and (subp in skip or '*' in skip)) and (tags is None or tag in tags)
        copies = [r for r in rec if r[0] == 'copy']
        check((len(copies) == 1) == admitted, 'an entry is installed iff tag and subproject selection admit it')
        if copies: check(copies[0][2] == '/D/usr/share/f', 'destination')
        if dry: check(not any(r[0] == 'chmod' for r in rec), 'nothing is changed in dry-run mode')
        cover('admitted' if admitted else 'skipped')
    return h


def ob_destinations(kind):
    """install_data / headers / man / emptydir / symlinks: where meson asks the OS to write"""
    def h():
        destdir = '/D'
        prefix = '/' + sym_str(1, 'prefix', alphabet='ab')
        fullprefix = SC.destdir_join(destdir, prefix)
        ipath = sym_str(choose(2, 'plen') + 1, 'install_path', alphabet='/ab')
        assume(sym_not(mkbool(bt_any(ipath.endswith('/'))))) if len(ipath) else None
        dry = decide(sym_bool('dry_run'))
        ins = mk_installer(dry, None, [])
        rec = []
        ins.do_copyfile = lambda f, t, makedirs=None, **k: (rec.append(('copy', f, t, makedirs[1] if makedirs else None)), True)[1]
        ins.do_symlink = lambda target, link, dd, full_dst_dir: (rec.append(('symlink', target, link)), True)[1]
        MI.set_chmod = lambda path, mode, **k: rec.append(('chmod', path, mode))
        MI.is_executable = lambda path, follow_symlinks=False: False
        MI.os = types.SimpleNamespace(path=types.SimpleNamespace(isfile=lambda p: False, dirname=osp('dirname'), basename=osp('basename'), join=osp('join')), stat=None)
        dm = types.SimpleNamespace(makedirs=lambda *a, **k: rec.append(('mkdir', a[0])))
        try:
            if kind == 'data':
                d = types.SimpleNamespace(data=[BK.InstallDataBase('/src/f.dat', ipath, ipath, None, '', None)], install_umask=0o022)
                ins.install_data(d, dm, destdir, fullprefix); dest = [r[2] for r in rec if r[0] == 'copy']
                expect = MI.get_destdir_path(destdir, fullprefix, ipath)
            elif kind == 'headers':
                d = types.SimpleNamespace(headers=[BK.InstallDataBase('/src/h.h', ipath, ipath, None, '', None)], install_umask=0o022)
                ins.install_headers(d, dm, destdir, fullprefix); dest = [r[2] for r in rec if r[0] == 'copy']
                expect = MI.get_destdir_path(destdir, fullprefix, ipath) + '/h.h'
            elif kind == 'man':
                d = types.SimpleNamespace(man=[BK.InstallDataBase('/src/m.1', ipath, ipath, None, '', None)], install_umask=0o022)
                ins.install_man(d, dm, destdir, fullprefix); dest = [r[2] for r in rec if r[0] == 'copy']
                expect = MI.get_destdir_path(destdir, fullprefix, ipath)
            elif kind == 'emptydir':
                d = types.SimpleNamespace(emptydir=[BK.InstallEmptyDir(ipath, None, '', None)], install_umask=0o022)
                ins.install_emptydir(d, dm, destdir, fullprefix); dest = [r[1] for r in rec if r[0] == 'mkdir']
                expect = MI.get_destdir_path(destdir, fullprefix, ipath)
            else:
                d = types.SimpleNamespace(symlinks=[BK.InstallSymlinkData('tgt', ipath + '/lnk', ipath, '', None)], install_umask=0o022)
                ins.install_symlinks(d, dm, destdir, fullprefix); dest = [r[2] for r in rec if r[0] == 'symlink']
                expect = MI.get_destdir_path(destdir, fullprefix, ipath + '/lnk')
        finally:
            import os as _os
            MI.os = _os
        check(len(dest) == 1, 'exactly one destination is written')
        if len(dest) == 1:
            check(len(dest[0]) == len(expect) and decide(bt_any(eq(dest[0], expect))) if len(dest[0]) == len(expect) else False, 'destination = DESTDIR-re-rooted install path (+ file name)')
            check(dest[0].startswith(destdir + '/'), 'the destination is lexically under DESTDIR')
        cover(kind)
    return h


def ob_symlink_world():
    """do_symlink against a small model of the file system: whatever is at the link name (nothing, a live symlink, a dangling symlink, a regular file),
    a successful call leaves the new link in place and logs it; only a non-symlink is refused"""
    def h():
        state = ['absent', 'live-symlink', 'dangling-symlink', 'regular-file'][choose(4, 'pre_existing_link')]
        target_abs = decide(sym_bool('target_is_absolute')); dry = decide(sym_bool('dry_run'))
        world = {'/D/usr/lib/lnk': state}
        log = []
        calls = []

        def exists(p): return world.get(p, 'absent') in ('live-symlink', 'regular-file', 'dir')       # follows symlinks
        def lexists(p): return world.get(p, 'absent') != 'absent'
        def islink(p): return world.get(p, 'absent') in ('live-symlink', 'dangling-symlink')
        def remove(p):
            if not lexists(p): raise FileNotFoundError(p)
            calls.append(('remove', p)); world[p] = 'absent'
        def symlink(t, l, target_is_directory=False):
            if lexists(l): raise FileExistsError(l)
            calls.append(('symlink', t, l)); world[l] = 'live-symlink'
        import os as _os
        MI.os = types.SimpleNamespace(path=types.SimpleNamespace(exists=exists, lexists=lexists, islink=islink, isdir=lambda p: False, join=_os.path.join, isabs=_os.path.isabs),
                                      remove=remove, symlink=symlink)
        saved_log = MI.append_to_log
        MI.append_to_log = lambda lf, line: log.append(line)
        try:
            ins = mk_installer(dry, None, [])
            try:
                ok = ins.do_symlink('/opt/t' if target_abs else 't', '/D/usr/lib/lnk', '/D', '/D/usr/lib')
            except ME:
                check(state == 'regular-file', 'only a pre-existing non-symlink is refused'); cover('refused'); return
        finally:
            MI.os = _os; MI.append_to_log = saved_log
        check(state != 'regular-file', 'a pre-existing regular file is never replaced by a link')
        check(ok is True, 'the link is (re)created whatever link was there before')
        if dry:
            check(not calls and world['/D/usr/lib/lnk'] == state, '--dry-run neither removes nor creates anything'); cover('dry-run')
        else:
            check(world['/D/usr/lib/lnk'] == 'live-symlink', 'the new link is in place')
        check('/D/usr/lib/lnk' in log, 'the created link is recorded in the install log (so uninstall removes it)')
        cover(state)
    return h


def ob_copyfile_world():
    """do_copyfile (+ the DirMaker and set_mode that install_data runs around it) against a small model of the file system, with --dry-run symbolic:
    a dry run issues no mutating call at all; a real run removes a pre-existing file, creates the directory if needed, copies to exactly the destination
    and logs it; a destination that is not a file is refused"""
    def h():
        dst_state = ['absent', 'file', 'dir'][choose(3, 'destination')]
        src_state = ['file', 'live-symlink', 'dangling-symlink', 'absent'][choose(4, 'source')]
        dir_exists = decide(sym_bool('destination_dir_exists')) or dst_state != 'absent'
        dry = decide(sym_bool('dry_run'))
        only_changed = False
        world = {'/D/p/f': dst_state, '/src/f': src_state}
        calls = []; log = []
        import os as _os, shutil as _sh

        def kind(p): return world.get(p, 'absent')
        def exists(p):
            if p == '/D/p': return dir_exists
            return kind(p) in ('file', 'dir', 'live-symlink')
        def mut(name):
            def f(*a, **k): calls.append((name,) + tuple(a))
            return f
        fos = types.SimpleNamespace(path=types.SimpleNamespace(exists=exists, isfile=lambda p: kind(p) in ('file', 'live-symlink'), islink=lambda p: kind(p) in ('live-symlink', 'dangling-symlink'),
                                                                split=_os.path.split, dirname=_os.path.dirname, normpath=_os.path.normpath, join=_os.path.join, lexists=lambda p: kind(p) != 'absent'),
                                    remove=mut('remove'), makedirs=mut('makedirs'), symlink=mut('symlink'), chmod=mut('chmod'), chown=mut('chown'), stat=_os.stat, umask=_os.umask)
        fsh = types.SimpleNamespace(copy=mut('copy'), copy2=mut('copy2'), copyfile=mut('copyfile'), copystat=mut('copystat'), chown=mut('chown'))
        saved = (MI.os, MI.shutil, MI.append_to_log, MI.set_chmod, MI.is_executable)
        MI.os, MI.shutil = fos, fsh
        MI.append_to_log = lambda lf, line: log.append(line)
        MI.set_chmod = lambda path, mode, **k: calls.append(('chmod', path, mode))
        MI.is_executable = lambda path, follow_symlinks=False: False
        try:
            ins = mk_installer(dry, None, [])
            ins.options.only_changed = only_changed
            dm = MI.DirMaker(None, ins.makedirs)
            try:
                ok = ins.do_copyfile('/src/f', '/D/p/f', makedirs=(dm, '/D/p'), follow_symlinks=False)
                ins.set_mode('/D/p/f', None, 0o022)
            except ME:
                check(dst_state == 'dir' or src_state == 'absent', 'refused only when the source is not a file or the destination exists and is not a file')
                check(not calls, 'a refused copy has not touched anything'); cover('refused'); return
        finally:
            MI.os, MI.shutil, MI.append_to_log, MI.set_chmod, MI.is_executable = saved
        check(dst_state != 'dir' and src_state != 'absent', 'a directory at the destination / a missing source is refused')
        if dry:
            check(not calls, '--dry-run issues no mutating call (remove, makedirs, copy, chmod)'); cover('dry-run')
        else:
            names = [c[0] for c in calls]
            check(('remove' in names) == (dst_state == 'file'), 'a pre-existing file is removed first, nothing else is')
            check(('makedirs' in names) == (dst_state == 'absent'), 'the destination directory is created through the DirMaker when the file is new')
            cp = [c for c in calls if c[0] in ('copy', 'copy2')]
            check(len(cp) == 1 and cp[0][1] == '/src/f' and cp[0][2] in ('/D/p/f', '/D/p'), 'exactly one copy, to the destination')
            check(all(c[1] in ('/D/p/f', '/D/p') or c[0] in ('copy', 'copy2') for c in calls), 'nothing but the destination (and its directory) is touched')
            cover('installed')
        check(ok is True and '/D/p/f' in log, 'the installed file is recorded in the install log (dry run included: it lists what would be installed)')
    return h


def ob_copydir_world():
    """install_subdir(): the real do_copydir over a small source tree - three sibling directories a, b, c, a NESTED a/b with the same name as its uncle, each
    with or without a file, plus a top-level file - with a SYMBOLIC exclusion set of paths relative to the installed directory (a, b, c, a/b; top.txt,
    a/in.txt): a directory is created (through the DirMaker, permissions sanitised) iff neither it nor an ancestor is excluded BY ITS RELATIVE PATH, nothing
    below an excluded directory is visited, every non-excluded file is copied to the mirrored place, nothing else is touched"""
    def h():
        import os as _os
        DIRS = ['a', 'b', 'c', 'a/b']                      # relative paths; parents before children
        excl_d = {d: decide(sym_bool('exclude_dir_' + d)) for d in DIRS}
        has_file = {d: decide(sym_bool('file_in_' + d)) for d in DIRS}
        excl_top = decide(sym_bool('exclude_top_file'))
        excl_inner = decide(sym_bool('exclude_file_in_a'))
        calls = []
        created = set()

        def walk(top):
            def rec(rel):
                dirs = [d.rsplit('/', 1)[-1] for d in DIRS if (d.rsplit('/', 1)[0] if '/' in d else '') == rel]
                files = ['top.txt'] if rel == '' else (['in.txt'] if has_file[rel] else [])
                here = top if rel == '' else _os.path.join(top, rel)
                yield here, dirs, files
                for d in list(dirs):                      # os.walk is top-down: it honours in-place edits of dirs
                    yield from rec(d if rel == '' else rel + '/' + d)
            yield from rec('')
        fos = types.SimpleNamespace(walk=walk, path=types.SimpleNamespace(isabs=_os.path.isabs, join=_os.path.join, relpath=_os.path.relpath, normpath=_os.path.normpath, dirname=_os.path.dirname,
                                                                            islink=lambda p: False, isdir=lambda p: p in created or p == '/D/dst', exists=lambda p: p in created or p == '/D/dst'))
        saved = MI.os
        MI.os = fos
        try:
            ins = mk_installer(False, None, [])
            ins.copystat = lambda a, b: calls.append(('copystat', a, b))
            ins.sanitize_permissions = lambda p, u: calls.append(('sanitize', p))
            ins.do_copyfile = lambda f, t, **k: (calls.append(('copy', f, t)), True)[1]
            ins.set_mode = lambda p, m, u: calls.append(('mode', p))
            dm = types.SimpleNamespace(makedirs=lambda p, **k: (calls.append(('mkdir', p)), created.add(p))[0])
            excl = ({'top.txt'} if excl_top else set()) | ({'a/in.txt'} if excl_inner else set()), {d for d in DIRS if excl_d[d]}
            ins.do_copydir(types.SimpleNamespace(install_umask=0o022), '/s', '/D/dst', excl, None, dm)
        finally:
            MI.os = saved
        mk = [c[1] for c in calls if c[0] == 'mkdir']; cp = [(c[1], c[2]) for c in calls if c[0] == 'copy']; sn = [c[1] for c in calls if c[0] == 'sanitize']
        for d in DIRS:
            gone = excl_d[d] or ('/' in d and excl_d[d.rsplit('/', 1)[0]])          # excluded itself, or below an excluded directory
            dst = '/D/dst/' + d
            check((dst in mk) == (not gone), 'a directory is created iff neither it nor its parent is excluded - by relative path, not by bare name (empty ones too)')
            check((dst in sn) == (not gone), 'every created directory gets its permissions sanitised (install_umask)')
            inner_excluded = (d == 'a' and excl_inner)
            check((('/s/%s/in.txt' % d, dst + '/in.txt') in cp) == (has_file[d] and not gone and not inner_excluded), 'a file is copied iff neither it nor a directory above it is excluded')
        check((('/s/top.txt', '/D/dst/top.txt') in cp) == (not excl_top), 'top-level file')
        check(len(mk) == len(set(mk)) and len(cp) == len(set(cp)), 'nothing is created or copied twice')
        check(all(p.startswith('/D/dst/') for p in mk + [t for _, t in cp] + sn), 'only the destination tree is touched')
        cover('done')
    return h


def osp(name):
    """os.path functions usable on symbolic strings in the symbolic run, the real ones natively"""
    import os
    if concrete_mode(): return getattr(os.path, name)
    from symx import instr
    real = getattr(os.path, name)
    def f(*a):
        if any(is_sym(x) for x in a): return instr._PATH_SHIMS[name](*a)
        return real(*a)
    return f


def _tree(top):
    """every file / symlink / directory below top, relative"""
    import os
    out = set()
    for root, dirs, files in os.walk(top):
        for n in dirs + files:
            p = os.path.join(root, n)
            out.add((os.path.relpath(p, top), 'link' if os.path.islink(p) else ('dir' if os.path.isdir(p) else 'file')))
    return out


def ob_install_world():
    """a whole `meson install` on a scratch directory (the real Installer.do_install, DirMaker, log, then the real uninstall script): a plan of up to six
    entries (data file to a relative and to an ABSOLUTE destination, header, empty directory, symlink, subdirectory) each present or not with a tag, --tags,
    --dry-run, DESTDIR with a space. Everything created lies beneath DESTDIR; exactly the selected entries exist; the log names exactly what was created and
    uninstall removes exactly that; a dry run creates nothing; installing twice gives the same tree as once"""
    def h():
        import os, tempfile, shutil, pickle, argparse, io, contextlib
        from mesonbuild import coredata
        from mesonbuild.scripts import uninstall
        top = tempfile.mkdtemp(prefix='c11w')
        old_umask = os.umask(0o022)
        try:
            src, bld, dest = os.path.join(top, 'src'), os.path.join(top, 'bld'), os.path.join(top, 'dest dir')
            os.makedirs(os.path.join(src, 'tree', 'inner')); os.makedirs(os.path.join(bld, 'meson-logs')); os.makedirs(dest)
            for rel in ('d.txt', 'abs.txt', 'h.h', 'tree/a.txt', 'tree/inner/b.txt'):
                with open(os.path.join(src, rel), 'w') as f: f.write(rel)
            prefix = '/usr'
            absdir = os.path.join(top, 'outside', 'abs')            # an absolute destination: it must be re-rooted under DESTDIR
            d = BK.InstallData(src, bld, prefix, 'lib', ['strip'], 0o022, ['meson', 'introspect'], coredata.version)
            tags = ['runtime', 'devel']
            want = {}            # relative path under DESTDIR -> kind, for the entries selected
            present = []
            def ent(name): 
                p = choose(2, name + ' declared') == 1
                t = tags[choose(2, name + ' tag')] if p else None
                return p, t
            sel_tags = [None, ['runtime'], ['devel']][choose(3, '--tags')]
            selected = lambda t: sel_tags is None or t in sel_tags
            p, t = ent('data')
            if p:
                d.data.append(BK.InstallDataBase(os.path.join(src, 'd.txt'), 'share/d.txt', '{datadir}/d.txt', FM(), '', tag=t))
                if selected(t): want['usr/share/d.txt'] = 'file'
            p, t = ent('absolute data')
            if p:
                d.data.append(BK.InstallDataBase(os.path.join(src, 'abs.txt'), os.path.join(absdir, 'abs.txt'), os.path.join(absdir, 'abs.txt'), FM(), '', tag=t))
                if selected(t): want[os.path.relpath(os.path.join(absdir, 'abs.txt'), '/')] = 'file'
            p, t = ent('header')
            if p:
                d.headers.append(BK.InstallDataBase(os.path.join(src, 'h.h'), 'include/x', '{includedir}/x', FM(), '', tag=t))
                if selected(t): want['usr/include/x/h.h'] = 'file'
            p, t = ent('emptydir')
            if p:
                d.emptydir.append(BK.InstallEmptyDir('var/empty', FM(), '', tag=t))
                if selected(t): want['usr/var/empty'] = 'dir'
            p, t = ent('symlink')
            if p:
                d.symlinks.append(BK.InstallSymlinkData('d.txt', 'share/lnk', 'share', '', tag=t))      # as generate_symlink_install builds it: name = install_dir/name
                if selected(t): want['usr/share/lnk'] = 'link'
            p, t = ent('absolute symlink')
            if p:
                d.symlinks.append(BK.InstallSymlinkData('d.txt', os.path.join(absdir, 'abslnk'), absdir, '', tag=t))      # install_symlink(install_dir : '<absolute>'): re-rooted under DESTDIR like every absolute destination
                if selected(t): want[os.path.relpath(os.path.join(absdir, 'abslnk'), '/')] = 'link'
            p, t = ent('subdir')
            if p:
                d.install_subdirs.append(BK.SubdirInstallData(os.path.join(src, 'tree'), os.path.join(prefix, 'share/tree'), '{datadir}/tree', FM(), (set(), set()), '', tag=t))
                if selected(t):
                    want.update({'usr/share/tree': 'dir', 'usr/share/tree/a.txt': 'file', 'usr/share/tree/inner': 'dir', 'usr/share/tree/inner/b.txt': 'file'})
            datafile = os.path.join(bld, 'install.dat')
            with open(datafile, 'wb') as f: pickle.dump(d, f)
            dry = choose(2, '--dry-run') == 1
            twice = (not dry) and choose(2, 'install twice') == 1
            logname = os.path.join(bld, 'meson-logs', 'install-log.txt')
            before_outside = _tree(top)

            def install(dry_run):
                opts = argparse.Namespace(dry_run=dry_run, skip_subprojects='', tags=','.join(sel_tags) if sel_tags else None, destdir=dest, quiet=True, only_changed=False,
                                          strip=False, wd=bld, profile=False, no_rebuild=True)
                with open(logname, 'w', encoding='utf-8') as lf:
                    MI.Installer(opts, lf).do_install(datafile)
            install(dry)
            got = _tree(dest)
            if dry:
                check(got == set(), '--dry-run creates nothing under DESTDIR')
                check(_tree(top) - {('bld/meson-logs/install-log.txt', 'file'), ('bld/install.dat', 'file')} == before_outside - {('bld/meson-logs/install-log.txt', 'file'), ('bld/install.dat', 'file')}, '--dry-run writes nothing anywhere else')
                cover('dry-run'); return
            leaves = {(p_, k) for p_, k in got if (p_, k) in set(want.items())}
            check({p_ for p_, k in got if k != 'dir'} == {p_ for p_, k in want.items() if k != 'dir'}, 'exactly the files and symlinks of the selected install rules exist, at the specified destinations (absolute ones re-rooted under DESTDIR)')
            check(all((p_, k) in got for p_, k in want.items()), 'every declared directory exists')
            outside = _tree(top) - {(os.path.join('dest dir', p_) if p_ else 'dest dir', k) for p_, k in got}
            check(outside - {('bld/meson-logs/install-log.txt', 'file'), ('bld/install.dat', 'file')} == before_outside - {('bld/meson-logs/install-log.txt', 'file'), ('bld/install.dat', 'file')}, 'nothing is written outside DESTDIR (apart from the log)')
            if twice:
                install(False)
                check(_tree(dest) == got, 'installing twice gives the same tree as installing once')
                cover('twice')
            if not twice:
                logged = [l.strip() for l in open(logname) if not l.startswith('#')]
                check(len(logged) == len(set(logged)), 'nothing is logged twice')
                check({os.path.relpath(l, dest) for l in logged} == {p_ for p_, k in got}, 'the install log names exactly what was created')
                with contextlib.redirect_stdout(io.StringIO()):
                    uninstall.do_uninstall(logname)
                check(_tree(dest) == set(), 'uninstall removes exactly what the install created')
            cover('installed' if want else 'nothing-selected')
        finally:
            os.umask(old_umask)
            shutil.rmtree(top, ignore_errors=True)
    return h


def ob_install_targets_world():
    """installed TARGETS on a scratch directory (the real Installer.do_install -> install_targets -> do_copyfile / do_copydir / set_mode): up to three targets in
    sequence, each a file (executable or not), a DIRECTORY output, an optional output that does not exist, or nothing; one install_mode (none / rw-r--r-- /
    rwxr-x---) and a symbolic-by-enumeration umask. Each target's outcome is its own business: what a plan creates - paths, kinds AND permission bits - is
    the union of what each of its targets creates when installed alone (no state carried from one target to the next), everything lies beneath DESTDIR,
    the log names it all and uninstall removes it"""
    def h():
        import os, tempfile, shutil, pickle, argparse, io, contextlib, stat
        from mesonbuild import coredata
        from mesonbuild.scripts import uninstall
        top = tempfile.mkdtemp(prefix='c11t')
        old_umask = os.umask(0o022)
        try:
            src, bld = os.path.join(top, 'src'), os.path.join(top, 'bld')
            os.makedirs(os.path.join(bld, 'meson-logs')); os.makedirs(os.path.join(bld, 'html', 'img')); os.makedirs(src)
            for rel, mode in (('prog', 0o755), ('notes.txt', 0o644), ('html/index.html', 0o644), ('html/img/a.png', 0o600)):
                with open(os.path.join(bld, rel), 'w') as f: f.write(rel)
                os.chmod(os.path.join(bld, rel), mode)
            KINDS = [None, ('prog', 'bin', False), ('notes.txt', 'share/doc', False), ('html', 'share/doc', False), ('missing.lib', 'lib', True)]
            plan = [KINDS[choose(len(KINDS), 'target %d' % i)] for i in range(3)]
            plan = [p_ for p_ in plan if p_ is not None]
            assume(len({p_[0] for p_ in plan}) == len(plan))        # a file is installed by one target
            modestr = [None, 'rw-r--r--', 'rwxr-x---'][choose(3, 'install_mode')]
            umask = [0o022, 0o077, 0o002][choose(3, 'install_umask')]
            fm = FM(modestr, None, None) if modestr else FM()

            def run(targets, tag):
                dest = os.path.join(top, 'dest-' + tag); os.makedirs(dest)
                d = BK.InstallData(src, bld, '/usr', 'lib', ['strip'], umask, ['meson', 'introspect'], coredata.version)
                for name, outdir, optional in targets:
                    d.targets.append(BK.TargetInstallData(os.path.join(bld, name), outdir, None, False, {}, set(), '', fm, '', 'linux', optional=optional, tag='runtime'))
                datafile = os.path.join(bld, 'install-%s.dat' % tag)
                with open(datafile, 'wb') as f: pickle.dump(d, f)
                logname = os.path.join(bld, 'meson-logs', 'install-log-%s.txt' % tag)
                opts = argparse.Namespace(dry_run=False, skip_subprojects='', tags=None, destdir=dest, quiet=True, only_changed=False, strip=False, wd=bld, profile=False, no_rebuild=True)
                with open(logname, 'w', encoding='utf-8') as lf:
                    MI.Installer(opts, lf).do_install(datafile)
                got = set()
                for p_, k in _tree(dest):
                    got.add((p_, k, stat.S_IMODE(os.lstat(os.path.join(dest, p_)).st_mode)))
                return dest, logname, got
            dest, logname, joint = run(plan, 'joint')
            alone = set()
            for n, t in enumerate(plan):
                alone |= run([t], 'alone%d' % n)[2]
            leaf = lambda s_: {x for x in s_ if x[1] != 'dir' or x[0].startswith('usr/share/doc/html')}      # shared parent directories (usr, usr/share ...) are created once by whoever comes first
            check({x[:2] for x in joint} == {x[:2] for x in alone}, 'a plan creates exactly what its targets create one by one')
            check(leaf(joint) == leaf(alone), 'every installed file and directory has the permissions it gets when its target is installed alone')
            for p_, k, m in joint:
                if k == 'dir': check(m & 0o500 == 0o500, 'an installed directory can be entered by its owner')
            logged = [l.strip() for l in open(logname) if not l.startswith('#')]
            check({os.path.relpath(l, dest) for l in logged} == {x[0] for x in joint}, 'the install log names exactly what was created')
            with contextlib.redirect_stdout(io.StringIO()):
                uninstall.do_uninstall(logname)
            check(_tree(dest) == set(), 'uninstall removes exactly what the install created')
            cover('installed' if joint else 'nothing')
            if any(t[0] == 'html' for t in plan) and len(plan) > 1: cover('directory-among-others')
        finally:
            os.umask(old_umask)
            shutil.rmtree(top, ignore_errors=True)
    return h


def obligations(tier):
    q = tier == 'quick'
    out = []
    for ld, lp in ((1, 1), (1, 2), (1, 3)) if q else ((1, 1), (1, 2), (1, 3), (2, 3), (1, 4)):
        out.append(Obligation('re-rooting[%d,%d]' % (ld, lp), ob_rerooting(ld, lp), dict(destdir='/D + %d chars' % ld, prefix='/x', path='%d chars over %s' % (lp, PA)),
                              labels=('relative',) + (('absolute',) if lp > 1 else ()), max_paths=3000000))
    out.append(Obligation('modes', ob_modes(), dict(umask='9 symbolic bits or preserve', perms='9 symbolic characters over rwxsStT-', executable='symbolic'),
                          labels=('declared', 'umask', 'preserve', 'owner', 'perms-rejected'), max_paths=5000000))
    out.append(Obligation('is-executable', ob_isexec(), dict(mode='9 symbolic permission bits', umask='022'), labels=('done',)))
    out.append(Obligation('selection', ob_selection(), dict(tags='none | runtime | runtime,devel', skip_subprojects='none | sub | *', entry='4 tags x 3 subprojects', dry_run='symbolic'),
                          labels=('admitted', 'skipped')))
    import harness.c15 as _c15; _c15.setup()
    from harness.c15 import ob_install_generators          # the step BEFORE the installer: what install_subdir() / install_data() / ... put into install.dat (decided for C15 as well)
    out.append(Obligation('install-entries', ob_install_generators(), dict(real='Backend.generate_header_install / generate_man_install / generate_data_install / generate_subdir_install, TargetInstallData', kinds='headers | man | data | install_subdir | build target', directories='1-3 chars over ab/ (trailing slash, absolute, nested)', strip_directory='both'), labels=('headers', 'man', 'data', 'install_subdirs', 'targets', 'subdir-named'), max_paths=3000000))
    out.append(Obligation('install-targets-world', ob_install_targets_world(), dict(real='Installer.do_install -> install_targets -> do_copyfile / do_copydir / set_mode / DirMaker / log, scripts.uninstall on a scratch directory',
                          targets='up to 3 in sequence: executable file | plain file | DIRECTORY output | optional missing output | none', install_mode='none | rw-r--r-- | rwxr-x---', install_umask='022 | 077 | 002'),
                          labels=('installed', 'directory-among-others'), optional_labels=('nothing',), max_paths=2000000))
    out.append(Obligation('install-world', ob_install_world(), dict(real='Installer.do_install, DirMaker, append_to_log, scripts.uninstall.do_uninstall on a scratch directory', entries='data (relative), data (absolute), header, emptydir, symlink (relative and ABSOLUTE install_dir), subdir: each declared or not, tag runtime | devel', tags='none | runtime | devel', dry_run='both', twice='both', destdir='with a space'), labels=('installed', 'dry-run', 'twice'), optional_labels=('nothing-selected',), max_paths=2000000))
    out.append(Obligation('copydir-world', ob_copydir_world(), dict(tree='directories a, b, c and a nested a/b (each empty or with one file) + a top-level file', exclude_directories='symbolic subset of the relative paths a, b, c, a/b', exclude_files='symbolic subset'), labels=('done',)))
    out.append(Obligation('copyfile-world', ob_copyfile_world(), dict(destination='absent | file | directory', source='file | live symlink | dangling symlink | absent', dry_run='symbolic', destination_dir='exists or not'),
                          labels=('installed', 'dry-run', 'refused')))
    out.append(Obligation('symlink-over-existing', ob_symlink_world(), dict(pre_existing='absent | live symlink | dangling symlink | regular file', model='exists follows links, lexists does not, symlink() fails on an existing name'),
                          labels=('absent', 'live-symlink', 'dangling-symlink', 'refused')))
    for k in ('data', 'headers', 'man', 'emptydir', 'symlinks'):
        out.append(Obligation('destinations/' + k, ob_destinations(k), dict(install_path='1-2 chars over /ab', prefix='/x', dry_run='symbolic'), labels=(k,), max_paths=3000000))
    return out
