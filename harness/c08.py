"""C08 - option state persists faithfully across the lifecycle (in-memory transition system; files outside)."""
import copy, argparse
from symx.api import *

PROPERTY = 'C08'
LEVEL = 'model_checking'
INSTRUMENT = dict(prefixes=('mesonbuild.',), exact=('mesonbuild', 'configparser'))
FILES = ['mesonbuild/options.py', 'mesonbuild/cmdline.py', 'mesonbuild/coredata.py', 'mesonbuild/msetup.py', 'mesonbuild/mconf.py']
ENCODED = ['mconf.run_impl (collaborators recorded)', 'cmdline.write_cmd_line_file / update_cmd_line_file / read_cmd_line_file + configparser (stdlib, instrumented)', 'OptionStore.set_from_configure_command (-D sets, -U drops the augment / re-yields)', 'OptionStore.update_project_options (new / removed / re-ranged / re-typed option)',
           'options.choices_are_different', 'OptionStore.set_user_option/set_option/remove/add_project_option', 'OptionStore.get_value_for', 'UserOption.validate_value/set_value',
           'copy.deepcopy of the store standing in for one save/load cycle']
EXPLANATION = ('The OptionStore is treated as a transition system: a history of lifecycle commands (configure -Dopt=v, -Dsub:opt=v, -Usub:opt, an option-file re-read that adds, removes, '
               're-ranges or re-types an option, a command with an invalid value) is enumerated by the executor while every value and every new range is symbolic; after each step '
               'every key is compared through get_value_for with a reference model ("the last value the user gave, else the default it was created with; a dropped override '
               'returns to the inherited value; re-ranged keeps the old value iff still valid; a failing command changes nothing"). Each command runs on a deep copy that replaces '
               'the persisted store only on success, which is how mconf/msetup save coredata.')
ASSUMPTIONS = ['copy.deepcopy stands in for the pickle round-trip of coredata.dat (pickle is a C module)', 'one top-level project option, one system option, one subproject',
               'integer values -9..9, ranges within -5..5', 'a yielding boolean option pair (parent / subproject) with symbolic defaults']
OUT = ('STATED PROMINENTLY: coredata.dat pickling, the --wipe run itself (only the cmd_line.txt round trip it relies on is decided), mconf.run_impl file handling beyond the order and conditions of its persistence calls (configure-command). '
       'This check decides the state-transition half of C08 and the recorded-command-line round trip (3 of the 5 anchored mechanisms); kill points of the persistence protocol are C09.')
MANIFEST = dict(
    text='Bounded model checking of the in-memory option state machine: all command histories up to the bound with symbolic values against a last-value/default reference model. '
         'Plus the cmd_line.txt round trip (write/update/read through the real configparser with symbolic values) that --wipe relies on. The --wipe run itself and rollback are outside.',
    note='Partial claim. Trusted: symx engine, z3, the reference model. Bounds: histories of <=2 (quick) / 3 (thorough) commands over 14 command kinds; a configure command is saved iff set_from_configure_command reports a change, as mconf.run_impl does.')

O = ME = None


def setup():
    global O, ME
    from mesonbuild import options as o
    from mesonbuild.mesonlib import MesonException
    from harness.common import quiet_mlog
    o.mlog = quiet_mlog()
    O, ME = o, MesonException
    import harness.c09 as c09        # the file-level obligation (rollback after a failed run) lives with the file-system model of C09
    c09.setup()


CH = ['c0', 'c1', 'c2', 'c3']


def ob_history(n):
    def h():
        K = O.OptionKey
        st = O.OptionStore(False)
        st.init_builtins()
        st.add_system_option('someopt', O.UserComboOption('someopt', 'x', 'c0', choices=list(CH)))
        pk = K('popt', subproject=''); ybk = K('yb', subproject='')
        lo, hi, d0 = -3, 3, 0
        st.add_project_option(pk, O.UserIntegerOption('popt', 'x', d0, min_value=lo, max_value=hi))
        ybp0 = decide(sym_bool('ybp0')); ybc0 = decide(sym_bool('ybc0'))
        st.add_project_option(K('yb', subproject=''), O.UserBooleanOption('yb', 'x', ybp0))       # a boolean project option of the parent ...
        st.initialize_from_top_level_project_call({}, {}, {})
        st.add_project_option(K('sopt', subproject='sub'), O.UserStringOption('sopt', 'x', 'sdefault'))
        st.add_project_option(K('yb', subproject='sub'), O.UserBooleanOption('yb', 'x', ybc0, yielding=True))      # ... and the same-named yielding option of the subproject
        st.initialize_from_subproject_call('sub', {}, {}, {}, {})
        # reference model
        ref = dict(someopt='c0', aug=None, popt=0, popt_kind='int', plo=lo, phi=hi, has_popt=True, newopt=None, ybp=ybp0, ybs=None)
        persisted = st
        for i in range(n):
            work = copy.deepcopy(persisted)       # load
            cmd = choose(14, 'cmd%d' % i)
            ok = True
            dirty = True       # option-file re-reads are always saved; configure commands save iff set_from_configure_command says something changed (mconf.run_impl)
            new = dict(ref)
            try:
                if cmd == 0:
                    v = sym_enum(CH + ['zz'], 'v%d' % i)
                    bad = decide(bt_any(v == 'zz'))
                    vv = v.concretize() if hasattr(v, 'concretize') else v
                    dirty = work.set_from_configure_command({K('someopt'): vv})
                    check(not bad, 'a value outside the choices is rejected'); new['someopt'] = vv
                elif cmd == 1:
                    v = CH[choose(4, 'v%d' % i)]
                    dirty = work.set_from_configure_command({K('someopt', subproject='sub'): v}); new['aug'] = v
                elif cmd == 2:
                    dirty = work.set_from_configure_command({K('someopt', subproject='sub'): None}); new['aug'] = None
                elif cmd == 3:
                    v = sym_int('iv%d' % i, -9, 9)
                    raw = sym_str_of_int(v, 1) if choose(2, 'asstr%d' % i) else v
                    if not ref['has_popt']:
                        work.set_from_configure_command({pk: raw})
                        check(False, 'setting a removed option is rejected')
                    else:
                        dirty = work.set_from_configure_command({pk: raw})
                        if ref['popt_kind'] == 'int':
                            check(sym_and(v >= ref['plo'], v <= ref['phi']), 'a value outside [min, max] is rejected'); new['popt'] = v
                        else:
                            check(False, 'an integer for a boolean option is rejected')
                elif cmd == 4:      # option file re-read: popt re-ranged (new default inside the new range)
                    lo2 = sym_int('lo%d' % i, -5, 5); hi2 = sym_int('hi%d' % i, -5, 5); d2 = sym_int('d%d' % i, -5, 5)
                    assume(sym_and(lo2 <= d2, d2 <= hi2))
                    work.update_project_options({pk: O.UserIntegerOption('popt', 'x', d2, min_value=lo2, max_value=hi2), ybk: work.get_value_object(ybk)}, '')
                    if ref['has_popt'] and ref['popt_kind'] == 'int':
                        same_range = sym_and(lo2 == ref['plo'], hi2 == ref['phi'])
                        keep = sym_or(same_range, sym_and(ref['popt'] >= lo2, ref['popt'] <= hi2))
                        new['popt'] = sym_ite(keep, ref['popt'], d2)
                        # an unchanged range keeps the old option object (and its range)
                        new['plo'] = lo2; new['phi'] = hi2
                    elif ref['has_popt']:
                        new['popt'] = d2 if False else None   # type change handled below
                    else:
                        new['popt'] = d2; new['plo'] = lo2; new['phi'] = hi2
                    if ref['has_popt'] and ref['popt_kind'] != 'int':
                        # re-typed bool -> int: the new default is taken
                        new['popt'] = d2; new['plo'] = lo2; new['phi'] = hi2
                    new['popt_kind'] = 'int'; new['has_popt'] = True; new['newopt'] = None     # the re-read file no longer has newopt
                elif cmd == 5:      # option file re-read: popt removed
                    work.update_project_options({ybk: work.get_value_object(ybk)}, '')
                    new['has_popt'] = False; new['newopt'] = None
                elif cmd == 6:      # option file re-read: popt re-typed to boolean
                    b = decide(sym_bool('b%d' % i))
                    work.update_project_options({pk: O.UserBooleanOption('popt', 'x', b), ybk: work.get_value_object(ybk)}, '')
                    if ref['has_popt'] and ref['popt_kind'] == 'bool': pass      # same type, no choices: value kept
                    else: new['popt'] = b
                    new['popt_kind'] = 'bool'; new['has_popt'] = True; new['newopt'] = None
                elif cmd == 7:      # option file re-read: a new option appears (popt kept as it is)
                    keep = {ybk: work.get_value_object(ybk)}
                    if ref['has_popt']:
                        keep[pk] = work.get_value_object(pk)
                    keep[K('newopt', subproject='')] = O.UserStringOption('newopt', 'x', 'fresh')
                    work.update_project_options(keep, '')
                    if ref['newopt'] is None: new['newopt'] = 'fresh'
                elif cmd == 11:     # the parent's boolean option
                    b = decide(sym_bool('yb%d' % i))
                    dirty = work.set_from_configure_command({K('yb', subproject=''): 'true' if b else 'false'}); new['ybp'] = b
                elif cmd == 12:     # the subproject's yielding option gets its own value
                    b = decide(sym_bool('yb%d' % i))
                    dirty = work.set_from_configure_command({K('yb', subproject='sub'): 'true' if b else 'false'}); new['ybs'] = b
                elif cmd == 13:     # ... and is dropped again: back to the parent's value
                    dirty = work.set_from_configure_command({K('yb', subproject='sub'): None}); new['ybs'] = None
                elif cmd == 10:     # a change followed, in the same command, by a -U that has nothing to drop
                    v = CH[choose(4, 'v%d' % i)]
                    dirty = work.set_from_configure_command({K('someopt'): v, K('sopt', subproject='sub'): None})
                    new['someopt'] = v
                elif cmd == 9:      # two assignments in one command: the first changes a value, the second restates the current one
                    v = CH[choose(4, 'v%d' % i)]
                    dirty = work.set_from_configure_command({K('someopt', subproject='sub'): v, K('someopt'): ref['someopt']})
                    new['aug'] = v
                else:               # two assignments in one command, the second invalid: nothing may change
                    work.set_from_configure_command({K('someopt'): 'c2', K('someopt', subproject='sub'): 'zz'})
                    check(False, 'an invalid value in a command is rejected')
            except ME:
                ok = False
            if ok:
                ref = new
                if dirty: persisted = work       # save
            cover('ok' if ok else 'failed')
            # ---- compare every key with the reference after the step
            check(eq(persisted.get_value_for('someopt'), ref['someopt']), 'top-level value = last value given, else default')
            check(eq(persisted.get_value_for('someopt', 'sub'), ref['aug'] if ref['aug'] is not None else ref['someopt']),
                  'subproject value = its override, else the inherited value')
            check(eq(persisted.get_value_for('yb', ''), ref['ybp']), 'parent boolean option = last value given, else default')
            check(eq(persisted.get_value_for('yb', 'sub'), ref['ybs'] if ref['ybs'] is not None else ref['ybp']),
                  'yielding subproject option = its own value once given, the parent\'s value otherwise and again after -U')
            if ref['has_popt']:
                got = persisted.get_value_for(pk)
                check(eq(got, ref['popt']), 'project option = last value given / kept across a re-range iff still valid / new default otherwise')
                if ref['popt_kind'] == 'int':
                    o = persisted.get_value_object(pk)
                    check(sym_and(got >= o.min_value, got <= o.max_value), 'stored value satisfies the current range')
            else:
                check(pk not in persisted.options, 'a removed option vanishes')
            if ref['newopt'] is not None:
                check(eq(persisted.get_value_for(K('newopt', subproject='')), ref['newopt']), 'a new option gets its default')
            else:
                check(K('newopt', subproject='') not in persisted.options, 'an option absent from the re-read option file vanishes')
        # ---- probe: what the persisted state does NEXT. A dropped override must really be gone (the subproject follows the parent again), a kept one must stay.
        probe = copy.deepcopy(persisted)
        other = 'c3' if ref['someopt'] != 'c3' else 'c1'
        probe.set_from_configure_command({K('someopt'): other})
        check(eq(probe.get_value_for('someopt', 'sub'), ref['aug'] if ref['aug'] is not None else other),
              'after the history, the subproject follows a new parent value iff it has no override of its own')
        probe.set_from_configure_command({K('yb', subproject=''): 'false' if ref['ybp'] else 'true'})
        check(eq(probe.get_value_for('yb', 'sub'), ref['ybs'] if ref['ybs'] is not None else (not ref['ybp'])),
              'after the history, the yielding option follows a new parent value iff it was not given its own')
    return h


# ---------------------------------------------------------------- cmd_line.txt (what --wipe re-derives the configuration from)
class _WF:
    def __init__(s, store, name): s.store, s.name, s.parts = store, name, []
    def write(s, x): s.parts.append(x)
    def __enter__(s): return s
    def __exit__(s, *a):
        t = ''
        for p in s.parts: t = t + p
        s.store[s.name] = t; return False


class _RF:
    def __init__(s, text): s.lines = text.splitlines(True)
    def __iter__(s): return iter(s.lines)
    def __enter__(s): return s
    def __exit__(s, *a): return False


def classify_cmdline(label, inputs):
    vals = [v for k, n, v in inputs if k == 'str']
    if label.startswith('cmd_line.txt') and any(v != v.strip() or '\n' in v or '\r' in v for v in vals):
        return 'cmd_line.txt does not preserve leading/trailing whitespace or line breaks of an option value'
    return label


def ob_cmdline_file(n):
    """write_cmd_line_file / update_cmd_line_file / read_cmd_line_file round trip (the real configparser, executed symbolically): what `--wipe` reads back is what the user gave"""
    def h():
        import argparse, types
        from mesonbuild import cmdline as CL
        import configparser as CP
        K = O.OptionKey
        store = {}
        def fopen(name, mode='r', **k):
            if 'w' in mode: return _WF(store, name)
            if name not in store: raise FileNotFoundError(name)
            return _RF(store[name])
        fos = types.SimpleNamespace(path=types.SimpleNamespace(join=lambda *a: '/'.join(a), isfile=lambda p: p in store), replace=lambda a, b: store.__setitem__(b, store.pop(a)))
        saved = (CL.__dict__.get('open'), CL.os, CP.__dict__.get('open'))
        CL.open = fopen; CL.os = fos; CP.open = fopen
        try:
            A = 'a =#\n[%:;\t'
            v1 = sym_str(n, 'value', alphabet=A)
            BUILD = __import__('mesonbuild.mesonlib', fromlist=['MachineChoice']).MachineChoice.BUILD
            keys = [K('opt'), K('o2', subproject='sub'), K('o3', machine=BUILD), K('o4', subproject='sub', machine=BUILD), K('o5', subproject='', machine=BUILD)]      # sub:build.o4, :build.o5
            o = argparse.Namespace(cmd_line_options={keys[0]: v1, keys[1]: 'x', keys[2]: 'y', keys[3]: 'z', keys[4]: 'w'}, cross_file=['c.ini'], native_file=[])
            CL.write_cmd_line_file('/b', o)
            exp = {keys[0]: v1, keys[1]: 'x', keys[2]: 'y', keys[3]: 'z', keys[4]: 'w'}
            upd = choose(3, 'update')
            if upd == 1:
                v2 = sym_str(n, 'value2', alphabet=A)
                CL.update_cmd_line_file('/b', argparse.Namespace(cmd_line_options={keys[1]: v2}, cross_file=[], native_file=[])); exp[keys[1]] = v2
            elif upd == 2:
                CL.update_cmd_line_file('/b', argparse.Namespace(cmd_line_options={keys[1]: None}, cross_file=[], native_file=[])); del exp[keys[1]]
            back = argparse.Namespace(cmd_line_options={}, cross_file=[], native_file=[])
            try:
                CL.read_cmd_line_file('/b', back)
            except Exception:
                check(False, 'cmd_line.txt: the file meson wrote can be read back'); return
            got = back.cmd_line_options
            check(len(got) == len(exp), 'cmd_line.txt: the same set of options is read back')
            for k, v in exp.items():
                g = got.get(k)
                check(g is not None and len(g) == len(v) and decide(bt_any(eq(g, v))), 'cmd_line.txt: option value read back unchanged')
            check(back.cross_file == ['c.ini'] and back.native_file == [], 'cmd_line.txt: machine files read back')
            cover('done')
        finally:
            CL.os = saved[1]
            if saved[0] is None: del CL.open
            else: CL.open = saved[0]
            if saved[2] is None: del CP.open
            else: CP.open = saved[2]
    return h


def ob_cmdline_machine_files():
    """the machine files in the recorded command line (what --wipe and the regeneration from cmd_line.txt use): cross and native files are recorded and read back
    INDEPENDENTLY - files of one kind given on the new command line replace the recorded files of that kind only"""
    def h():
        import argparse, types
        from mesonbuild import cmdline as CL
        import configparser as CP
        store = {}
        def fopen(name, mode='r', **k):
            if 'w' in mode: return _WF(store, name)
            if name not in store: raise FileNotFoundError(name)
            return _RF(store[name])
        fos = types.SimpleNamespace(path=types.SimpleNamespace(join=lambda *a: '/'.join(a), isfile=lambda p: p in store), replace=lambda a, b: store.__setitem__(b, store.pop(a)))
        saved = (CL.__dict__.get('open'), CL.os, CP.__dict__.get('open'))
        CL.open = fopen; CL.os = fos; CP.open = fopen
        try:
            nm = ['a', 'b c'][choose(2, 'name')]
            rec_cross = [[], ['c' + nm + '.ini'], ['c1.ini', 'c2.ini']][choose(3, 'recorded cross files')]
            rec_native = [[], ['n' + nm + '.ini']][choose(2, 'recorded native files')]
            CL.write_cmd_line_file('/b', argparse.Namespace(cmd_line_options={O.OptionKey('opt'): 'v'}, cross_file=list(rec_cross), native_file=list(rec_native)))
            new_cross = [[], ['x.ini']][choose(2, 'cross files on the new command line')]
            new_native = [[], ['y.ini']][choose(2, 'native files on the new command line')]
            back = argparse.Namespace(cmd_line_options={}, cross_file=list(new_cross), native_file=list(new_native))
            try:
                CL.read_cmd_line_file('/b', back)
            except Exception:
                check(False, 'cmd_line.txt: the file meson wrote can be read back'); return
            exp_c = new_cross or rec_cross; exp_n = new_native or rec_native
            check(len(back.cross_file) == len(exp_c) and all(decide(bt_any(eq(a, b))) for a, b in zip(back.cross_file, exp_c)), 'cross files: those given now, else the recorded ones')
            check(len(back.native_file) == len(exp_n) and all(decide(bt_any(eq(a, b))) for a, b in zip(back.native_file, exp_n)), 'native files: those given now, else the recorded ones')
            cover('done')
        finally:
            CL.os = saved[1]
            if saved[0] is None: del CL.open
            else: CL.open = saved[0]
            if saved[2] is None: del CP.open
            else: CP.open = saved[2]
    return h


def ob_configure_command():
    """the real mconf.run_impl with its collaborators recorded (Conf, mintro; cmdline.update_cmd_line_file): the protocol the history obligations rely on.
    A command with -D/-U is recorded in cmd_line.txt whatever set_from_configure_command answers (restating a value is still 'the last value the user gave',
    which --wipe must find); coredata is saved iff something changed or the cache was cleared; the record is written before the save"""
    def h():
        import types
        from mesonbuild import mconf
        has_flags = decide(sym_bool('command has -D/-U')); changed = decide(sym_bool('set_from_configure_command reports a change'))
        clear = decide(sym_bool('--clearcache'))
        log = []

        class FakeConf:
            def __init__(self, builddir):
                self.default_values_only = False
                self.build = types.SimpleNamespace(environment=types.SimpleNamespace(info_dir='/b/meson-info'))
                self.coredata = types.SimpleNamespace(set_from_configure_command=lambda opts: (log.append(('set', opts)), changed)[1])
            def clear_cache(self): log.append(('clear',))
            def save(self): log.append(('save',))
            def print_conf(self, pager): log.append(('print',))
        opts = argparse.Namespace(cmd_line_options={O.OptionKey('someopt'): 'c1'} if has_flags else {}, clearcache=clear, pager=False)
        saved = (mconf.Conf, mconf.mintro, mconf.cmdline)
        mconf.Conf = FakeConf
        mconf.mintro = types.SimpleNamespace(update_build_options=lambda *a: log.append(('intro-options',)), write_meson_info_file=lambda *a: log.append(('intro-info',)))
        mconf.cmdline = types.SimpleNamespace(update_cmd_line_file=lambda bd, o: log.append(('record', bd, o)))
        try:
            rc = mconf.run_impl(opts, '/b')
        finally:
            mconf.Conf, mconf.mintro, mconf.cmdline = saved
        kinds = [e[0] for e in log]
        check(rc == 0, 'exit status 0')
        if not has_flags and not clear:
            check(kinds == ['print'], 'without -D/-U/--clearcache the command only prints'); cover('print-only'); return
        check(kinds.count('record') == (1 if has_flags else 0), 'a command with -D/-U is recorded in cmd_line.txt exactly once - also when it restates the current value')
        if has_flags:
            rec = [e for e in log if e[0] == 'record'][0]
            check(rec[1] == '/b' and rec[2] is opts, 'the record gets the build directory and the options of this command')
            check(kinds.count('set') == 1 and kinds.index('set') < kinds.index('record'), 'options are applied (and validated) before the command line is recorded')
        check(kinds.count('save') == (1 if (clear or (has_flags and changed)) else 0), 'coredata is saved iff something changed or the cache was cleared')
        if 'save' in kinds and 'record' in kinds:
            check(kinds.index('record') < kinds.index('save'), 'cmd_line.txt is updated before coredata.dat is replaced (the order the kill obligations of C09 assume)')
        cover('configured')
    return h


def obligations(tier):
    q = tier == 'quick'
    out = []
    for n in (1, 2) if q else (1, 2, 3):
        out.append(Obligation('history[%d]' % n, ob_history(n), dict(commands=n, kinds='-Dopt, -Dsub:opt, -Usub:opt, -Dpopt, re-range, remove, re-type, add, failing command, two -D in one command, -D plus a no-op -U in one command, -Dyb (parent boolean), -Dsub:yb / -Usub:yb (yielding boolean)'),
                              labels=('ok', 'failed'), max_paths=20000000))
    for n in (0, 1, 2) if q else (0, 1, 2, 3):
        out.append(Obligation('cmdline-file[%d]' % n, ob_cmdline_file(n), dict(value_length=n, alphabet='a space = # newline [ % : ; tab', keys='opt, sub:o2, build.o3', then='nothing | update | delete'),
                              labels=('done',), max_paths=3000000, classify=classify_cmdline))
    out.append(Obligation('cmdline-machine-files', ob_cmdline_machine_files(), dict(real='cmdline.write_cmd_line_file / read_cmd_line_file (configparser, ast.literal_eval)', recorded='0-2 cross files, 0-1 native files (one name with a blank)', new_command_line='cross files given or not x native files given or not'), labels=('done',)))
    out.append(Obligation('configure-command', ob_configure_command(), dict(real='mconf.run_impl', recorded='Conf (load/save), mintro, cmdline.update_cmd_line_file', symbolic='-D/-U present, change reported, --clearcache'), labels=('configured', 'print-only')))
    import harness.c09 as c09
    out.append(Obligation('failed-reconfigure', c09.ob_failed_reconfigure(), dict(earlier_successful_saves='0..3', files='coredata.dat / .prev on the modelled file system of C09', rollback='except-branch of MesonApp._generate, mirrored'),
                          labels=('first-setup', 'rolled-back')))
    return out
