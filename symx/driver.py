"""symx driver: parallel exploration of a property's obligations, native replay, model validation,
known findings, evidence, exit codes."""
import os, sys, time, json, signal, hashlib, subprocess, importlib, traceback, random
import multiprocessing as mp
from collections import deque
from . import core
from . import terms as T
from .core import Unsupported

VERIF = os.path.dirname(os.path.dirname(os.path.abspath(__file__)))
REPO = os.environ.get('SYMX_REPO', '/repo')
VENV_PY = os.environ.get('SYMX_NATIVE_PY', '/venv/bin/python')
NPROC = int(os.environ.get('SYMX_NPROC', str(os.cpu_count() or 4)))
EXIT_HARNESS_ERROR = 3


from .driver_types import Obligation


from .modstate import snapshot_module_globals, restore_module_globals


class _Timeout(BaseException):
    pass


def _alarm(signum, frame):
    raise Unsupported('path watchdog expired')


# ------------------------------------------------------------------ worker
def _explore_chunk(obl, prefix, model, budget_paths, budget_s, sample_every):
    """DFS below (prefix, model) for at most budget paths; returns stats and leftover work"""
    stack = [(prefix, model)]
    st = dict(paths=0, ok=0, aborted=0, errors=[], labels={}, violations={}, nviol=0, samples=[],
              maxdepth=0, decisions=0, nontrivial=0)
    t0 = time.time()
    sol = core.solver()
    sol.sample_every = 997 if budget_paths > 50 else 53
    sol.samples = []
    n0 = (sol.nchecks, sol.nsat, sol.nunsat, sol.nunknown, sol.time)
    while stack:
        if st['paths'] >= budget_paths or time.time() - t0 > budget_s:
            break
        pfx, mdl = stack.pop()
        restore_module_globals()
        signal.setitimer(signal.ITIMER_REAL, obl.path_timeout)
        try:
            res = core.run_path(obl.fn, pfx, mdl)
        except Unsupported as e:       # watchdog fired outside run_path's try
            res = dict(status='unsupported', exc=repr(e), ctx=None)
        finally:
            signal.setitimer(signal.ITIMER_REAL, 0)
        c = res['ctx']
        st['paths'] += 1
        if c is None:
            st['errors'].append(('unsupported', res['exc'], None))
            continue
        stack.extend(c.pending)
        st['decisions'] += max(0, len(c.trail) - len(pfx))
        st['maxdepth'] = max(st['maxdepth'], len(c.trail))
        status = res['status']
        if status == 'aborted':
            st['aborted'] += 1
            continue
        if status in ('unsupported', 'divergence'):
            w = None
            try:
                core.CTX = c; T.BIND = c.bind; T.BOUNDS = c.bounds; T.DOM = c.dom
                w = core.concretize_inputs(c.inputs, c.need_model())
            except BaseException:
                pass
            finally:
                core.CTX = None; T.BIND = None; T.BOUNDS = None; T.DOM = None
            if len(st['errors']) < 5:
                st['errors'].append((status, res['exc'], w))
            else:
                st['errors'].append((status, res['exc'][:80], None))
            continue
        # violations found by check()
        for label, m in c.violations:
            _record_violation(obl, st, label, core.concretize_inputs(c.inputs, m), None)
        if status == 'exception':
            try:
                core.CTX = c; T.BIND = c.bind; T.BOUNDS = c.bounds; T.DOM = c.dom
                m = c.need_model()
            except BaseException as e:
                st['errors'].append(('unsupported', 'no model for exception path: %r' % (e,), None))
                continue
            finally:
                core.CTX = None; T.BIND = None; T.BOUNDS = None; T.DOM = None
            _record_violation(obl, st, 'exception:' + res['exc_type'], core.concretize_inputs(c.inputs, m),
                              res['exc'] + '\n' + res.get('tb', ''))
            continue
        st['ok'] += 1
        if getattr(c, 'nasserts', 0) > 0 and len(c.trail) > 0:
            st['nontrivial'] += 1         # reached a property assertion AND stands for a class of inputs (at least one solver-decided branch)
        for l in c.labels:
            st['labels'][l] = st['labels'].get(l, 0) + 1
        if sample_every and (st['ok'] % sample_every == 1 or sample_every == 1) and not c.violations:
            try:
                core.CTX = c; T.BIND = c.bind; T.BOUNDS = c.bounds; T.DOM = c.dom
                m = c.need_model()
                from .values import concrete_of
                st['samples'].append(dict(inputs=core.concretize_inputs(c.inputs, m), labels=sorted(c.labels),
                                          observations=[[n, core._jsonable(concrete_of(v, m))] for n, v in c.observations]))
            except BaseException as e:
                st['errors'].append(('unsupported', 'sampling: %r' % (e,), None))
            finally:
                core.CTX = None; T.BIND = None; T.BOUNDS = None; T.DOM = None
    st['solver'] = (sol.nchecks - n0[0], sol.nsat - n0[1], sol.nunsat - n0[2], sol.nunknown - n0[3], sol.time - n0[4])
    st['leftover'] = stack
    st['smt'] = sol.samples[:2]
    sol.samples = []
    st['wall'] = time.time() - t0
    if len(T._TABLE) > 400000:
        T.reset_table(); sol.reset()
    return st


def _record_violation(obl, st, label, inputs, detail):
    st['nviol'] += 1
    key = label
    if obl.classify is not None:
        try:
            key = obl.classify(label, inputs)
        except Exception as e:
            key = label + ' (classify failed: %r)' % (e,)
    ent = st['violations'].setdefault(key, dict(count=0, reps=[], label=label))
    ent['count'] += 1
    if len(ent['reps']) < 3:
        ent['reps'].append(dict(inputs=inputs, detail=detail))


def _worker(obls, tasks, results, seed):
    signal.signal(signal.SIGALRM, _alarm)
    signal.signal(signal.SIGINT, signal.SIG_IGN)
    sys.setrecursionlimit(20000)
    while True:
        task = tasks.get()
        if task is None:
            return
        oi, prefix, model, bp, bs, se = task
        try:
            st = _explore_chunk(obls[oi], prefix, model, bp, bs, se)
            results.put((oi, st))
        except BaseException as e:
            results.put((oi, dict(fatal='%r\n%s' % (e, traceback.format_exc()[-2000:]))))


def explore_all(obls, nproc=NPROC, deadline=None, log=None, sample_target=60):
    """explore all obligations on a pool of forked workers; returns list of per-obligation stats"""
    ctx = mp.get_context('fork')
    tasks = ctx.Queue()
    results = ctx.Queue()
    seed = int(os.environ.get('VERIF_SEED', '0') or 0)
    procs = [ctx.Process(target=_worker, args=(obls, tasks, results, seed), daemon=True) for _ in range(nproc)]
    for p in procs:
        p.start()
    agg = [dict(smt=[], paths=0, ok=0, aborted=0, errors=[], labels={}, violations={}, nviol=0, samples=[], maxdepth=0,
                decisions=0, solver=[0, 0, 0, 0, 0.0], cpu=0.0, truncated=False, fatal=None, t0=None, t1=None)
           for _ in obls]
    pending = deque((oi, [], None) for oi in range(len(obls)))
    inflight = 0
    idle = nproc
    t_start = time.time()
    last_log = t_start

    def budget(oi):
        p = agg[oi]['paths']
        return max(4, min(1500, p // (2 * nproc) + 4)), 20.0

    try:
        while pending or inflight:
            while pending and idle:
                oi, pfx, mdl = pending.popleft()
                a = agg[oi]
                if a['truncated'] or a['fatal']:
                    continue
                if a['t0'] is None:
                    a['t0'] = time.time()
                bp, bs = budget(oi)
                se = max(1, a['paths'] // sample_target) if a['paths'] > sample_target else 1
                tasks.put((oi, pfx, mdl, bp, bs, se))
                inflight += 1
                idle -= 1
            if not inflight:
                break
            try:
                oi, st = results.get(timeout=5)
            except Exception:
                if deadline and time.time() > deadline:
                    raise _Timeout()
                if not any(p.is_alive() for p in procs):
                    raise RuntimeError('all workers died')
                continue
            inflight -= 1
            idle += 1
            a = agg[oi]
            a['t1'] = time.time()
            if 'fatal' in st and st.get('fatal'):
                a['fatal'] = st['fatal']
                continue
            for k in ('paths', 'ok', 'aborted', 'nviol', 'decisions', 'nontrivial'):
                a[k] = a.get(k, 0) + st.get(k, 0)
            a['maxdepth'] = max(a['maxdepth'], st['maxdepth'])
            a['errors'].extend(st['errors'][:max(0, 20 - len(a['errors']))])
            a['nerrors'] = a.get('nerrors', 0) + len(st['errors'])
            for l, n in st['labels'].items():
                a['labels'][l] = a['labels'].get(l, 0) + n
            for key, ent in st['violations'].items():
                e = a['violations'].setdefault(key, dict(count=0, reps=[], label=ent['label']))
                e['count'] += ent['count']
                e['reps'].extend(ent['reps'][:max(0, 3 - len(e['reps']))])
            if len(a['samples']) < 4 * sample_target:
                a['samples'].extend(st['samples'])
            if len(a['smt']) < 12:
                a['smt'].extend(st.get('smt', []))
            for i in range(5):
                a['solver'][i] += st['solver'][i]
            a['cpu'] += st['wall']
            if a['paths'] > obls[oi].max_paths:
                a['truncated'] = True
            else:
                # deepest first (the leftover is a DFS stack): keep order, newest work at the front
                for pfx, mdl in st['leftover']:
                    pending.appendleft((oi, pfx, mdl))
            now = time.time()
            if log and now - last_log > 15:
                last_log = now
                log('  ... %s' % ', '.join('%s:%d' % (obls[i].name, agg[i]['paths']) for i in range(len(obls)) if agg[i]['t0'] and not (agg[i]['t1'] and agg[i]['paths'] and not any(q[0] == i for q in pending))) + ' pending=%d' % len(pending))
            if deadline and now > deadline:
                raise _Timeout()
    except _Timeout:
        for a in agg:
            a['truncated'] = True
            a['timeout'] = True
    finally:
        for p in procs:
            try:
                tasks.put(None)
            except Exception:
                pass
        time.sleep(0.05)
        for p in procs:
            if p.is_alive():
                p.terminate()
    return agg


# ------------------------------------------------------------------ native runs
def native_run(harness_mod, obl_name, vectors, tier, timeout=600):
    """run input vectors through the harness in concrete mode on the UN-instrumented tree with the
    repository's own interpreter; returns list of outcome dicts (or None on failure)"""
    if not vectors:
        return []
    os.makedirs(os.path.join(VERIF, 'replays'), exist_ok=True)
    path = os.path.join(VERIF, 'replays', '.batch_%s_%d.json' % (harness_mod, os.getpid()))
    with open(path, 'w') as f:
        json.dump(dict(harness=harness_mod, obligation=obl_name, tier=tier, vectors=vectors), f)
    env = dict(os.environ)
    env['PYTHONPATH'] = VERIF + os.pathsep + REPO
    env['PYTHONDONTWRITEBYTECODE'] = '1'
    try:
        p = subprocess.run([VENV_PY, '-m', 'symx.replay', '--batch', path], cwd=VERIF, env=env,
                           stdout=subprocess.PIPE, stderr=subprocess.PIPE, timeout=timeout)
    except subprocess.TimeoutExpired:
        return None
    finally:
        pass
    try:
        os.unlink(path)
    except OSError:
        pass
    if p.returncode != 0:
        sys.stderr.write(p.stderr.decode(errors='replace')[-3000:])
        return None
    return json.loads(p.stdout.decode())


# ------------------------------------------------------------------ second opinion
def cvc5_recheck(samples, per_query_ms=10000):
    """re-decide sampled queries (pc and negated assertion / branch condition, as SMT-LIB2) with cvc5; -> (agree, disagree, unknown, detail)"""
    try:
        import cvc5
        from cvc5 import InputParser, SymbolManager, InputLanguage
    except Exception as e:
        return 0, 0, len(samples), 'cvc5 not importable: %r' % (e,)
    agree = disagree = unknown = 0
    detail = ''
    for verdict, txt in samples:
        try:
            slv = cvc5.Solver()
            slv.setLogic('ALL')
            slv.setOption('tlimit-per', str(per_query_ms))
            sm = SymbolManager(slv.getTermManager()) if hasattr(slv, 'getTermManager') else SymbolManager(slv)
            p = InputParser(slv, sm)
            p.setStringInput(InputLanguage.SMT_LIB_2_6, txt, 'q')
            res = None
            while True:
                cmd = p.nextCommand()
                if cmd.isNull(): break
                out = str(cmd.invoke(slv, sm)).strip()
                if out in ('sat', 'unsat', 'unknown'): res = out
            if res == verdict: agree += 1
            elif res in ('sat', 'unsat'):
                disagree += 1; detail = 'z3 says %s, cvc5 says %s on:\n%s' % (verdict, res, txt[:1500])
            else: unknown += 1
        except Exception as e:
            unknown += 1; detail = detail or 'cvc5 error: %r' % (e,)
    return agree, disagree, unknown, detail


# ------------------------------------------------------------------ known findings
def load_known(pid):
    known, fixed = [], []
    fn = os.path.join(VERIF, 'known_findings.txt')
    if os.path.exists(fn):
        for line in open(fn):
            line = line.strip()
            if not line or line.startswith('#'):
                continue
            if line.startswith('known:') and ('property=%s ' % pid) in line:
                body = line.split('class=', 1)[1]
                key, _, desc = body.partition(' :: ')
                known.append((key.strip(), desc.strip()))
            elif line.startswith('fixed:') and ('property=%s ' % pid) in line:
                fixed.append(line)
    return known, fixed


# ------------------------------------------------------------------ top level
def sha256_file(p):
    try:
        return hashlib.sha256(open(p, 'rb').read()).hexdigest()
    except OSError:
        return None


def run_property(modname, tier, only=None, log=print):
    t_begin = time.time()
    seed = int(os.environ.get('VERIF_SEED', '0') or 0)
    mod = importlib.import_module('harness.' + modname)
    pid = mod.PROPERTY
    from . import instr
    inst = getattr(mod, 'INSTRUMENT', dict(prefixes=('mesonbuild.',), exact=('mesonbuild',)))
    instr.install(**inst)
    sys.path.insert(0, REPO)
    mod.setup()
    snapshot_module_globals()
    obls = mod.obligations(tier)
    if only:
        obls = [o for o in obls if o.name in only or any(o.name.startswith(x) for x in only)]
    log('%s [%s]: %d obligations on %d processes' % (pid, tier, len(obls), NPROC))
    limit = getattr(mod, 'TIME_LIMIT', {}).get(tier, 1500 if tier == 'quick' else 4 * 3600)
    agg = explore_all(obls, deadline=t_begin + limit, log=log)
    known, fixed = load_known(pid)
    inconclusive = []
    violations_out = []
    known_hits = []
    validated = 0
    val_fail = []
    ev_obls = []
    samples_out = []
    for o, a in zip(obls, agg):
        wall = (a['t1'] or 0) - (a['t0'] or 0)
        log('  %-28s paths=%d ok=%d aborted=%d viol=%d err=%d solver=%d/%.1fs cpu=%.1fs wall=%.1fs labels=%s' % (
            o.name, a['paths'], a['ok'], a['aborted'], a['nviol'], a.get('nerrors', 0), a['solver'][0], a['solver'][4],
            a['cpu'], wall, sorted(a['labels'])))
        if a['fatal']:
            inconclusive.append('%s: worker failure: %s' % (o.name, a['fatal']))
        if a['truncated']:
            inconclusive.append('%s: exploration truncated (%s) after %d paths' % (o.name, 'time limit' if a.get('timeout') else 'max_paths', a['paths']))
        if a.get('nerrors'):
            e = a['errors'][0]
            inconclusive.append('%s: %d inconclusive paths, first: %s %s witness=%r' % (o.name, a['nerrors'], e[0], e[1], e[2]))
        miss = [l for l in o.labels if l not in a['labels']]
        if miss and not a['violations']:
            inconclusive.append('%s: coverage labels never reached (vacuity guard): %s' % (o.name, miss))
        # ---- violations: replay natively, then classify
        for key, ent in sorted(a['violations'].items()):
            vecs = [r['inputs'] for r in ent['reps']]
            outs = native_run(modname, o.name, vecs, tier)
            reproduced = None
            if outs is not None:
                for r, out in zip(ent['reps'], outs):
                    if out['status'] == 'check-failed' or (out['status'] == 'exception' and ent['label'].startswith('exception:')):
                        reproduced = (r, out)
                        break
            if reproduced is None:
                inconclusive.append('%s: counterexample for %r did not reproduce natively (engine/model error): %r -> %r' % (
                    o.name, key, vecs[0], outs[0] if outs else None))
                continue
            r, out = reproduced
            kf = [k for k in known if k[0] == key]
            desc = o.describe(r['inputs']) if o.describe else json.dumps(r['inputs'])
            if kf:
                known_hits.append((key, kf[0][1], ent['count'], desc))
            else:
                rp = os.path.join(VERIF, 'replays', '%s_%s_%s.json' % (pid, o.name.replace('/', '_'), hashlib.sha1(key.encode()).hexdigest()[:8]))
                os.makedirs(os.path.dirname(rp), exist_ok=True)
                with open(rp, 'w') as f:
                    json.dump(dict(property=pid, harness=modname, obligation=o.name, tier=tier, **{'class': key}, label=ent['label'],
                                   inputs=r['inputs'], description=desc, native_outcome=out, paths_in_class=ent['count']), f, indent=1)
                violations_out.append((key, rp, desc, out))
        # ---- model validation on sampled path witnesses
        smp = a['samples']
        rnd = random.Random(seed)
        if len(smp) > (40 if tier == 'quick' else 150):
            smp = rnd.sample(smp, 40 if tier == 'quick' else 150)
        outs = native_run(modname, o.name, [s['inputs'] for s in smp], tier)
        if outs is None:
            inconclusive.append('%s: native validation run failed' % o.name)
        else:
            for s, out in zip(smp, outs):
                if out['status'] == 'ok' and out['labels'] == s['labels'] and out['observations'] == s['observations'] and not out['unused_inputs']:
                    validated += 1
                else:
                    val_fail.append((o.name, s, out))
        for s in a['samples'][:2]:
            samples_out.append(dict(obligation=o.name, inputs=s['inputs'], labels=s['labels']))
        ev_obls.append(dict(name=o.name, bounds=o.bounds, outside=o.outside, paths=a['paths'], completed=a['ok'], nontrivial=a.get('nontrivial', 0), assumed_away=a['aborted'],
                            decisions=a['decisions'], max_depth=a['maxdepth'], violating_paths=a['nviol'],
                            solver_queries=a['solver'][0], sat=a['solver'][1], unsat=a['solver'][2], unknown=a['solver'][3],
                            solver_s=round(a['solver'][4], 2), cpu_s=round(a['cpu'], 1), wall_s=round(wall, 1),
                            labels=a['labels'], inconclusive_paths=a.get('nerrors', 0), truncated=a['truncated']))
    smt_all = [q for a in agg for q in a['smt'][:(3 if tier == 'quick' else 12)]]
    if len(smt_all) > (40 if tier == 'quick' else 200):
        smt_all = random.Random(seed).sample(smt_all, 40 if tier == 'quick' else 200)
    cv_agree, cv_dis, cv_unk, cv_detail = cvc5_recheck(smt_all)
    if cv_dis:
        inconclusive.append('second opinion: cvc5 disagrees with z3 on %d of %d sampled queries: %s' % (cv_dis, len(smt_all), cv_detail))
    for name, s, out in val_fail[:3]:
        inconclusive.append('%s: model validation failed: predicted labels=%s obs=%s, native run gave %s (inputs %r)' % (
            name, s['labels'], s['observations'], {k: out[k] for k in ('status', 'labels', 'observations', 'exc', 'failed')}, s['inputs']))
    # ---- evidence
    files = {}
    for f in getattr(mod, 'FILES', []):
        files[f] = sha256_file(os.path.join(REPO, f))
    tot = lambda k: sum(e[k] for e in ev_obls)
    level = getattr(mod, 'LEVEL', 'other')
    coverage = dict(
        explanation=mod.EXPLANATION,
        evaluations=tot('paths'),
        distinct_nontrivial=tot('nontrivial'),
        rule='one evaluation = one symbolic path (a set of inputs driving the real code the same way); distinct by construction '
             '(path conditions are pairwise disjoint); non-trivial = ran to the end with a satisfiable path condition (not cut by assume), reached at least one property assertion AND took at least one solver-decided branch, i.e. stands for a class of inputs rather than one constant run (counted per path by the workers)',
        exhaustive=not inconclusive,
        functions_encoded=getattr(mod, 'ENCODED', []),
        source_sha256=files,
        obligations_detail=ev_obls,
        obligations=len(ev_obls),
        queries_discharged=tot('solver_queries'), queries_sat=tot('sat'), queries_unsat=tot('unsat'), queries_unknown=tot('unknown'),
        solver_s=round(tot('solver_s'), 2),
        states=tot('completed'), transitions=tot('decisions'),
        traces_validated_against_impl=validated,
        second_opinion=dict(solver='cvc5', queries_rechecked=len(smt_all), agree=cv_agree, disagree=cv_dis, unknown_or_timeout=cv_unk),
        samples=samples_out[:12] or [dict(note='no completed path')],
        outside_the_claim=getattr(mod, 'OUT', ''),
        known_findings=[dict(cls=k, description=d, paths=n, witness=w) for k, d, n, w in known_hits],
        inconclusive=inconclusive[:20],
    )
    evd = dict(property_id=pid, tier=tier, seed=seed, level=level, coverage=coverage,
               assumptions=getattr(mod, 'ASSUMPTIONS', []), wall_s=round(time.time() - t_begin, 1),
               violations=len(violations_out))
    if not only:
        evdir = os.environ.get('SYMX_EVIDENCE_DIR') or os.path.join(VERIF, 'evidence')     # seed evaluation (tools/seed_try.sh) points this elsewhere
        os.makedirs(evdir, exist_ok=True)
        with open(os.path.join(evdir, pid + '.json'), 'w') as f:
            json.dump(evd, f, indent=1, default=str)
    # ---- verdict
    for key, d, n, w in known_hits:
        print('KNOWN-FINDING: property=%s %s [%s] (%d paths; e.g. %s)' % (pid, d, key, n, w))
    for key, rp, desc, out in violations_out:
        print('VIOLATION property=%s replay=%s' % (pid, rp))
        print('  class: %s\n  witness: %s\n  native: %s %s' % (key, desc, out['status'], out.get('failed') or out.get('exc')))
    if violations_out:
        return 1
    if inconclusive:
        for x in inconclusive[:10]:
            print('INCONCLUSIVE: ' + x[:1500])
        return EXIT_HARNESS_ERROR
    print('%s: holds within the stated bounds (%d paths, %d solver queries, %d native validations, cvc5 agrees on %d/%d sampled queries, %.0fs)' % (
        pid, tot('paths'), tot('solver_queries'), validated, cv_agree, len(smt_all), time.time() - t_begin))
    return 0
