"""C13 - CompilerArgs honours the append/override/de-dup contract."""
from symx.api import *

PROPERTY = 'C13'
LEVEL = 'model_checking'
FILES = ['mesonbuild/arglist.py', 'mesonbuild/compilers/mixins/clike.py', 'mesonbuild/compilers/mixins/gnu.py']
ENCODED = ['arglist.CompilerArgs.__init__/__iadd__/__add__/__radd__/append/extend/append_direct/extend_direct/insert/copy/__iter__/__len__/__eq__/'
           'flush_pre_post/_can_dedup/_should_prepend (lru_cache stripped)', 'compilers.mixins.clike.CLikeCompilerArgs tables and dedup1_regex']
EXPLANATION = ('Symbolic execution of the real CLikeCompilerArgs: operation sequences (enumerated by the executor through choose()) whose arguments are '
               'kind-prefix + SYMBOLIC tail character (+ optional library suffix), so whether two arguments are identical - what de-duplication depends on - is decided '
               'by the solver; after every operation the list is compared with the eager reference semantics of DESIGN.md A.1, and one oracle-free inductive step shows '
               'that from an arbitrary lazy state (symbolic _container/pre/post contents) any operation gives the same list whether or not a read happened first.')
ASSUMPTIONS = ['argument kinds: -I -L -D -U -isystem -l -Wl,-rpath, -f lib*.a lib*.so -D*.so -pthread and the bare prefixes -I / -D; tails one character over {a,b}',
               'the reference (eager) semantics is the trusted reading of the class docstring / property statement',
               'lazy states of the inductive step: pre holds prepend-kind arguments and post the others, needs_override_check as __iadd__ would have set it']
OUT = 'D-language and linker subclasses beyond the cross-class obligation; to_native for other linkers, symbolic links among the default include directories (realpath is a stub), unix_args_to_native of non-GNU compilers'
MANIFEST = dict(
    text='Bounded model checking of the lazily flushed argument list as a state machine: every operation sequence up to the bound with symbolic argument identity, against '
         'the eager semantics, plus one inductive step (laziness is transparent from any lazy state), which lifts the bounded result to arbitrary interleavings of reads.',
    note='Trusted: symx engine, z3, the 30-line eager reference. Bounds: sequences of <=3 (quick) / <=4 (thorough) operations with batches of 1-2 arguments; lazy states with <=2 '
         'elements per part. Also append_direct / extend_direct / extend_preserving_lflags with absolute paths. to_native with a GNU-like linker: 2-3 (4) arguments.')

CA = Dedup = arglist = None
ORIG = {}


def setup():
    global CA, Dedup, arglist
    from mesonbuild.compilers.mixins.clike import CLikeCompilerArgs
    from mesonbuild import arglist as al
    CA, Dedup, arglist = CLikeCompilerArgs, al.Dedup, al
    for c in (al.CompilerArgs, CLikeCompilerArgs):
        for nm in ('_can_dedup', '_should_prepend'):
            f = c.__dict__.get(nm)
            if f is not None:
                ORIG[(c, nm)] = f          # the memoised originals: put back by cross-class, which runs on concrete (hashable) arguments
            if f is not None and hasattr(f.__func__, '__wrapped__'):
                setattr(c, nm, classmethod(f.__func__.__wrapped__))


KINDS = [('-I', ''), ('-L', ''), ('-D', ''), ('-U', ''), ('-isystem', ''), ('-l', ''), ('-Wl,-rpath,', ''), ('-f', ''),
         ('lib', '.a'), ('/x/lib', '.so'), ('-D', '.so'), ('-I', '.a'), ('-Wl,-rpath-link,', ''), ('-Wl,-rpath', ''), ('-Wl,-rpath-link', ''), ('-Wl,-l', ''), ('FW', '.A'), ('x', '.SO'), ('P', '.Lib'), ('sub/lib', '.so.2'), ('lib', '.so.1.2'), ('sub/x', '.so.2')]          # the last three: upper-case look-alikes of library suffixes are ordinary arguments
EXACT = ['-pthread', '-I', '-D', '-c', '-Wl,-rpath-link', '-Wl,-rpath', '-Wl,-rpath,', '-l', '-Wl,--export-dynamic', '-isystem']      # bare option words whose value is the NEXT argument are never de-duplicated
SMALL = [0, 2, 5, 7, 10]      # kinds used in the longer sequences: -I -D -l -f -D*.so


def mkarg(tag, kinds=None):
    ks = kinds if kinds is not None else list(range(len(KINDS) + len(EXACT)))
    k = ks[choose(len(ks), tag + 'kind')]
    if k >= len(KINDS): return EXACT[k - len(KINDS)]
    p, s = KINDS[k]
    return p + sym_str(1, tag, alphabet='ab') + s


# ---------------------------------------------------------------- reference (DESIGN.md A.1)
PRE = ('-I', '-L')
OVRP = ('-I', '-isystem', '-L', '-D', '-U')
UNQP = ('-l', '-Wl,-l', '-Wl,-rpath,', '-Wl,-rpath-link,')
UNQS = ('.lib', '.dll', '.so', '.dylib', '.a')
UNQA = ('-c', '-S', '-E', '-pipe', '-pthread', '-Wl,--export-dynamic')


def sw(a, ps): return any(decide(bt_any(a.startswith(p))) for p in ps)
def ew(a, ps): return any(decide(bt_any(a.endswith(p))) for p in ps)
def isin(a, xs): return any(decide(bt_any(a == x)) for x in xs)


def is_libso(a):
    """([/\\\\]|^)lib.*\\.so(\\.N){0,3}$ for our argument shapes (version suffix: none, .1, .2, .1.2)"""
    if not ew(a, ('.so', '.so.1', '.so.2', '.so.1.2')): return False
    cs = chars_of(a)
    for i in range(len(cs) - 2):
        if (i == 0 or decide(c_in(cs[i - 1], '/\\'))) and decide(bt_any(mkstr(cs[i:i + 3]) == 'lib')): return True
    return False


def r_kind(a):
    if isin(a, UNQP) or isin(a, OVRP): return 'plain'
    if sw(a, OVRP): return 'ovr'
    if isin(a, UNQA) or sw(a, UNQP) or ew(a, UNQS) or is_libso(a): return 'unq'
    return 'plain'


def r_iadd(L, batch):
    pre, post = [], []
    for a in batch:
        k = r_kind(a)
        if k == 'unq' and isin(a, L + pre + post): continue
        (pre if sw(a, PRE) else post).append(a)
    pre = list(reversed(pre))      # a batch's -I/-L keep their own order in front: appendleft then extendleft
    pre = list(reversed(pre))
    npre = [a for i, a in enumerate(pre) if not (r_kind(a) == 'ovr' and isin(a, pre[:i]))]
    npost = [a for i, a in enumerate(post) if not (r_kind(a) == 'ovr' and isin(a, post[i + 1:]))]
    gone = [a for a in npre + npost if r_kind(a) == 'ovr']
    return npre + [a for a in L if not isin(a, gone)] + npost


def same_list(got, exp, what):
    check(len(got) == len(exp), what + ': length')
    if len(got) == len(exp):
        for g, e in zip(got, exp): check(eq(g, e), what + ': element')


def ob_classify():
    def h():
        a = mkarg('t')
        d = CA._can_dedup(a)
        k = r_kind(a)
        check(d is {'plain': Dedup.NO_DEDUP, 'ovr': Dedup.OVERRIDDEN, 'unq': Dedup.UNIQUE}[k], 'classification of an argument')
        check(CA._should_prepend(a) == sw(a, PRE), 'prepend kind')
        cover(k)
    return h


COMPILER = object()


def ob_sequence(nops, kinds):
    """operation sequence vs the eager reference, compared after every operation that reads"""
    def h():
        real = CA(COMPILER, [])
        ref = []
        for i in range(nops):
            op = choose(7, 'op%d' % i)
            if op == 0:
                b = [mkarg('a%d' % i, kinds)]
                real += list(b); ref = r_iadd(ref, b)
            elif op == 1:
                b = [mkarg('a%d' % i, kinds), mkarg('b%d' % i, kinds)]
                real.extend(list(b)); ref = r_iadd(ref, b)
            elif op == 2:
                a = mkarg('a%d' % i, kinds)
                real.append_direct(a); ref = ref + [a]
            elif op == 3:
                a = mkarg('a%d' % i, kinds)
                real.insert(0, a); ref = [a] + ref
            elif op == 4:
                same_list(list(real), ref, 'read'); cover('read')
            elif op == 5:
                c = real.copy()
                a = mkarg('a%d' % i, kinds)
                c.append(a)
                same_list(list(c), r_iadd(ref, [a]), 'copy then append')
                same_list(list(real), ref, 'original untouched by a change to its copy'); cover('copy')
            else:
                b = [mkarg('a%d' % i, kinds)]
                n = real + list(b)
                same_list(list(n), r_iadd(ref, b), '__add__ result')
                same_list(list(real), ref, '__add__ leaves the left operand alone'); cover('add')
            check(len(real) >= 0, 'len')
        same_list(list(real), ref, 'final')
        cover('end')
    return h


def r_direct(L, a):
    """append_direct: no reordering or de-dup, except that an absolute path goes through the ordinary append (and may be de-duplicated)"""
    if decide(bt_any(a.startswith('/'))): return r_iadd(L, [a])
    return L + [a]


DK = [0, 5, 7, 9]      # -I? -l? -f? /x/lib?.so


def ob_direct(nops, DK=DK):
    """append_direct / extend_direct mixed with += and reads: direct arguments keep their place in the order given, absolute paths included"""
    def h():
        real = CA(COMPILER, [])
        ref = []
        for i in range(nops):
            op = choose(6, 'op%d' % i)
            if op == 0:
                b = [mkarg('a%d' % i, DK)]
                real += list(b); ref = r_iadd(ref, b)
            elif op == 1:
                a = mkarg('a%d' % i, DK)
                real.append_direct(a); ref = r_direct(ref, a)
            elif op in (2, 3):
                b = [mkarg('%s%d' % (t, i), DK) for t in 'abc'[:op]]
                real.extend_direct(list(b))
                for a in b: ref = r_direct(ref, a)
                cover('extend_direct')
            elif op == 4:
                # extend_preserving_lflags: -l / -L arguments of the batch are appended as they are (no de-dup, no reordering), after the others
                b = [mkarg('%s%d' % (t, i), [1, 5, 7, 0]) for t in 'ab']
                real.extend_preserving_lflags(list(b))
                lf = [a for a in b if sw(a, ('-l', '-L')) and not isin(a, CA.always_dedup_args)]
                ref = r_iadd(ref, [a for a in b if not any(a is x for x in lf)])
                for a in lf: ref = r_direct(ref, a)
                cover('preserving_lflags')
            else:
                same_list(list(real), ref, 'read'); cover('read')
        same_list(list(real), ref, 'final')
        cover('end')
    return h


def ob_lazy(nc, npre, npost, nbatch):
    """inductive step, oracle-free: from an arbitrary lazy state, `read; op` and `op` give the same list"""
    def h():
        cont = [mkarg('c%d' % i, SMALL) for i in range(nc)]
        pre = [['-I', '-L'][choose(2, 'pk%d' % i)] + sym_str(1, 'p%d' % i, alphabet='ab') for i in range(npre)]
        post = [mkarg('q%d' % i, [2, 5, 7, 10]) for i in range(npost)]
        batch = [mkarg('n%d' % i, SMALL) for i in range(nbatch)]
        def fresh():
            x = CA(COMPILER, list(cont))
            x.pre.extend(pre); x.post.extend(post)
            x.needs_override_check = any(r_kind(a) == 'ovr' for a in pre + post)
            return x
        a = fresh(); b = fresh()
        list(b)                      # the read (flush) in between
        a += list(batch); b += list(batch)
        same_list(list(a), list(b), 'laziness is transparent')
        cover('done')
    return h


# ---------------------------------------------------------------- several argument-list classes in one process (the memo layer stays in place)
CONCRETE = ['-Ia', '-La', '-Da', '-Ua', '-la', '-pthread', '-fa', 'liba.a', '-isystema', '-Ja']
SPECS = {      # the class attributes the documented meaning is parametrised by (arglist.CompilerArgs, clike.CLikeCompilerArgs, d.DCompilerArgs)
    'base': dict(pre=(), ovr=(), ovr_args=(), unq_pref=(), unq_args=()),
    'clike': dict(pre=('-I', '-L'), ovr=('-I', '-isystem', '-L', '-D', '-U'), ovr_args=(), unq_pref=('-l', '-Wl,-l', '-Wl,-rpath,', '-Wl,-rpath-link,'), unq_args=('-c', '-S', '-E', '-pipe', '-pthread', '-Wl,--export-dynamic')),
    'd': dict(pre=('-I', '-L'), ovr=('-I',), ovr_args=(), unq_pref=(), unq_args=()),
}


def c_kind(a, sp):
    if a in sp['unq_pref'] or a in sp['ovr']: return 'plain'
    if a in sp['ovr_args'] or a.startswith(sp['ovr']) if sp['ovr'] else a in sp['ovr_args']: return 'ovr'
    if a in sp['unq_args'] or (sp['unq_pref'] and a.startswith(sp['unq_pref'])) or a.endswith(UNQS): return 'unq'
    return 'plain'


def c_iadd(L, batch, sp):
    pre, post = [], []
    for a in batch:
        if c_kind(a, sp) == 'unq' and a in L + pre + post: continue
        (pre if (sp['pre'] and a.startswith(sp['pre'])) else post).append(a)
    npre = [a for i, a in enumerate(pre) if not (c_kind(a, sp) == 'ovr' and a in pre[:i])]
    npost = [a for i, a in enumerate(post) if not (c_kind(a, sp) == 'ovr' and a in post[i + 1:])]
    gone = [a for a in npre + npost if c_kind(a, sp) == 'ovr']
    return npre + [a for a in L if a not in gone] + npost


def ob_cross_class():
    """argument lists of DIFFERENT classes (plain CompilerArgs as used for static linkers / nasm / rust, the C-like one, the D one) handle the same argument
    strings in one process, in any order: each follows the eager meaning with ITS OWN tables - what one class decided about a string is not what another
    class gets. The original lru_cache wrappers are put back for this obligation (arguments are concrete, chosen by the executor)."""
    def h():
        from mesonbuild.compilers.d import DCompilerArgs
        classes = {'base': arglist.CompilerArgs, 'clike': CA, 'd': DCompilerArgs}
        saved = []
        for (c, nm), f in ORIG.items():
            saved.append((c, nm, c.__dict__[nm])); setattr(c, nm, f)
        try:
            order = [['base', 'clike'], ['clike', 'base'], ['clike', 'd'], ['d', 'clike'], ['base', 'd'], ['d', 'base']][choose(6, 'classes')]
            batch1 = [CONCRETE[choose(len(CONCRETE), 'a%d' % i)] for i in range(2)]
            b1 = batch1 + [batch1[0]]                  # a repeat inside the batch: de-duplication depends on the class
            b2 = [CONCRETE[choose(len(CONCRETE), 'b0')], batch1[1]]
            for name in order:
                real = classes[name](COMPILER, [])
                real += list(b1)
                exp = c_iadd([], b1, SPECS[name])
                check(list(real) == exp, 'first increment follows the tables of the list\'s own class')
                real += list(b2)
                exp = c_iadd(exp, b2, SPECS[name])
                check(list(real) == exp, 'second increment follows the tables of the list\'s own class')
            cover('done')
        finally:
            for c, nm, f in saved: setattr(c, nm, f)
    return h


DEFAULT_DIRS = ['/usr/include', '/usr/local/include']


def r_is_lib(a):
    """library-like for the linker group (clike.GROUP_FLAGS): -lX / -Wl,-lX, *.a, *.so[.N[.N[.N]]] not passed through -Wl,"""
    if sw(a, ('-l', '-Wl,-l')) or ew(a, ('.a',)): return True
    if sw(a, ('-Wl,',)): return False
    return ew(a, ('.so', '.so.1', '.so.1.2'))


def ob_to_native(n):
    """CLikeCompilerArgs.to_native with a GNU-like linker: what the compiler receives is the eager list with (1) -isystem arguments naming a DEFAULT include
    directory removed - in the joined, the two-argument and the `=` spelling - and nothing else removed, and (2) when there are at least two library-like
    arguments, -Wl,--start-group right before the first and -Wl,--end-group right after the last of them: every library inside, nothing else moved"""
    def h():
        from mesonbuild.compilers.c import GnuCCompiler
        from mesonbuild.linkers.linkers import GnuBFDDynamicLinker
        comp = object.__new__(GnuCCompiler)
        comp.linker = object.__new__(GnuBFDDynamicLinker)
        comp.get_default_include_dirs = lambda: list(DEFAULT_DIRS)
        comp.unix_args_to_native = lambda args: list(args)
        saved = CA.__dict__['_cached_realpath']
        CA._cached_realpath = staticmethod(lambda a: a)        # stub: no symbolic links on the include path
        try:
            batches = []; one_batch = choose(2, 'one batch') == 1
            cur = []
            for i in range(n):
                k = choose(11, 'kind%d' % i)
                s_ = sym_str(1, 't%d' % i, alphabet='ab')
                new = [['-l' + s_], ['lib' + s_ + '.a'], ['/x/lib' + s_ + '.so'], ['/x/lib' + s_ + '.so.1'], ['-isystem/usr/include'], ['-isystem', '/usr/local/include'],
                       ['-isystem=/usr/include'], ['-isystem/opt/' + s_], ['-D' + s_], ['-Wl,--export-dynamic'], ['-Wl,-l' + s_]][k]
                if one_batch: cur += new
                else: batches.append(new)
            if one_batch: batches = [cur]
            a = CA(comp); L = []
            for b in batches:
                a += list(b); L = r_iadd(L, list(b))
            copy_ = choose(2, 'copy') == 1
            got = a.to_native(copy=copy_)
            # reference
            kept = []; i = 0
            while i < len(L):
                x = L[i]
                if isin(x, ('-isystem',)):
                    if i + 1 < len(L) and isin(L[i + 1], DEFAULT_DIRS): i += 2; continue
                elif sw(x, ('-isystem=',)):
                    if isin(x[9:], DEFAULT_DIRS): i += 1; continue
                elif sw(x, ('-isystem',)):
                    if isin(x[8:], DEFAULT_DIRS): i += 1; continue
                kept.append(x); i += 1
            libs = [j for j, x in enumerate(kept) if r_is_lib(x)]
            exp = list(kept)
            if len(libs) >= 2:
                exp.insert(libs[-1] + 1, '-Wl,--end-group'); exp.insert(libs[0], '-Wl,--start-group'); cover('group')
            if len(kept) != len(L): cover('stripped')
            same_list(got, exp, 'to_native')
            if copy_: same_list(list(a), L, 'to_native(copy=True) leaves the list itself alone')
            cover('done')
        finally:
            CA._cached_realpath = saved
    return h


def ob_include_sources():
    """how the backend combines include directories: one `commands += compiler.get_include_args(dir, is_system)` per directory and source (the real
    GnuCCompiler.get_include_args feeding the real CLikeCompilerArgs), two sources that share a directory. Whatever spelling the compiler chooses, every
    directory ends up ONCE on the command line, in the position the contract gives it: a repeated -I moves to the front, a repeated -isystem to the end"""
    def h():
        from mesonbuild.compilers.c import GnuCCompiler
        comp = object.__new__(GnuCCompiler)
        d = ['inc/' + sym_str(1, 'd%d' % i, alphabet='ab') for i in range(2)]
        sysflag = [choose(2, 'dir%d is a system include dir' % i) == 1 for i in range(2)]
        a = CA(comp)
        order = [0, 1, choose(2, 'the second source repeats directory')]        # source 1: d0, d1; source 2: one of them again
        settings = []
        for i in order:
            toks = comp.get_include_args(d[i], sysflag[i])
            a += list(toks)
            kind = 'isystem' if sysflag[i] else 'I'
            # eager meaning on SETTINGS: -I goes to the front (an earlier identical one goes), -isystem to the end (an earlier identical one goes)
            same = [j for j, (k_, p_) in enumerate(settings) if k_ == kind and decide(bt_any(p_ == d[i]))]
            for j in reversed(same): del settings[j]
            if kind == 'I': settings.insert(0, (kind, d[i]))
            else: settings.append((kind, d[i]))
        got = []; toks = list(a); j = 0
        while j < len(toks):
            t = toks[j]
            if decide(bt_any(t == '-isystem')) and j + 1 < len(toks): got.append(('isystem', toks[j + 1])); j += 2; continue
            if sw(t, ('-isystem',)): got.append(('isystem', t[8:]))
            elif sw(t, ('-I',)): got.append(('I', t[2:]))
            else: got.append(('?', t))
            j += 1
        check(len(got) == len(settings), 'every include directory is on the command line once')
        if len(got) == len(settings):
            for (gk, gp), (ek, ep) in zip(got, settings):
                check(gk == ek and len(gp) == len(ep) and decide(bt_any(eq(gp, ep))), 'include directories in the order the contract gives: repeated -I first, repeated -isystem last')
        cover('done')
    return h


def obligations(tier):
    q = tier == 'quick'
    out = [Obligation('classify', ob_classify(), dict(kinds=len(KINDS) + len(EXACT)), labels=('plain', 'ovr', 'unq'))]
    allk = list(range(len(KINDS) + len(EXACT)))
    out.append(Obligation('sequence[1,all kinds]', ob_sequence(1, None), dict(ops=1, kinds='all'), labels=('end',)))
    out.append(Obligation('sequence[2,all kinds]', ob_sequence(2, [0, 1, 2, 4, 5, 8, 10, 11, 16, 17]), dict(ops=2, kinds='-I -L -D -isystem -l lib.a -D*.so -I*.a -pthread -I'), labels=('end', 'read', 'copy', 'add'), max_paths=3000000))
    for n in ((3,) if q else (3, 4)):
        ks = SMALL if n == 3 else [0, 2, 5]
        out.append(Obligation('sequence[%d]' % n, ob_sequence(n, ks), dict(ops=n, kinds=[KINDS[k][0] + '?' + KINDS[k][1] for k in ks]), labels=('end', 'read', 'copy', 'add'), max_paths=6000000))
    for n in ((1, 2) if q else (1, 2, 3)):
        out.append(Obligation('direct[%d]' % n, ob_direct(n, DK if n < 3 else [5, 9]), dict(ops=n, operations='+=, append_direct, extend_direct of 2-3, extend_preserving_lflags of 2, read', kinds='-I? -l? -f? /x/lib?.so (absolute)' if n < 3 else '-l? /x/lib?.so (absolute)'),
                              labels=('end', 'extend_direct', 'preserving_lflags') + (('read',) if n > 1 else ()), max_paths=6000000))
    shapes = [(1, 1, 1, 1), (1, 2, 1, 1), (1, 1, 2, 1), (0, 1, 1, 2)] if q else [(1, 1, 1, 1), (1, 2, 1, 1), (1, 1, 2, 1), (0, 1, 1, 2), (2, 1, 1, 1), (1, 2, 2, 1), (1, 1, 1, 2), (2, 2, 2, 1)]
    for s in shapes:
        out.append(Obligation('lazy-step%s' % (s,), ob_lazy(*s), dict(container=s[0], pre=s[1], post=s[2], batch=s[3]), labels=('done',), max_paths=3000000))
    for n in ((2, 3) if tier == 'quick' else (2, 3, 4)):
        out.append(Obligation('to-native[%d]' % n, ob_to_native(n), dict(arguments=n, kinds='-lX libX.a /x/libX.so /x/libX.so.1 -isystem<default> (3 spellings) -isystem<other> -DX -Wl,--export-dynamic -Wl,-lX; X symbolic', linker='GNU-like', batches='one | one per argument', copy='both'),
                              labels=('done', 'group', 'stripped'), max_paths=3000000))
    out.append(Obligation('include-sources', ob_include_sources(), dict(real='GnuCCompiler.get_include_args feeding CLikeCompilerArgs.__iadd__', sources='2 directories (symbolic names), each plain or system, then one of them again'), labels=('done',)))
    out.append(Obligation('cross-class', ob_cross_class(), dict(classes='two of CompilerArgs / CLikeCompilerArgs / DCompilerArgs, either order', arguments='3 choices out of %d concrete strings' % len(CONCRETE),
                                                                 increments=2, memo='the original lru_cache wrappers are in place'), labels=('done',)))
    return out
