"""C17 - rewriter edits are local and meaning-preserving (re-printing and splicing)."""
from symx.api import *

PROPERTY = 'C17'
LEVEL = 'other'
FILES = ['mesonbuild/ast/printer.py', 'mesonbuild/rewriter.py', 'mesonbuild/mparser.py', 'mesonbuild/ast/interpreter.py', 'mesonbuild/ast/introspection.py']
ENCODED = ['ast.printer.AstPrinter (all visit_*, precedence_level, maybe_parentheses, escape, post_process)', 'the real lexer/parser on both sides',
           'rewriter.Rewriter.apply_changes (line offsets, remove_node splice arithmetic, ordering of edits; file reads/writes replaced by an in-memory dict)']
EXPLANATION = ('Symbolic execution of parse -> AstPrinter -> parse on statements whose expression shape is enumerated by the executor (all operator kinds, with and without explicit '
               'parentheses on every operand) and whose string bodies and numbers are symbolic: the re-parsed tree must equal the original (same grouping, same argument '
               'order, string values equal after decoding). Rewriter.apply_changes runs on an in-memory file whose text above the edited statement contains a comment body '
               'and a string body that are symbolic over ASCII 1..126 (minus CR): the result must be before[:start] + printed + before[end:] with every other byte unchanged.')
ASSUMPTIONS = ['expression depth <= 2, string bodies <= 2/3 characters over {a, space, quote, backslash, n, newline, @}', 'file I/O of apply_changes replaced by an in-memory dict (open/os.path stubs)',
               'edits are applied to already located nodes (target discovery by the introspection interpreter is outside)', 'universal-newline reading removes CR']
OUT = 'info JSON formatting, targets made in foreach loops, absolute source paths, --skip-errors, multi-line strings with trailing whitespace before a newline (known finding); the real Rewriter / IntrospectionInterpreter run on scratch directories for target-edit, target-extra-files, target-add-rm, info-subdir and command-list'
MANIFEST = dict(
    text='Bounded symbolic decision: for ALL expression shapes up to depth 2 and all string bodies within the bound, re-printing preserves the tree; for all preceding texts within the '
         'bound the splice touches exactly the edited construct. Also kwargs set/delete/add/remove and default-options set/delete through the real process_kwargs with symbolic values. Target discovery (IntrospectionInterpreter, pathlib) is outside.',
    note='Trusted: symx engine, z3, the structural tree comparison. Bounds: depth 2, 1 symbolic string per statement (<=3 chars), preceding comment/string bodies <=2 chars, <=2 edited nodes.')

mp = AstPrinter = R = None


def setup():
    global mp, AstPrinter, R
    from mesonbuild import mparser as m
    from mesonbuild.ast.printer import AstPrinter as A
    from mesonbuild import rewriter as r
    from harness.common import quiet_mlog
    ml = quiet_mlog()
    ml.yellow = lambda x: x
    mp, AstPrinter, R = m, A, r


def unwrap(n):
    while isinstance(n, mp.ParenthesizedNode): n = n.inner
    return n


def same_tree(a, b, where='tree'):
    a, b = unwrap(a), unwrap(b)
    check(type(a) is type(b), where + ': node kind')
    if type(a) is not type(b): return
    if isinstance(a, mp.CodeBlockNode):
        check(len(a.lines) == len(b.lines), where + ': statements')
        for x, y in zip(a.lines, b.lines): same_tree(x, y, where)
    elif isinstance(a, (mp.AssignmentNode, mp.PlusAssignmentNode)):
        check(a.var_name.value == b.var_name.value, where + ': variable'); same_tree(a.value, b.value, where)
    elif isinstance(a, mp.ArithmeticNode):
        check(a.operation == b.operation, where + ': operator'); same_tree(a.left, b.left, where); same_tree(a.right, b.right, where)
    elif isinstance(a, mp.ComparisonNode):
        check(a.ctype == b.ctype, where + ': comparison'); same_tree(a.left, b.left, where); same_tree(a.right, b.right, where)
    elif isinstance(a, (mp.AndNode, mp.OrNode)):
        same_tree(a.left, b.left, where); same_tree(a.right, b.right, where)
    elif isinstance(a, (mp.NotNode, mp.UMinusNode)):
        same_tree(a.value, b.value, where)
    elif isinstance(a, mp.FunctionNode):
        check(a.func_name.value == b.func_name.value, where + ': function'); same_tree(a.args, b.args, where)
    elif isinstance(a, mp.MethodNode):
        check(a.name.value == b.name.value, where + ': method'); same_tree(a.source_object, b.source_object, where); same_tree(a.args, b.args, where)
    elif isinstance(a, mp.IndexNode):
        same_tree(a.iobject, b.iobject, where); same_tree(a.index, b.index, where)
    elif isinstance(a, (mp.ArrayNode, mp.DictNode)):
        same_tree(a.args, b.args, where)
    elif isinstance(a, mp.TernaryNode):
        same_tree(a.condition, b.condition, where); same_tree(a.trueblock, b.trueblock, where); same_tree(a.falseblock, b.falseblock, where)
    elif isinstance(a, mp.ArgumentNode):
        check(len(a.arguments) == len(b.arguments) and len(a.kwargs) == len(b.kwargs), where + ': argument count')
        for x, y in zip(a.arguments, b.arguments): same_tree(x, y, where)
        for (k1, v1), (k2, v2) in zip(a.kwargs.items(), b.kwargs.items()):
            same_tree(k1, k2, where); same_tree(v1, v2, where)
    elif isinstance(a, mp.StringNode):
        check(a.is_fstring == b.is_fstring, where + ': f-string flag')
        check(len(a.value) == len(b.value), where + ': string value length')
        if len(a.value) == len(b.value): check(eq(a.value, b.value), where + ': string value (after decoding)')
    elif isinstance(a, (mp.IdNode, mp.NumberNode, mp.BooleanNode)):
        check(eq(a.value, b.value), where + ': leaf value')
    elif isinstance(a, (mp.EmptyNode, mp.ContinueNode, mp.BreakNode)):
        pass
    else:
        raise AssertionError('unhandled node %r' % type(a))


BIN = [' or ', ' and ', ' == ', ' not in ', ' + ', ' - ', ' * ', ' / ', ' % ']
SA = "a '\\n\n@"


BIN2 = [' or ', ' == ', ' + ', ' - ', ' * ', ' / ']


class Gen:
    def __init__(self, small=False): self.used_str = False; self.n = 0; self.small = small

    def leaf(self, tag):
        if self.small and self.used_str: return 'a'
        k = choose(4, tag + 'leaf') if not self.small else 2
        if k == 0: return 'a'
        if k == 1: return sym_str_of_int(sym_int(tag + 'num', 0, 99), 2)
        if k == 2 and not self.used_str:
            self.used_str = True
            body = sym_str(choose(3, tag + 'sl') + 1, tag + 'str', alphabet=SA, exclude='\n')
            return "'" + body + "'"
        return 'true'

    def expr(self, depth, tag):
        if depth == 0: return self.leaf(tag)
        k = choose(8, tag + 'kind')
        wrap = lambda s, t: '(' + s + ')' if choose(2, t) else s
        if k == 0:
            ops = BIN2 if self.small else BIN
            op = ops[choose(len(ops), tag + 'op')]
            return wrap(self.expr(depth - 1, tag + 'l'), tag + 'pl') + op + wrap(self.expr(depth - 1, tag + 'r'), tag + 'pr')
        if k == 1: return ['not ', '-'][choose(2, tag + 'un')] + wrap(self.expr(depth - 1, tag + 'u'), tag + 'pu')
        if k == 2: return 'f(' + self.expr(depth - 1, tag + 'a') + ', k : ' + self.expr(depth - 1, tag + 'b') + ')'
        if k == 3: return wrap(self.expr(depth - 1, tag + 'o'), tag + 'po') + '.m(' + self.leaf(tag + 'ma') + ')'
        if k == 4: return wrap(self.expr(depth - 1, tag + 'o'), tag + 'po') + '[' + self.expr(depth - 1, tag + 'i') + ']'
        if k == 5: return '[' + self.expr(depth - 1, tag + 'e0') + ', ' + self.leaf(tag + 'e1') + ']'
        if k == 6: return wrap(self.expr(depth - 1, tag + 'c'), tag + 'pc') + ' ? ' + self.expr(depth - 1, tag + 't') + ' : ' + self.expr(depth - 1, tag + 'f')
        return self.leaf(tag)


def printed(ast):
    p = AstPrinter(); ast.accept(p); p.post_process()
    return p.result


def ob_reprint(depth):
    def h():
        g = Gen(small=depth > 1)
        text = 'x = ' + g.expr(depth, 'e') + '\n'
        try:
            ast = mp.Parser(text, 'f').parse()
        except mp.ParseException:
            cover('source-rejected'); return        # e.g. chained comparison, unary on unary: not a program
        out = printed(ast)
        try:
            ast2 = mp.Parser(out, 'f').parse()
        except mp.ParseException:
            check(False, 're-printed statement no longer parses'); return
        same_tree(ast, ast2, 're-printed statement')
        cover('roundtrip')
    return h


def ob_pairs(form):
    """where precedence and associativity live: two operators in parent/child and left/right position"""
    def h():
        o1 = BIN[choose(len(BIN), 'op1')]; o2 = BIN[choose(len(BIN), 'op2')]
        b = "'" + sym_str(1, 'b', alphabet=SA, exclude='\n') + "'"
        t = ['a' + o1 + b + o2 + 'c', '(a' + o1 + b + ')' + o2 + 'c', 'a' + o1 + '(' + b + o2 + 'c)',
             'not a' + o1 + b, 'not (a' + o1 + b + ')', '-a' + o1 + b, '-(a' + o1 + b + ')',
             '(a' + o1 + b + ').m(c' + o2 + 'd)', '(a' + o1 + b + ')[c' + o2 + 'd]', 'f(a' + o1 + b + ', k : c' + o2 + 'd)',
             'a' + o1 + b + ' ? c : d' + o2 + 'e', '(a ? ' + b + ' : c)' + o1 + 'd', '[a' + o1 + b + ', (c' + o2 + 'd)]'][form]
        text = 'x = ' + t + '\n'
        try:
            ast = mp.Parser(text, 'f').parse()
        except mp.ParseException:
            cover('source-rejected'); return
        out = printed(ast)
        try:
            ast2 = mp.Parser(out, 'f').parse()
        except mp.ParseException:
            check(False, 're-printed statement no longer parses'); return
        same_tree(ast, ast2, 're-printed statement')
        cover('roundtrip')
    return h


def ob_synthetic_plus():
    """the one tree the rewriter synthesises itself (extra_files_add): ArithmeticNode('+', <old kwarg value>, [new]) around an arbitrary
    existing expression that is NOT wrapped in a ParenthesizedNode - the printer has to add the parentheses the precedence needs"""
    def h():
        g = Gen(small=True)
        old = g.expr(1, 'o')
        text = "executable('x', 'a.c', extra_files : " + old + ")\n"
        try:
            ast = mp.Parser(text, 'meson.build').parse()
            want = mp.Parser("executable('x', 'a.c', extra_files : (" + old + ") + ['n.txt'])\n", 'meson.build').parse()
        except mp.ParseException:
            cover('source-rejected'); return
        fn = ast.lines[0]
        key = [k for k in fn.args.kwargs][0]
        oldnode = fn.args.kwargs[key]
        sym = mp.SymbolNode(mp.Token('', 'meson.build', 0, 0, 0, None, '+'))
        br = lambda c: mp.SymbolNode(mp.Token('', 'meson.build', 0, 0, 0, None, c))
        arr_args = mp.ArgumentNode(mp.Token('', 'meson.build', 0, 0, 0, None, '[]'))
        arr_args.arguments = [new_str('n.txt')]
        chosen = mp.ArrayNode(br('['), arr_args, br(']'))
        fn.args.kwargs = {k: v for k, v in fn.args.kwargs.items() if k is not key}
        fn.args.kwargs[key] = mp.ArithmeticNode('+', oldnode, sym, chosen)
        out = printed(ast)
        try:
            ast2 = mp.Parser(out, 'meson.build').parse()
        except mp.ParseException:
            check(False, 're-printed statement no longer parses'); return
        same_tree(want, ast2, 'statement with a synthesised old + [new] kwarg')
        cover('roundtrip')
    return h


NFORMS = 13


def ob_string(n, multiline):
    def h():
        body = sym_str(n, 'body', alphabet=SA + 'x0', exclude='\n' if not multiline else '')
        q = "'''" if multiline else "'"
        text = "x = f(" + q + body + q + ", y)\n"
        try:
            ast = mp.Parser(text, 'f').parse()
        except mp.ParseException:
            cover('source-rejected'); return
        out = printed(ast)
        try:
            ast2 = mp.Parser(out, 'f').parse()
        except mp.ParseException:
            check(False, 're-printed string literal no longer parses'); return
        same_tree(ast, ast2, 're-printed string')
        cover('roundtrip')
    return h


def classify_ml(label, inputs):
    for k, n, v in inputs:
        if k == 'str' and n == 'body':
            import re
            if re.search(r'\s\n', v): return "multi-line string with whitespace before a newline: AstPrinter.post_process strips it"
    return label


# ---------------------------------------------------------------- splice
class FakeFile:
    def __init__(self, store, path, mode): self.store, self.path, self.mode = store, path, mode
    def __enter__(self): return self
    def __exit__(self, *a): return False
    def read(self): return self.store[self.path]
    def write(self, s): self.store[self.path] = s


class FakePath:
    def realpath(self, p): return p
    def exists(self, p): return True


class FakeOS:
    path = FakePath()


def run_apply(text, edit):
    """parse text, let `edit(ast)` modify nodes and return (modified, removed); run the real apply_changes in memory"""
    store = {'meson.build': text}
    ast = mp.Parser(text, 'meson.build').parse()
    mod, rm = edit(ast)
    rw = object.__new__(R.Rewriter)
    rw.modified_nodes = mod; rw.to_remove_nodes = rm; rw.to_add_nodes = []
    saved = (R.__dict__.get('open'), R.os)
    R.open = lambda path, mode='r', **k: FakeFile(store, path, mode)
    R.os = FakeOS
    try:
        rw.apply_changes()
    finally:
        R.os = saved[1]
        if saved[0] is None: del R.open
        else: R.open = saved[0]
    return store['meson.build']


def new_str(val):
    return mp.StringNode(mp.Token('string', 'meson.build', 0, 0, 0, None, val))


def ob_splice(form):
    def h():
        cbody = sym_str(choose(3, 'cl'), 'comment', 1, 126, exclude='\r\n')
        sbody = sym_str(choose(3, 'sl'), 'strbody', 1, 126, exclude="\r'\\")
        pre = "project('p', 'c')\n# " + cbody + "\nz = '''" + sbody + "'''\n"
        if form == 0:
            stmt = "executable('x', 'a.c')"
            after = "\ny = 1\n"
            text = pre + stmt + after
            def edit(ast):
                fn = ast.lines[-2]
                fn.args.arguments.append(new_str('b.c'))
                return [fn], []
            exp = pre + "executable('x', 'a.c', 'b.c')" + after
        elif form == 1:
            lead = 'exe = '
            stmt = "executable('p', ['m.c', 'a.c'] + ['b.c', 'u.c'], install : (1 + 2) * 3 == 9)"
            after = "\ny = 1\n"
            text = pre + lead + stmt + after
            def edit(ast):
                fn = ast.lines[-2].value
                arith = fn.args.arguments[1]
                a1, a2 = arith.left, arith.right
                a1.args.arguments.pop(); a2.args.arguments.pop(0)
                return ([a1, a2] if choose(2, 'order') else [a2, a1]), []
            exp = pre + lead + "executable('p', ['m.c'] + ['u.c'], install : (1 + 2) * 3 == 9)" + after
        else:
            stmt = "s = files('a.c', 'b.c')"
            after = "\nlibrary('l', s)\n"
            text = pre + stmt + after
            def edit(ast):
                asg = ast.lines[-2]
                return [], [asg]
            exp = pre + after[1:]       # the assignment and the line end after it are removed, the rest stays
        try:
            got = run_apply(text, edit)
        except mp.ParseException:
            cover('source-rejected'); return
        check(len(got) == len(exp), 'spliced file: length')
        if len(got) == len(exp): check(eq(got, exp), 'spliced file equals before[:start] + new text + before[end:]')
        cover('spliced')
    return h


def ob_kwargs(op):
    """kwargs set / delete / add / remove on project() through the real process_kwargs + apply_changes; values are symbolic strings (quotes and backslashes included)"""
    def h():
        import types
        A = "ab '\\"
        lic = [sym_str(1 + choose(2, 'll%d' % i), 'lic%d' % i, alphabet='ab ') for i in range(2)]
        text = "project('p', 'c', license : ['" + lic[0] + "', '" + lic[1] + "'], version : '1')\nx = 1\n"
        store = {'meson.build': text}
        ast = mp.Parser(text, 'meson.build').parse()
        rw = object.__new__(R.Rewriter)
        rw.modified_nodes = []; rw.to_remove_nodes = []; rw.to_add_nodes = []; rw.skip_errors = False; rw.info_dump = None
        rw.interpreter = types.SimpleNamespace(project_node=ast.lines[0])
        exp_lic = list(lic); exp_ver = '1'
        if op == 'set':
            v = sym_str(1 + choose(2, 'vl'), 'newversion', alphabet=A)
            kw = {'version': v}; exp_ver = v
        elif op == 'delete':
            kw = {'version': None}; exp_ver = None
        elif op == 'add':
            v = sym_str(1 + choose(2, 'vl'), 'newlicense', alphabet=A)
            kw = {'license': [v]}; exp_lic = lic + [v]
        else:
            v = sym_str(1 + choose(2, 'vl'), 'oldlicense', alphabet='ab ')
            kw = {'license': [v]}
            exp_lic = [l for l in lic if not (len(l) == len(v) and decide(bt_any(l == v)))]
            if choose(2, 'remove two values') == 1:       # two values in ONE command: neighbours in the list go both
                w = sym_str(1, 'oldlicense2', alphabet='ab ')
                kw = {'license': [v, w]}
                exp_lic = [l for l in exp_lic if not (len(l) == len(w) and decide(bt_any(l == w)))]
        cmd = {'type': 'kwargs', 'function': 'project', 'id': '/', 'operation': op, 'kwargs': kw}
        saved = (R.__dict__.get('open'), R.os)
        R.open = lambda path, mode='r', **k: FakeFile(store, path, mode)
        R.os = FakeOS
        try:
            rw.process_kwargs(cmd)
            rw.apply_changes()
        finally:
            R.os = saved[1]
            if saved[0] is None: del R.open
            else: R.open = saved[0]
        got = store['meson.build']
        try:
            ast2 = mp.Parser(got, 'meson.build').parse()
        except mp.ParseException:
            check(False, 'the edited file still parses'); return
        kw2 = {k.value: unwrap(v_) for k, v_ in ast2.lines[0].args.kwargs.items()}
        def strs(n):
            if n is None: return []
            if isinstance(n, mp.ArrayNode): return [unwrap(a).value for a in n.args.arguments]
            return [n.value]
        gl = strs(kw2.get('license'))
        check(len(gl) == len(exp_lic), 'license: exactly the requested values')
        if len(gl) == len(exp_lic):
            for g, e in zip(gl, exp_lic): check(len(g) == len(e) and decide(bt_any(eq(g, e))) if len(g) == len(e) else False, 'license: values (after escape decoding) and order')
        if exp_ver is None:
            check('version' not in kw2, 'a deleted keyword is gone')
        else:
            g = kw2['version'].value if 'version' in kw2 else None
            check(g is not None and len(g) == len(exp_ver) and decide(bt_any(eq(g, exp_ver))), 'version has exactly the requested new value')
        check(got.endswith("x = 1\n") and len(ast2.lines) == 2, 'the rest of the file is untouched')
        cover('done')
    return h


def ob_kwargs_expr(op):
    """kwargs set / delete on a TARGET or a DEPENDENCY whose keyword is currently written as something other than a plain literal - a variable, an f-string,
    a concatenation, a method call - or is absent: afterwards the keyword EVALUATES to exactly the requested text (the requested text may spell the variable's
    name or the f-string's template: that is not the value), every other argument and statement is as before"""
    def h():
        import types
        fn = ['target', 'dependency'][choose(2, 'function')]
        key = 'install_dir' if fn == 'target' else 'not_found_message'
        env = {'d': 'x/y'}
        shape = choose(7, 'current value')
        lit = sym_str(1, 'lit', alphabet='da@')
        cur = [None, "'" + lit + "'", 'd', "f'@d@'", "d + 'a'", "'d'.to_upper()", "'@d@'"][shape]
        call = ("executable('e', 'main.c'" if fn == 'target' else "dependency('z'") + ((', %s : ' % key) + cur if cur is not None else '') + ", native : false)"
        text = "project('p', 'c')\nd = 'x/y'\nt = " + call + "\nx = 1\n"
        store = {'meson.build': text}
        ast = mp.Parser(text, 'meson.build').parse()
        node = ast.lines[2].value
        rw = object.__new__(R.Rewriter)
        rw.modified_nodes = []; rw.to_remove_nodes = []; rw.to_add_nodes = []; rw.skip_errors = False; rw.info_dump = None
        rw.interpreter = types.SimpleNamespace(project_node=ast.lines[0])
        rw.find_target = lambda i: types.SimpleNamespace(node=node)
        rw.find_dependency = lambda i: types.SimpleNamespace(node=node)
        if op == 'set':
            v = sym_str(1 + choose(3, 'vl'), 'requested', alphabet='da@')
            kw = {key: v}
        else:
            v = None; kw = {key: None}
        cmd = {'type': 'kwargs', 'function': fn, 'id': 'e' if fn == 'target' else 'z', 'operation': op, 'kwargs': kw}
        saved = (R.__dict__.get('open'), R.os)
        R.open = lambda path, mode='r', **k: FakeFile(store, path, mode)
        R.os = FakeOS
        try:
            rw.process_kwargs(cmd)
            rw.apply_changes()
        finally:
            R.os = saved[1]
            if saved[0] is None: del R.open
            else: R.open = saved[0]
        got = store['meson.build']
        try:
            ast2 = mp.Parser(got, 'meson.build').parse()
        except mp.ParseException:
            check(False, 'the edited file still parses'); return
        check(len(ast2.lines) == 4 and got.startswith("project('p', 'c')\nd = 'x/y'\nt = ") and got.endswith("\nx = 1\n"), 'every other statement is textually unchanged')
        if len(ast2.lines) != 4: return
        call2 = ast2.lines[2].value
        kw2 = {k.value: unwrap(v_) for k, v_ in call2.args.kwargs.items()}

        def ev(n):       # the language's meaning of the node kinds used here
            n = unwrap(n)
            if isinstance(n, mp.StringNode):
                if n.is_fstring: return n.value.replace('@d@', env['d'])
                return n.value
            if isinstance(n, mp.IdNode): return env[n.value]
            if isinstance(n, mp.ArithmeticNode): return ev(n.left) + ev(n.right)
            if isinstance(n, mp.MethodNode): return ev(n.source_object).upper()
            raise TypeError(type(n))
        check('native' in kw2 and isinstance(kw2['native'], mp.BooleanNode) and kw2['native'].value is False and len(call2.args.arguments) == len(node.args.arguments), 'the other arguments are as before')
        if op == 'delete':
            check(key not in kw2, 'a deleted keyword is gone')
        else:
            if key not in kw2: check(False, 'the keyword has exactly the requested new value'); return
            g = ev(kw2[key])
            check(len(g) == len(v) and decide(bt_any(eq(g, v))), 'the keyword has exactly the requested new value')
        cover('done')
    return h


def ob_default_options(op):
    """default-options set / delete through the real Rewriter.process_default_options -> process_kwargs -> MTypeStrList -> apply_changes:
    exactly the entries of the addressed option go, every other entry stays, in order; `set` appends the new value"""
    def h():
        import types
        from mesonbuild import options as O
        target = ['b', 'ab', 'a_b'][choose(3, 'target')]
        names = [sym_str(1 + choose(3, 'nl%d' % i), 'name%d' % i, alphabet='ab_') for i in range(2)]
        entries = [n + '=v%d' % i for i, n in enumerate(names)]
        pre = "project('p', 'c', default_options : ['" + entries[0] + "', '" + entries[1] + "'], version : '1')\n"
        text = pre + "x = 1\n"
        store = {'meson.build': text}
        ast = mp.Parser(text, 'meson.build').parse()
        rw = object.__new__(R.Rewriter)
        rw.modified_nodes = []; rw.to_remove_nodes = []; rw.to_add_nodes = []; rw.skip_errors = False; rw.info_dump = None
        opt = O.UserStringOption(target, 'x', 'd')
        rw.interpreter = types.SimpleNamespace(project_node=ast.lines[0], coredata=types.SimpleNamespace(optstore={target: opt}))
        cmd = {'type': 'default_options', 'operation': op, 'options': {target: 'new'}}
        saved = (R.__dict__.get('open'), R.os)
        R.open = lambda path, mode='r', **k: FakeFile(store, path, mode)
        R.os = FakeOS
        try:
            rw.process_default_options(cmd)
            rw.apply_changes()
        finally:
            R.os = saved[1]
            if saved[0] is None: del R.open
            else: R.open = saved[0]
        got = store['meson.build']
        try:
            ast2 = mp.Parser(got, 'meson.build').parse()
        except mp.ParseException:
            check(False, 'the edited file still parses'); return
        fn = ast2.lines[0]
        kw = {k.value: v for k, v in fn.args.kwargs.items()}
        dn = unwrap(kw['default_options']) if 'default_options' in kw else None
        if dn is None: vals = []
        elif isinstance(dn, mp.ArrayNode): vals = [unwrap(a).value for a in dn.args.arguments]
        else: vals = [dn.value]                  # a single remaining entry may be written as a plain string
        hit = [decide(bt_any(n == target)) if len(n) == len(target) else False for n in names]
        exp = [e for e, hh in zip(entries, hit) if not hh] + ([target + '=new'] if op == 'set' else [])
        check(len(vals) == len(exp), 'default_options: exactly the addressed option is removed / replaced, every other entry stays')
        if len(vals) == len(exp):
            for g, e in zip(vals, exp): check(len(g) == len(e) and decide(bt_any(eq(g, e))) if len(g) == len(e) else False, 'default_options: entries and order')
        check('version' in kw and unwrap(kw['version']).value == '1', 'other keyword arguments are untouched')
        check(got.endswith("x = 1\n"), 'the rest of the file is untouched')
        cover('hit' if any(hit) else 'miss')
    return h


_TDIR = {}


def _tdir():
    import os, tempfile, atexit, shutil
    pid = os.getpid()
    if pid not in _TDIR:
        d = tempfile.mkdtemp(prefix='c17rw')
        _TDIR[pid] = d
        atexit.register(lambda: shutil.rmtree(d, ignore_errors=True))
        for f in ('main.c', 'util.c', 'foo.c', 'bar.c', 'v.c', 'x.c', 'alpha.c', 'zeta.c', 'gen\\table.c', "it's.c"):
            open(os.path.join(d, f), 'w').close()
    return _TDIR[pid]


def _target_info(d, names=('foo', 'bar')):
    rw = R.Rewriter(d)
    rw.analyze_meson()
    for t in names:
        rw.process({'type': 'target', 'target': t, 'operation': 'info'})
    ti = rw.info_dump['target']
    return {v['name']: list(v['sources']) for v in ti.values()}


FOO_USES = ["common[0], 'foo.c'", "common, 'foo.c'", "'main.c', 'foo.c'", "files('main.c'), 'foo.c'", "extra, 'foo.c'"]
BAR_USES = ["common, 'bar.c'", "common + ['v.c'], 'bar.c'", "['main.c', 'util.c'], 'bar.c'", "files('main.c', 'util.c'), 'bar.c'", "common, extra, 'bar.c'", "'bar.c', sources : common"]
TARGET_OPS = [('src_add', ['alpha.c']), ('src_add', ['zeta.c']), ('src_add', ['util.c']), ('src_rm', ['util.c']), ('src_rm', ['main.c']), ('src_rm', ['bar.c']),
              # several files in ONE command: they may live in different nodes (a direct argument and a shared array), which are then sorted one after the other
              ('src_rm', ['bar.c', 'util.c']), ('src_rm', ['util.c', 'bar.c']), ('src_add', ['zeta.c', 'alpha.c']),
              # odd file names: a backslash followed by a letter that the language reads as an escape, a quote
              ('src_add', ['gen\\table.c']), ('src_add', ["it's.c"])]


def ob_target_edit():
    """target add / rm sources through the real Rewriter (IntrospectionInterpreter, the dataflow DAG, add_src_or_extra / rm_src_or_extra, apply_changes) on real
    files in a scratch directory. Shapes are enumerated (the rewriter resolves paths with pathlib, so file names stay concrete): whatever way two targets share
    a source list - directly, through an index, inside a sum, through files() - editing `bar` gives it exactly the requested sources (or is refused and
    changes nothing), `foo` keeps its sources, and the file still parses"""
    def h():
        import os
        d = _tdir()
        fu = FOO_USES[choose(len(FOO_USES), 'foo_uses')]; bu = BAR_USES[choose(len(BAR_USES), 'bar_uses')]
        op, names = TARGET_OPS[choose(len(TARGET_OPS), 'operation')]
        # the OTHER target may have a name only the real interpreter can compute: it still is a target that shares the list
        dyn = choose(2, 'the other target has a computed name') == 1
        text = "project('p')\ncommon = ['main.c', 'util.c']\nextra = files('x.c')\nexecutable(%s, %s)\nexecutable('bar', %s)\n" % ("'foo-' + host_machine.system()" if dyn else "'foo'", fu, bu)
        with open(os.path.join(d, 'meson.build'), 'w') as f: f.write(text)
        tnames = ('bar',) if dyn else ('foo', 'bar')          # a target whose name is computed cannot be addressed by the rewriter
        before = _target_info(d, tnames)
        before_real = _real_targets(d)
        if dyn:
            fk = [k for k in before_real if k.startswith('foo-')]
            check(len(fk) == 1, 'harness: the computed name'); 
            if len(fk) != 1: return
            before_real['foo'] = before_real[fk[0]]; before.setdefault('foo', None)
        asked = list(names)
        if len(names) > 1:
            # a command naming several files does what the one-file commands do together: a file whose one-file command is refused (e.g. it sits in a
            # list shared with the other target) stays refused, the others are carried out
            ok = []
            for nm in names:
                rw1 = R.Rewriter(d); rw1.analyze_meson()
                rw1.process({'type': 'target', 'target': 'bar', 'operation': op, 'sources': [nm], 'subdir': '', 'target_type': 'executable'})
                rw1.apply_changes()
                if open(os.path.join(d, 'meson.build')).read() != text: ok.append(nm)
                with open(os.path.join(d, 'meson.build'), 'w') as f: f.write(text)
            names = ok
        rw = R.Rewriter(d)
        rw.analyze_meson()
        rw.process({'type': 'target', 'target': 'bar', 'operation': op, 'sources': asked, 'subdir': '', 'target_type': 'executable'})
        rw.apply_changes()
        new_text = open(os.path.join(d, 'meson.build')).read()
        try:
            after = _target_info(d, tnames)
        except Exception:
            check(False, 'the edited file can still be analysed'); return
        check(after.get('foo') == before['foo'], 'the other target keeps exactly its sources')
        want = set(before['bar']) | set(names) if op == 'src_add' else set(before['bar']) - set(names)
        try:
            real = _real_targets(d)
        except Exception:
            check(False, 'the rewritten build file still evaluates (real interpreter)'); return
        if dyn and fk[0] in real: real['foo'] = real[fk[0]]
        check('foo' in real and set(real['foo'][0]) == set(before_real['foo'][0]), 'the other target keeps exactly its sources (real interpreter)')
        if new_text != text:
            rwant = set(before_real['bar'][0]) | set(names) if op == 'src_add' else set(before_real['bar'][0]) - set(names)
            check(set(real['bar'][0]) == rwant, 'the addressed target has exactly the requested sources (real interpreter)')
        if new_text == text:
            cover('refused-or-nothing-to-do')       # e.g. removing from a list shared with another target: the rewriter warns and leaves the file alone
            check(after['bar'] == before['bar'], 'an unchanged file means unchanged targets')
        else:
            check(set(after['bar']) == want, 'the addressed target has exactly the requested sources')
            cover('edited')
    return h

_RENV = {}


def _real_targets(d):
    """the build file of directory d evaluated by the REAL interpreter (operators, files(), argument flattening as the language defines them); only the function
    `executable` is a recorder -> {name: (sources, extra_files)}. Raises what the interpreter raises (e.g. str + list is a type error in the language)."""
    import os, tempfile, argparse, atexit, shutil
    from mesonbuild import build, environment, cmdline
    from mesonbuild.interpreter import Interpreter
    from mesonbuild.mesonlib import File, listify
    if d not in _RENV:
        p = argparse.ArgumentParser(); cmdline.register_builtin_arguments(p)
        o = p.parse_args([]); o.cross_file = []; o.native_file = []
        cmdline.parse_cmd_line_options(o)
        b = tempfile.mkdtemp(prefix='c17bld')
        atexit.register(lambda: shutil.rmtree(b, ignore_errors=True))
        _RENV[d] = (environment.Environment(d, b, o), o)
    env, o = _RENV[d]
    ast = mp.Parser(open(os.path.join(d, 'meson.build')).read(), 'meson.build').parse()
    it = Interpreter(build.Build(env), ast=ast, backend=None, user_defined_options=o)
    out = {}
    norm = lambda x: x.relative_name() if isinstance(x, File) else x

    def exe(node, args, kwargs):
        out[args[0]] = ([norm(x) for x in listify(args[1:]) + listify(kwargs.get('sources', []))], [norm(x) for x in listify(kwargs.get('extra_files', []))])
    it.funcs['executable'] = exe
    it.run()
    return out


def _target_info2(d):
    rw = R.Rewriter(d)
    rw.analyze_meson()
    for t in ('foo', 'bar'):
        rw.process({'type': 'target', 'target': t, 'operation': 'info'})
    return {v['name']: (list(v['sources']), list(v['extra_files'])) for v in rw.info_dump['target'].values()}


BAR_EXTRA = ['', ", extra_files : 'x.c'", ", extra_files : ['x.c', 'v.c']", ", extra_files : extra", ", extra_files : xname", ", extra_files : [xname]"]
EXTRA_OPS = [('extra_files_add', 'alpha.c'), ('extra_files_add', 'x.c'), ('extra_files_rm', 'x.c'), ('extra_files_rm', 'alpha.c'), ('src_add', 'alpha.c'), ('src_rm', 'util.c')]


def ob_target_extra():
    """extra files (and sources next to them) through the real Rewriter, judged by the REAL interpreter: however the target spells its extra_files (absent, a
    string, a list, files(), a variable holding a string) the rewritten build file still evaluates, the addressed list has exactly the requested members
    (or the edit is refused and nothing changes), the other list and the other target are as before, and `info` agrees with the interpreter"""
    def h():
        import os
        d = _tdir()
        bu = BAR_USES[choose(3, 'bar_uses')]; ex = BAR_EXTRA[choose(len(BAR_EXTRA), 'bar_extra_files')]
        op, name = EXTRA_OPS[choose(len(EXTRA_OPS), 'operation')]
        text = "project('p')\ncommon = ['main.c', 'util.c']\nextra = files('x.c')\nxname = 'x.c'\nexecutable('foo', common, 'foo.c', extra_files : 'zeta.c')\nexecutable('bar', %s%s)\n" % (bu, ex)
        with open(os.path.join(d, 'meson.build'), 'w') as f: f.write(text)
        before = _real_targets(d)
        rw = R.Rewriter(d)
        rw.analyze_meson()
        crashed = False
        try:
            rw.process({'type': 'target', 'target': 'bar', 'operation': op, 'sources': [name], 'subdir': '', 'target_type': 'executable'})
            rw.apply_changes()
        except Exception:
            crashed = True       # judged by the letter of the property below: nothing may have changed, and the requested state must already hold
        new_text = open(os.path.join(d, 'meson.build')).read()
        try:
            after = _real_targets(d)
        except Exception:
            check(False, 'the rewritten build file still evaluates (real interpreter)'); return
        check(after['foo'] == before['foo'], 'the other target keeps its sources and extra files')
        bs, be = set(before['bar'][0]), set(before['bar'][1])
        if op == 'src_add': bs = bs | {name}
        elif op == 'src_rm': bs = bs - {name}
        elif op == 'extra_files_add': be = be | {name}
        else: be = be - {name}
        if crashed:
            check(new_text == text and set(before['bar'][0]) == bs and set(before['bar'][1]) == be, 'a command that ends in a Python error has changed nothing and had nothing to do')
        if new_text == text:
            cover('refused-or-nothing-to-do')
        else:
            check(set(after['bar'][0]) == bs, 'the addressed target has exactly the requested sources (real interpreter)')
            check(set(after['bar'][1]) == be, 'the addressed target has exactly the requested extra files (real interpreter)')
            cover('edited')
        info = _target_info2(d)
        check(set(info['bar'][0]) == set(after['bar'][0]) and set(info['bar'][1]) == set(after['bar'][1]), '`info` reports what the interpreter computes')
    return h


SUB_USES = ["common, local, 'sub.c'", "common + local, 'sub.c'", "local, 'sub.c'", "['sub.c'] + common", "sub_srcs", "common, 'sub.c'"]
SUB_OPS = [('info', None), ('src_add', 'new.c'), ('src_rm', 'sub.c'), ('src_add', 'sub.c'), ('src_add', '../subx/other.c')]      # subx: a sibling directory whose name merely BEGINS with the target's directory name


def ob_info_subdir():
    """a target defined in a SUBDIRECTORY whose sources come through files() objects made in the parent directory, in its own directory, plain strings and `+`
    expressions: `info` (before and after src_add / src_rm through the real Rewriter on real files) names exactly the files the real Interpreter hands to
    executable() - each under the directory it is anchored in -, the root build file is not touched by an edit of the subdirectory's target, both files parse"""
    def h():
        import os
        from mesonbuild.mesonlib import File, listify
        d = _tdir()
        uses = SUB_USES[choose(len(SUB_USES), 'sources of the target')]
        op, name = SUB_OPS[choose(len(SUB_OPS), 'operation')]
        root = "project('p')\ncommon = files('common.c')\nsubdir('sub')\nexecutable('rootprog', common, 'main.c')\n"
        sub = "local = files('local.c')\nsub_srcs = [common, 'sub.c']\nexecutable('subprog', %s)\n" % uses
        os.makedirs(os.path.join(d, 'sub'), exist_ok=True)
        os.makedirs(os.path.join(d, 'subx'), exist_ok=True)
        for rel in ('common.c', 'main.c', 'sub/local.c', 'sub/sub.c', 'sub/new.c', 'subx/other.c'):
            with open(os.path.join(d, rel), 'w') as f: f.write('')
        with open(os.path.join(d, 'meson.build'), 'w') as f: f.write(root)
        with open(os.path.join(d, 'sub', 'meson.build'), 'w') as f: f.write(sub)

        def real():
            env, o = _renv(d)
            from mesonbuild import build
            from mesonbuild.interpreter import Interpreter
            it = Interpreter(build.Build(env), backend=None, user_defined_options=o)
            out = {}
            def exe(node, args, kwargs):
                out[args[0]] = sorted(os.path.normpath(x.relative_name() if isinstance(x, File) else os.path.join(it.subdir, x)) for x in listify(args[1:]))
            it.funcs['executable'] = exe
            it.run()
            return out

        def info():
            rw = R.Rewriter(d); rw.analyze_meson()
            for t in ('rootprog', 'subprog'): rw.process({'type': 'target', 'target': t, 'operation': 'info'})
            return {v['name']: sorted(os.path.normpath(x) for x in v['sources']) for v in rw.info_dump['target'].values()}
        try:
            before = real()
            if op != 'info':
                rw = R.Rewriter(d); rw.analyze_meson()
                rw.process({'type': 'target', 'target': 'subprog', 'operation': op, 'sources': [os.path.normpath(os.path.join('sub', name))], 'subdir': '', 'target_type': 'executable'})
                rw.apply_changes()
            after = real()
        finally:
            pass
        check(open(os.path.join(d, 'meson.build')).read() == root, 'the build file of the parent directory is not touched')
        exp = set(before['subprog'])
        if op == 'src_add': exp = exp | {os.path.normpath(os.path.join('sub', name))}
        elif op == 'src_rm': exp = exp - {os.path.normpath(os.path.join('sub', name))}
        new_sub = open(os.path.join(d, 'sub', 'meson.build')).read()
        if new_sub != sub or op == 'info':
            check(set(after['subprog']) == exp, 'the addressed target has exactly the requested sources (real interpreter)')
        check(after['rootprog'] == before['rootprog'], 'the other target keeps its sources')
        inf = info()
        check(inf.get('subprog') == after['subprog'] and inf.get('rootprog') == after['rootprog'], '`info` reports the files the interpreter hands to the target, each under the directory it is anchored in')
        cover('edited' if new_sub != sub else 'unchanged')
    return h


CMD_POOL = [
    {'type': 'target', 'target': 'fresh', 'operation': 'target_add', 'sources': ['n.c'], 'subdir': '', 'target_type': 'executable'},
    {'type': 'target', 'target': 'foo', 'operation': 'src_add', 'sources': ['m.c']},
    {'type': 'target', 'target': 'foo', 'operation': 'src_rm', 'sources': ['foo.c']},
    {'type': 'kwargs', 'function': 'project', 'id': '/', 'operation': 'set', 'kwargs': {'version': '2.0'}},
    {'type': 'target', 'target': 'foo', 'operation': 'info'},
    {'type': 'target', 'target': 'foo', 'operation': 'src_add', 'sources': ['foo.c']},
]


def ob_command_list():
    """`meson rewrite command <json>`: 2-3 commands of a pool (add a target, add / remove a source, kwargs set on project(), info, add an existing source) through
    the real `rewriter.run()` - its loop applies and RE-ANALYSES between commands. The result is what the same commands give when each is its own invocation:
    the same file text (so nothing is applied twice and nothing is lost), which still parses, with every target defined once"""
    def h():
        import os, json, argparse
        n = 2 + choose(2, 'commands')
        picks = []
        for i in range(n):
            k = choose(len(CMD_POOL), 'command %d' % i)
            picks.append(k)
        assume(len(set(picks)) == len(picks))
        base = "project('p', 'c', version : '1.0')\nexecutable('foo', 'foo.c', 'bar.c')\n"

        def run_cmds(d, cmds):
            import io, contextlib
            o = argparse.Namespace(sourcedir=d, skip=False, verbose=False, type='command', json=json.dumps(cmds))
            with contextlib.redirect_stdout(io.StringIO()), contextlib.redirect_stderr(io.StringIO()):
                return R.run(o)

        def fresh_dir():
            d = _tdir()
            with open(os.path.join(d, 'meson.build'), 'w') as f: f.write(base)
            return d
        d1 = fresh_dir()
        ok1 = True
        try: run_cmds(d1, [CMD_POOL[k] for k in picks])
        except Exception: ok1 = False
        t1 = open(os.path.join(d1, 'meson.build')).read()
        d2 = fresh_dir()
        ok2 = True
        for k in picks:
            try: run_cmds(d2, [CMD_POOL[k]])
            except Exception: ok2 = False
        t2 = open(os.path.join(d2, 'meson.build')).read()
        check(ok1 == ok2, 'a command list fails iff one of its commands fails on its own')
        if ok1 and ok2:
            check(t1 == t2, 'a command list gives the file that the same commands give one invocation at a time')
        try:
            mp.Parser(t1, 'meson.build').parse()
        except mp.ParseException:
            check(False, 'the edited file still parses'); return
        names = sorted(_all_targets(d1))
        check(len(names) == len(set(names)) and t1.count("executable('fresh'") <= 1, 'every target is defined once')
        cover('done')
    return h


def _renv(d):
    import tempfile, argparse, atexit, shutil
    from mesonbuild import environment, cmdline
    if d not in _RENV:
        p = argparse.ArgumentParser(); cmdline.register_builtin_arguments(p)
        o = p.parse_args([]); o.cross_file = []; o.native_file = []
        cmdline.parse_cmd_line_options(o)
        b = tempfile.mkdtemp(prefix='c17bld')
        atexit.register(lambda: shutil.rmtree(b, ignore_errors=True))
        _RENV[d] = (environment.Environment(d, b, o), o)
    return _RENV[d]


TAILS = ['\n', '', '\n\n', '\n# end\n', '\nx = 1\n', '\nx = 1']     # what follows the last target statement (a file need not end with a line break)
BAR_FORMS = ["executable('bar', 'bar.c')", "bar_exe = executable('bar', 'bar.c')", "bar_src = ['bar.c']\nbar_exe = executable('bar', bar_src)",
             "bar_exe = executable('bar',\n  'bar.c',\n)", "bar_exe   =   executable('bar', 'bar.c')"]


def _all_targets(d):
    rw = R.Rewriter(d)
    rw.analyze_meson()
    return {t.name for t in rw.interpreter.targets}


def ob_target_add_rm():
    """add target / remove target through the real Rewriter (process + apply_changes, files on disk): wherever the addressed statement stands - also as the very last
    statement of a file with or without a final line break - the command does what it was asked (no Python error), the file still parses, exactly the addressed target
    appears / disappears, and every other statement is textually unchanged"""
    def h():
        import os
        d = _tdir()
        tail = TAILS[choose(len(TAILS), 'tail')]
        op = ['target_add', 'target_rm', 'add-then-rm'][choose(3, 'operation')]
        head = "project('p')\nexecutable('foo', 'foo.c')\n"
        if op == 'target_rm':
            form = BAR_FORMS[choose(len(BAR_FORMS), 'form')]
            first = choose(2, 'position') == 1      # the addressed statement before / after the other target
            text = ("project('p')\n" + form + "\nexecutable('foo', 'foo.c')" + tail) if first else (head + form + tail)
        else:
            text = head[:-1] + tail
        path = os.path.join(d, 'meson.build')
        with open(path, 'w') as f: f.write(text)
        before = _all_targets(d)

        def command(opn, name):
            rw = R.Rewriter(d)
            rw.analyze_meson()
            rw.process({'type': 'target', 'target': name, 'operation': opn, 'sources': ['alpha.c'] if opn == 'target_add' else [], 'subdir': '', 'target_type': 'executable'})
            rw.apply_changes()
        try:
            if op == 'target_rm': command('target_rm', 'bar')
            else:
                command('target_add', 'neu')
                mid = open(path).read()
                check(mid.startswith(text), 'add target: the existing text is kept as it is')
                if op == 'add-then-rm': command('target_rm', 'neu')
        except Exception as e:
            check(False, 'the rewriter carries out the command (no Python error)'); return
        new_text = open(path).read()
        try:
            after = _all_targets(d)
        except Exception:
            check(False, 'the edited file still parses and can be analysed'); return
        if op == 'target_add':
            check(after == before | {'neu'}, 'exactly the new target was added'); cover('added')
        elif op == 'target_rm':
            check(after == before - {'bar'}, 'exactly the addressed target was removed')
            check("executable('foo', 'foo.c')" in new_text and "project('p')\n" in new_text and (tail.strip() in new_text), 'the other statements are textually unchanged')
            check('bar_exe' not in new_text, 'the assignment of the removed target is gone')
            cover('removed')
        else:
            check(after == before, 'adding then removing a target restores the set of targets')
            check(new_text.startswith(text.rstrip('\n')), 'the original statements are textually unchanged')
            cover('restored')
    return h


def obligations(tier):
    q = tier == 'quick'
    out = [Obligation('reprint[depth 1]', ob_reprint(1), dict(depth=1, operators=BIN, strings='1 symbolic body <=3 over ' + repr(SA)), labels=('roundtrip',), max_paths=5000000)]
    for f in range(NFORMS):
        out.append(Obligation('operator-pairs[%d]' % f, ob_pairs(f), dict(form=f, operators='all pairs of ' + repr(BIN)), labels=('roundtrip',), max_paths=5000000))
    # reprint[depth 2] (every derivation to depth 2 over BIN2) was measured: 6.7 million paths after 50 minutes and not finished - not part of the
    # registered tiers; the precedence-relevant depth-2 shapes are what operator-pairs[...] enumerate
    out.append(Obligation('target-extra-files', ob_target_extra(), dict(extra_files_spelling=BAR_EXTRA, source_shapes=3, operations=[o for o, _ in EXTRA_OPS], oracle='the real Interpreter with `executable` recording'), labels=('edited', 'refused-or-nothing-to-do')))
    out.append(Obligation('target-add-rm', ob_target_add_rm(), dict(operations='add target | remove target | add then remove', file_end=repr(TAILS), statement_forms=len(BAR_FORMS), position='first | last target'), labels=('added', 'removed', 'restored')))
    out.append(Obligation('target-edit', ob_target_edit(), dict(shapes='%d ways foo uses the shared list x %d ways bar does' % (len(FOO_USES), len(BAR_USES)), operations='add new / add existing / rm shared / rm own',
                          files='real files in a scratch directory (pathlib resolves them): names concrete'), labels=('edited', 'refused-or-nothing-to-do'), path_timeout=300))
    out.append(Obligation('command-list', ob_command_list(), dict(real='rewriter.run() with type=command (process, apply_changes, re-analysis between commands) on real files', commands='2-3 distinct ones of: target_add, src_add, src_rm, kwargs set on project(), info, src_add of an existing source'),
                          labels=('done',), max_paths=100000))
    out.append(Obligation('info-subdir', ob_info_subdir(), dict(real='Rewriter (analyze, target info / src_add / src_rm, apply_changes) on real files; the real Interpreter as the oracle', layout="root: common = files('common.c'), subdir('sub'); sub: local = files('local.c'), executable('subprog', ...)",
                          sources='6 spellings: files() of the parent / own directory, strings, +, a variable', operation='info | src_add | src_rm | src_add of an existing file'), labels=('edited', 'unchanged'), max_paths=100000))
    for op in ('set', 'delete', 'add', 'remove'):
        if op in ('set', 'delete'):
            out.append(Obligation('kwargs-expr[%s]' % op, ob_kwargs_expr(op), dict(function='target | dependency', keyword='install_dir | not_found_message (MTypeStr)',
                                  current_value="absent | literal (symbolic) | variable | f-string | concatenation | method call | '@d@'", requested='1-3 chars over {d, a, @}: may spell the variable name or the f-string template'),
                                  labels=('done',), max_paths=2000000))
        out.append(Obligation('kwargs[%s]' % op, ob_kwargs(op), dict(function='project', kwargs='version (string), license (list of 2 symbolic strings)', value="1-2 chars over {a, b, space, quote, backslash}"),
                              labels=('done',), max_paths=3000000))
    for op in ('set', 'delete'):
        out.append(Obligation('default-options[%s]' % op, ob_default_options(op), dict(existing='2 entries, names 1-3 chars over ab_', addressed='b | ab | a_b'), labels=('hit', 'miss'), max_paths=3000000))
    out.append(Obligation('synthetic-plus', ob_synthetic_plus(), dict(old_value='every depth-1 expression shape', new='old + [str] as Rewriter.add_src_or_extra builds it'), labels=('roundtrip',), max_paths=5000000))
    for n in range(0, 4 if q else 5):
        out.append(Obligation('string[%d]' % n, ob_string(n, False), dict(length=n, alphabet=SA + 'x0'), labels=('roundtrip',) , max_paths=5000000))
    for n in range(0, 3 if q else 4):
        out.append(Obligation('multiline-string[%d]' % n, ob_string(n, True), dict(length=n, alphabet=SA + 'x0'), labels=('roundtrip',), max_paths=5000000, classify=classify_ml))
    for f in range(3):
        out.append(Obligation('splice[%d]' % f, ob_splice(f), dict(form=['append an argument', 'edit two arrays on one line (either order)', 'remove an assignment'][f],
                                                                  preceding='comment and string bodies <=2 over ASCII 1..126 minus CR'), labels=('spliced',), max_paths=5000000))
    return out
