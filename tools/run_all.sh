#!/bin/sh
# usage: tools/run_all.sh [quick|thorough] [ids...]   -- runs the registered checks on /repo as it is and prints a summary
cd "$(dirname "$0")/.." || exit 3
TIER=${1:-quick}; shift
IDS=${*:-C01 C02 C03 C04 C06 C07 C08 C09 C10 C11 C12 C13 C14 C15 C16 C17 C18 C19 C20}
mkdir -p /tmp/runall
for id in $IDS; do
  s=$(date +%s)
  ./check $id --tier $TIER > /tmp/runall/$id.$TIER.log 2>&1; rc=$?
  e=$(date +%s)
  echo "$id rc=$rc $((e-s))s $(grep -c '^KNOWN-FINDING' /tmp/runall/$id.$TIER.log) known $(tail -1 /tmp/runall/$id.$TIER.log | cut -c1-120)"
done
