import sys, time
sys.path.insert(0, __import__('os').path.dirname(__import__('os').path.abspath(__file__))); sys.path.insert(0, '/repo')
from sx import instr, core
from sx.values import *
from sx.core import choose, check, cover, assume
instr.install()
from mesonbuild.mtest import TAPParser, TestResult
import z3
from p_c18 import casevar

NAMEAB = 'xyZ_-.'       # name characters: no digit, no '#', no space
def mkform():
    """returns (abstract form, concrete-shape line)"""
    k = choose(10, 'form')
    if k == 0:
        ok = choose(2) == 0
        line = 'ok' if ok else 'not ok'
        num = None
        if choose(2) == 0:
            num = sym_int('n', 0, 99); line = line + ' ' + sym_str_of_int(num, 2)
        name = ''
        if choose(2):
            name = sym_str(1, 'nm', alphabet=NAMEAB); line = line + ' ' + name
        d = choose(4)
        dname = None
        if d == 1: dname = 'SKIP'; line = line + ' # ' + casevar('skip') + sym_str(choose(2), 'sk', alphabet='xy')
        elif d == 2: dname = 'TODO'; line = line + ' # ' + casevar('todo')
        elif d == 3: line = line + ' # ' + sym_str(2, 'dj', alphabet='xy')   # not a directive
        return ('test', ok, num, name, dname), line
    if k == 1:
        n = sym_int('p', 0, 99); d = choose(4); line = '1..' + sym_str_of_int(n, 2); dn = None
        if d == 1: dn = 'SKIP'; line = line + ' # ' + casevar('skip')
        elif d == 2: dn = 'TODO'; line = line + ' # ' + casevar('todo')
        elif d == 3: line = line + ' # xy'
        return ('plan', n, dn), line
    if k == 2:
        v = sym_int('v', 0, 99); return ('version', v), 'TAP version ' + sym_str_of_int(v, 2)
    if k == 3: return ('bail',), 'Bail out! x'
    if k == 4: return ('diag',), '# ' + sym_str(1, 'dg', alphabet='xy 1')
    if k == 5:
        ind = sym_str(1 + choose(2), 'ind', alphabet=' \t'); return ('yamlstart', ind), ind + '---'
    if k == 6: return ('yamlend',), sym_str(1, 'ind', alphabet=' \t') + '...'
    if k == 7: return ('blank',), ''
    if k == 8:
        ind = sym_str(1 + choose(2), 'bi', alphabet=' \t'); return ('yamlbody', ind), ind + 'k: v'
    return ('junk',), 'xyzzy'

class Ref:
    MAIN, AFTER, YAML = 1, 2, 3
    def __init__(self, p):
        # abstract copy of the implementation state
        self.mode = p.state; self.version = p.version
        self.plan = None if p.plan is None else (p.plan.num_tests, p.plan.late)
        self.num = p.num_tests; self.last = p.last_test; self.high = p.highest_test
        self.flt = p.found_late_test; self.bailed = p.bailed_out; self.lineno = p.lineno; self.yind = p.yaml_indent
    def step(self, form, line):
        ev = []
        self.lineno = self.lineno + 1
        kind = form[0]
        if self.mode == Ref.AFTER:
            if bool(self.version >= 13) and kind == 'yamlstart':
                self.mode = Ref.YAML; self.yind = form[1]; return ev
            self.mode = Ref.MAIN
        elif self.mode == Ref.YAML:
            if kind == 'yamlend': self.mode = Ref.MAIN; return ev
            from sx.instr import sx_meth
            if bool(sx_meth(line, 'startswith', self.yind)): return ev
            ev.append(('error',)); self.mode = Ref.MAIN
        if kind in ('blank', 'diag'): return ev
        if kind == 'test':
            _, ok, num, name, dname = form
            if self.plan is not None and bool(self.plan[1]) and not bool(self.flt):
                ev.append(('error',)); self.flt = True
            self.num = self.num + 1
            self.last = num if num is not None else self.last + 1
            if bool(self.last > self.high): self.high = self.last
            if self.plan is not None and bool(self.last > self.plan[0]): ev.append(('error',))
            if dname == 'SKIP' and ok: res = TestResult.SKIP
            elif dname == 'TODO': res = TestResult.UNEXPECTEDPASS if ok else TestResult.EXPECTEDFAIL
            else: res = TestResult.OK if ok else TestResult.FAIL
            ev.append(('test', self.last, name, res))
            self.mode = Ref.AFTER
            return ev
        if kind == 'plan':
            _, n, dn = form
            if self.plan is not None: ev.append(('error',)); return ev
            if dn == 'SKIP':
                if bool(n > 0): ev.append(('error',))
            elif dn == 'TODO': ev.append(('error',))
            self.plan = (n, bool(self.num > 0)); ev.append(('plan', n)); return ev
        if kind == 'bail': ev.append(('bail',)); self.bailed = True; return ev
        if kind == 'version':
            if bool(self.lineno != 1): ev.append(('error',)); return ev
            self.version = form[1]
            ev.append(('error',) if bool(form[1] < 13) else ('version', form[1])); return ev
        ev.append(('unknown',)); return ev
    def end(self):
        ev = []
        if self.mode == Ref.YAML: ev.append(('error',))
        if bool(self.bailed): return ev
        if self.plan is not None and bool(self.num != self.plan[0]): ev.append(('error',)); return ev
        if bool(self.high != self.num): ev.append(('error',))
        return ev

def abstract(events):
    out = []
    for e in events:
        if isinstance(e, TAPParser.Test): out.append(('test', e.number, e.name, e.result))
        elif isinstance(e, TAPParser.Plan): out.append(('plan', e.num_tests))
        elif isinstance(e, TAPParser.Error): out.append(('error',))
        elif isinstance(e, TAPParser.Bailout): out.append(('bail',))
        elif isinstance(e, TAPParser.Version): out.append(('version', e.version))
        elif isinstance(e, TAPParser.UnknownLine): out.append(('unknown',))
    return out

def same(a, b):
    if len(a) != len(b): return False
    for x, y in zip(a, b):
        if x[0] != y[0] or len(x) != len(y): return False
        for u, v in zip(x[1:], y[1:]):
            if u is v: continue
            r = (u == v)
            if not bool(r): return False
    return True

from p_c18s import mkstate
def h_step():
    p = mkstate()
    ref = Ref(p)
    eof = choose(2, 'eof') == 1
    if eof:
        got = abstract(list(p.parse_line(None))); exp = ref.end()
    else:
        form, line = mkform()
        got = abstract(list(p.parse_line(line))); exp = ref.step(form, line)
    check(same(got, exp), 'events form=%s got=%s exp=%s' % ((form[0] if not eof else 'EOF'), [g[0] for g in got], [e[0] for e in exp]))
    if not eof:
        check(p.state == ref.mode, 'mode'); check(p.num_tests == ref.num, 'num'); check(p.last_test == ref.last, 'last')
        check(p.highest_test == ref.high, 'high'); check(p.bailed_out == ref.bailed if not isinstance(ref.bailed, bool) or not isinstance(p.bailed_out, bool) else p.bailed_out == ref.bailed, 'bailed')
    cover('done')

if __name__ == '__main__':
    st = core.explore(h_step, max_paths=80000)
    print('step paths', st['paths'], 'viol', len(st['violations']), 'errors', len(st['errors']), st['labels'], 'time %.1f' % st['time'], st.get('truncated'), flush=True)
    for e in st['errors'][:3]: print('   ', e[:2])
    seen = set()
    for v in st['violations']:
        if v[0] in seen: continue
        seen.add(v[0]); print('   V', v[0], str(v[1]).replace('\n', ' ')[:260])
        if len(seen) > 12: break
