"""symx values: SymBool, SymInt, SymStr (concrete length, symbolic characters), SymEnum.

Nothing here subclasses int/str: a proxy that reaches C code raises TypeError instead of being
silently concretised."""
from . import core
from . import terms as T
from .core import branch, Unsupported, PathAbort


# ------------------------------------------------------------------ helpers
def is_sym(x):
    return isinstance(x, (SymBool, SymInt, SymStr, SymEnum))


def mkbool(t):
    if t is True or t is False:
        return t
    return SymBool(t)


def mkint(t):
    if isinstance(t, int):
        return t
    return SymInt(t)


def bt(x):
    """python bool / SymBool -> Boolean term"""
    if isinstance(x, SymBool):
        return x.t
    if isinstance(x, bool):
        return x
    raise Unsupported('bt(%r)' % type(x))


def it(x):
    """-> integer term or None"""
    if isinstance(x, SymInt):
        return x.t
    if isinstance(x, bool):
        return int(x)
    if isinstance(x, int):
        return x
    if isinstance(x, SymBool):
        return T.iite(x.t, 1, 0)
    return None


class SymBool:
    __slots__ = ('t',)

    def __init__(self, t): self.t = t
    def __bool__(self): return branch(self.t)
    def __and__(self, o): return mkbool(T.band([self.t, bt(o)]))
    __rand__ = __and__
    def __or__(self, o): return mkbool(T.bor([self.t, bt(o)]))
    __ror__ = __or__
    def __xor__(self, o): return mkbool(T.bxor(self.t, bt(o)))
    __rxor__ = __xor__
    def __invert__(self): raise Unsupported('~SymBool')

    def __eq__(self, o):
        if isinstance(o, (bool, SymBool)): return mkbool(T.biff(self.t, bt(o)))
        if isinstance(o, (int, SymInt)): return mkint(it(self)) == o
        return False

    def __ne__(self, o):
        return sym_not(self.__eq__(o))

    def __hash__(self): return hash(bool(branch(self.t)))
    def __int__(self): return 1 if branch(self.t) else 0
    def __index__(self): return self.__int__()
    def __add__(self, o): return mkint(it(self)) + o
    __radd__ = __add__
    def __repr__(self): return 'SymBool(%s)' % T.show(self.t)
    def __deepcopy__(self, memo): return self
    def __copy__(self): return self
    def __reduce__(self): raise Unsupported('pickle SymBool')


def sym_not(x):
    if isinstance(x, SymBool):
        return mkbool(T.bnot(x.t))
    return not x


def sym_and(*xs):
    """non-forking conjunction of python bools / SymBools"""
    return mkbool(T.band([bt_any(x) for x in xs]))


def sym_or(*xs):
    return mkbool(T.bor([bt_any(x) for x in xs]))


def sym_implies(a, b):
    return mkbool(T.bor([T.bnot(bt_any(a)), bt_any(b)]))


def sym_ite(c, a, b):
    """integer / boolean if-then-else without forking"""
    ct = bt_any(c)
    if ct is True: return a
    if ct is False: return b
    if isinstance(a, (bool, SymBool)) and isinstance(b, (bool, SymBool)):
        return mkbool(T.bite(ct, bt(a), bt(b)))
    ta, tb = it(a), it(b)
    if ta is None or tb is None:
        raise Unsupported('sym_ite on %r/%r' % (type(a), type(b)))
    return mkint(T.iite(ct, ta, tb))


class SymInt:
    __slots__ = ('t', 'inv')

    def __init__(self, t): self.t = t; self.inv = None

    def __eq__(self, o):
        t = it(o)
        return False if t is None else mkbool(T.ieq(self.t, t))

    def __ne__(self, o):
        t = it(o)
        return True if t is None else mkbool(T.bnot(T.ieq(self.t, t)))

    def __lt__(self, o):
        t = it(o)
        return NotImplemented if t is None else mkbool(T.ilt(self.t, t))

    def __le__(self, o):
        t = it(o)
        return NotImplemented if t is None else mkbool(T.ile(self.t, t))

    def __gt__(self, o):
        t = it(o)
        return NotImplemented if t is None else mkbool(T.ilt(t, self.t))

    def __ge__(self, o):
        t = it(o)
        return NotImplemented if t is None else mkbool(T.ile(t, self.t))

    def __add__(self, o):
        t = it(o)
        return NotImplemented if t is None else mkint(T.iadd(self.t, t))
    __radd__ = __add__

    def __sub__(self, o):
        t = it(o)
        return NotImplemented if t is None else mkint(T.isub(self.t, t))

    def __rsub__(self, o):
        t = it(o)
        return NotImplemented if t is None else mkint(T.isub(t, self.t))

    def __neg__(self): return mkint(T.ineg(self.t))
    def __pos__(self): return self
    def __abs__(self): return mkint(T.iite(T.ile(0, self.t), self.t, T.ineg(self.t)))

    def __mul__(self, o):
        if isinstance(o, (SymInt, SymBool)):
            o = concretize_int(o)
        if isinstance(o, (str, SymStr, list, tuple)):
            return o * concretize_int(self)
        if not isinstance(o, int):
            return NotImplemented
        return mkint(T.imulc(self.t, int(o)))
    __rmul__ = __mul__

    def _divmod(self, o):
        # floor semantics; the divisor is forked to a concrete value (non-linear otherwise)
        d = concretize_int(o) if isinstance(o, (SymInt, SymBool)) else o
        if not isinstance(d, int):
            return None
        if d == 0:
            raise ZeroDivisionError('integer division or modulo by zero')
        c = core.ctx()
        q = c.new_ivar('q'); r = c.new_ivar('r')
        core.constrain(T.ieq(self.t, T.iadd(T.imulc(q, d), r)))
        if d > 0:
            core.constrain(T.ile(0, r)); core.constrain(T.ilt(r, d))
        else:
            core.constrain(T.ile(r, 0)); core.constrain(T.ilt(d, r))
        return mkint(q), mkint(r)

    def __floordiv__(self, o):
        r = self._divmod(o)
        return NotImplemented if r is None else r[0]

    def __mod__(self, o):
        r = self._divmod(o)
        return NotImplemented if r is None else r[1]

    def __divmod__(self, o):
        r = self._divmod(o)
        return NotImplemented if r is None else r

    def __rfloordiv__(self, o):
        return o // concretize_int(self)

    def __rmod__(self, o):
        if isinstance(o, (str, SymStr)):
            return NotImplemented
        return o % concretize_int(self)

    def __truediv__(self, o): raise Unsupported('true division of a symbolic int (float)')
    __rtruediv__ = __truediv__
    def __pow__(self, o): return concretize_int(self) ** (concretize_int(o) if isinstance(o, SymInt) else o)
    def __and__(self, o): return _bitop(self, o, 'and')
    __rand__ = __and__
    def __or__(self, o): return _bitop(self, o, 'or')
    __ror__ = __or__
    def __invert__(self):
        r = SymInt(T.isub(-1, self.t)); r.inv = self      # remembered so that  x & ~y  can be computed as  x - (x & y)
        return r
    def __bool__(self): return branch(T.bnot(T.ieq(self.t, 0)))
    def __hash__(self): return hash(concretize_int(self, 1100))      # forks over the feasible values (small domains only)
    def __index__(self): return concretize_int(self)
    def __int__(self): return concretize_int(self)
    def __float__(self): raise Unsupported('float(SymInt)')
    def __repr__(self): return 'SymInt(%s)' % T.show(self.t)
    def __deepcopy__(self, memo): return self
    def __copy__(self): return self
    def __reduce__(self): raise Unsupported('pickle SymInt')


def _bits(x, nbits):
    """decompose a (non-negative, < 2**nbits) symbolic int into bit terms (each 0/1 int term)"""
    if isinstance(x, int):
        return [(x >> i) & 1 for i in range(nbits)]
    c = core.ctx()
    bs = []
    acc = 0
    for i in range(nbits):
        b = c.new_ivar('bit')
        core.constrain(T.ile(0, b)); core.constrain(T.ile(b, 1))
        bs.append(b)
        acc = T.iadd(acc, T.imulc(b, 1 << i))
    core.constrain(T.ieq(x.t, acc))
    return bs


BITS = 12   # width of bitwise operations on symbolic ints (permission masks); values are assumed in range


def _bitop(a, b, op):
    ta, tb = a, b
    if isinstance(ta, SymBool): ta = mkint(it(ta))
    if isinstance(tb, SymBool): tb = mkint(it(tb))
    if not isinstance(ta, (int, SymInt)) or not isinstance(tb, (int, SymInt)):
        return NotImplemented
    if op == 'and':
        for x, y in ((ta, tb), (tb, ta)):
            if isinstance(x, SymInt) and getattr(x, 'inv', None) is not None:
                return y - _bitop(y, x.inv, 'and')
    for x in (ta, tb):
        if isinstance(x, int):
            if x < 0:
                # ~mask pattern: a & ~m  ==  a - (a & m)
                if op == 'and':
                    other = tb if x is ta else ta
                    return other - _bitop(other, ~x, 'and')
                raise Unsupported('bitwise op with negative constant')
            if x >= (1 << BITS): raise Unsupported('bitwise op wider than %d bits' % BITS)
        else:
            if branch(T.bor([T.ilt(x.t, 0), T.ile(1 << BITS, x.t)])):
                raise Unsupported('bitwise op on a symbolic int outside 0..2^%d' % BITS)
    ba, bb = _bits(ta, BITS), _bits(tb, BITS)
    acc = 0
    for i in range(BITS):
        x, y = ba[i], bb[i]
        if isinstance(x, int) and isinstance(y, int):
            bit = (x & y) if op == 'and' else (x | y)
        elif isinstance(x, int):
            bit = (y if x else 0) if op == 'and' else (1 if x else y)
        elif isinstance(y, int):
            bit = (x if y else 0) if op == 'and' else (1 if y else x)
        else:
            both = T.band([T.ieq(x, 1), T.ieq(y, 1)])
            either = T.bor([T.ieq(x, 1), T.ieq(y, 1)])
            bit = T.iite(both if op == 'and' else either, 1, 0)
        acc = T.iadd(acc, T.imulc(bit, 1 << i) if not isinstance(bit, int) else bit << i)
    return mkint(acc)


def concretize_int(x, limit=64):
    """fork over the feasible values of x (must be a small domain under the path condition)"""
    if isinstance(x, SymBool):
        return 1 if branch(x.t) else 0
    if not isinstance(x, SymInt):
        return int(x)
    c = core.ctx()
    tried = []
    for _ in range(limit):
        t0 = T._subst(x.t)
        if isinstance(t0, int):
            return t0            # (by now) determined by the path condition: no decision to take
        v = None
        rec = core.peek_decision()      # replaying: the candidate value is part of the recorded decision ...
        if rec is not None and rec[1] is not None:
            cand = T.ieq(x.t, rec[1])
            # ... but only if the next recorded decision IS this comparison: when the original run found the value determined here (the
            # comparison folded to a constant, no decision was recorded) the next entry belongs to a later concretisation
            if cand is not True and cand is not False and cand.h == rec[0]:
                v = rec[1]
        if v is None:
            v = T.ev(x.t, c.need_model())
            if v in tried:
                # the cached model proposes a value this path has already excluded: it is stale (it was computed before a later
                # constraint was added) - ask the solver for a model of the current path condition instead of looping on it
                c.model = None
                v = T.ev(x.t, c.need_model())
                if v in tried:
                    raise Unsupported('concretize_int: solver model repeats the excluded value %r (tried %r)' % (v, tried))
        tried.append(v)
        if branch(T.ieq(x.t, v), aux=v):
            return v
    raise Unsupported('concretize_int: domain larger than %d (tried %r ...)' % (limit, tried[:8]))


# ------------------------------------------------------------------ characters
def ceq(a, b):
    if isinstance(a, int) and isinstance(b, int):
        return a == b
    return T.ieq(a, b)


def cin_range(ch, lo, hi):
    if isinstance(ch, int):
        return lo <= ch <= hi
    return T.band([T.ile(lo, ch), T.ile(ch, hi)])


def zor(xs): return T.bor(list(xs))
def zand(xs): return T.band(list(xs))
def znot(x): return T.bnot(x)


def decide(x):
    """python bool or Boolean term or SymBool -> python bool (forking)"""
    if x is True or x is False: return x
    if isinstance(x, SymBool): return branch(x.t)
    return branch(x)


SPACE = (9, 10, 11, 12, 13, 28, 29, 30, 31, 32)


def c_isspace(ch):
    if isinstance(ch, int): return ch in SPACE
    return zor([cin_range(ch, 9, 13), cin_range(ch, 28, 32)])


def c_isdigit(ch): return cin_range(ch, 48, 57)
def c_isupper(ch): return cin_range(ch, 65, 90)
def c_islower(ch): return cin_range(ch, 97, 122)
def c_isalpha(ch): return zor([c_isupper(ch), c_islower(ch)])
def c_isalnum(ch): return zor([c_isalpha(ch), c_isdigit(ch)])
def c_isword(ch): return zor([c_isalnum(ch), ceq(ch, 95)])


# ---- the same classes as CPython's str methods / unicode regex categories see them, exact for code points 0..255 (computed from CPython itself)
def _cls(pred): return ''.join(chr(i) for i in range(256) if pred(chr(i)))
_U = dict(alpha=_cls(str.isalpha), alnum=_cls(str.isalnum), digit=_cls(str.isdigit), decimal=_cls(str.isdecimal), numeric=_cls(str.isnumeric),
          space=_cls(str.isspace), upper=_cls(str.isupper), lower=_cls(str.islower))
def u_isalpha(ch): return c_in(ch, _U['alpha'])
def u_isalnum(ch): return c_in(ch, _U['alnum'])
def u_isdigit(ch): return c_in(ch, _U['digit'])
def u_isdecimal(ch): return c_in(ch, _U['decimal'])
def u_isnumeric(ch): return c_in(ch, _U['numeric'])
def u_isspace(ch): return c_in(ch, _U['space'])
def u_isupper(ch): return c_in(ch, _U['upper'])
def u_islower(ch): return c_in(ch, _U['lower'])
def u_isword(ch): return zor([u_isalnum(ch), ceq(ch, 95)])


def _ascii_only(ch, what):
    """case mapping is modelled for ASCII only: a character that may be >= 128 makes the path inconclusive instead of being mapped wrongly"""
    if isinstance(ch, int):
        if ch >= 128 and (chr(ch).upper() != chr(ch) or chr(ch).lower() != chr(ch)): raise Unsupported(what + ' of a non-ASCII cased character')
        return
    if T.simplify_under(cin_range(ch, 0, 127)) is True: return
    if decide(cin_range(ch, 128, 255)) and decide(zor([u_isupper(ch), u_islower(ch)])): raise Unsupported(what + ' of a non-ASCII cased character')


def c_in(ch, chars):
    """one predicate for membership of a character in a set of characters (given as a str);
    consecutive code points are merged into ranges"""
    codes = sorted(set(ord(x) for x in chars))
    if isinstance(ch, int):
        return ch in codes
    runs = []
    for c in codes:
        if runs and runs[-1][1] == c - 1: runs[-1][1] = c
        else: runs.append([c, c])
    return zor([ceq(ch, a) if a == b else cin_range(ch, a, b) for a, b in runs])


def chars_of(x):
    if isinstance(x, SymStr): return x.c
    if isinstance(x, str): return [ord(ch) for ch in x]
    return None


def mkstr(chars):
    out = list(chars)
    for ch in out:
        if not isinstance(ch, int):
            return SymStr(out)
    return ''.join(map(chr, out))


class SymStr:
    __slots__ = ('c',)

    def __init__(self, chars): self.c = list(chars)
    def __len__(self): return len(self.c)
    def __bool__(self): return len(self.c) > 0

    def __iter__(self):
        for ch in self.c:
            yield mkstr([ch])

    def __getitem__(self, i):
        if isinstance(i, slice):
            st = [concretize_int(v) if isinstance(v, SymInt) else v for v in (i.start, i.stop, i.step)]
            return mkstr(self.c[slice(*st)])
        if isinstance(i, SymInt): i = concretize_int(i)
        return mkstr([self.c[i]])

    def __add__(self, o):
        oc = chars_of(o)
        if oc is None: return NotImplemented
        return mkstr(self.c + oc)

    def __radd__(self, o):
        oc = chars_of(o)
        if oc is None: return NotImplemented
        return mkstr(oc + self.c)

    def __mul__(self, n):
        if isinstance(n, SymInt): n = concretize_int(n)
        return mkstr(self.c * n)
    __rmul__ = __mul__

    def __mod__(self, args):
        raise Unsupported('symbolic format string %')

    def __eq__(self, o):
        oc = chars_of(o)
        if oc is None or len(oc) != len(self.c): return False
        return mkbool(zand([ceq(a, b) for a, b in zip(self.c, oc)]))

    def __ne__(self, o):
        return sym_not(self.__eq__(o))

    @staticmethod
    def _lt(a, b, strict):
        n = min(len(a), len(b))
        res = (len(a) < len(b)) if strict else (len(a) <= len(b))
        for i in reversed(range(n)):
            x, y = a[i], b[i]
            lt = T.ilt(x, y) if not (isinstance(x, int) and isinstance(y, int)) else x < y
            eq = ceq(x, y)
            res = T.bor([lt, T.band([eq, res])])
        return mkbool(res)

    def __lt__(self, o):
        oc = chars_of(o)
        if oc is None: return NotImplemented
        return self._lt(self.c, oc, True)

    def __le__(self, o):
        oc = chars_of(o)
        if oc is None: return NotImplemented
        return self._lt(self.c, oc, False)

    def __gt__(self, o):
        oc = chars_of(o)
        if oc is None: return NotImplemented
        return self._lt(oc, self.c, True)

    def __ge__(self, o):
        oc = chars_of(o)
        if oc is None: return NotImplemented
        return self._lt(oc, self.c, False)

    def __hash__(self): return hash(''.join(chr(concretize_int(mkint(c), 130)) for c in self.c))     # forks over the feasible values
    def __repr__(self): return 'SymStr<%d>' % len(self.c)

    def __str__(self):
        core.ctx().taint = True
        return '' * len(self.c)

    def __format__(self, spec):
        core.ctx().taint = True
        return format('' * len(self.c), spec)

    def __deepcopy__(self, memo): return self
    def __copy__(self): return self
    def __reduce__(self): raise Unsupported('pickle SymStr')

    def __contains__(self, sub):
        return decide(self._contains(sub))

    def _match_at(self, i, oc):
        if i < 0 or i + len(oc) > len(self.c): return False
        return zand([ceq(self.c[i + k], oc[k]) for k in range(len(oc))])

    def _contains(self, sub):
        oc = chars_of(sub)
        if oc is None: raise TypeError("'in <string>' requires string as left operand")
        return zor([self._match_at(i, oc) for i in range(len(self.c) - len(oc) + 1)])

    def startswith(self, p, start=0):
        if isinstance(p, tuple):
            return mkbool(zor([bt_any(self.startswith(x, start)) for x in p]))
        return mkbool(self._match_at(start, chars_of(p)))

    def endswith(self, p):
        if isinstance(p, tuple):
            return mkbool(zor([bt_any(self.endswith(x)) for x in p]))
        oc = chars_of(p)
        return mkbool(self._match_at(len(self.c) - len(oc), oc))

    def _norm(self, start, end):
        n = len(self.c)
        if start is None: start = 0
        if end is None: end = n
        if start < 0: start = max(0, n + start)
        if end < 0: end = max(0, n + end)
        return start, min(end, n)

    def find(self, sub, start=None, end=None):
        oc = chars_of(sub)
        start, end = self._norm(start, end)
        for i in range(start, end - len(oc) + 1):
            if decide(self._match_at(i, oc)):
                return i
        return -1

    def rfind(self, sub, start=None, end=None):
        oc = chars_of(sub)
        start, end = self._norm(start, end)
        for i in reversed(range(start, end - len(oc) + 1)):
            if decide(self._match_at(i, oc)):
                return i
        return -1

    def index(self, sub, start=None, end=None):
        r = self.find(sub, start, end)
        if r < 0: raise ValueError('substring not found')
        return r

    def rindex(self, sub, start=None, end=None):
        r = self.rfind(sub, start, end)
        if r < 0: raise ValueError('substring not found')
        return r

    def count(self, sub):
        oc = chars_of(sub); n = 0; i = 0
        if not oc: return len(self.c) + 1
        while i <= len(self.c) - len(oc):
            if decide(self._match_at(i, oc)):
                n += 1; i += len(oc)
            else:
                i += 1
        return n

    def replace(self, old, new, count=-1):
        oc = chars_of(old); nc = chars_of(new)
        if not oc: raise Unsupported('replace of the empty string')
        out = []; i = 0; done = 0
        while i < len(self.c):
            if (count < 0 or done < count) and decide(self._match_at(i, oc)):
                out.extend(nc); i += len(oc); done += 1
            else:
                out.append(self.c[i]); i += 1
        return mkstr(out)

    @staticmethod
    def _strip_pred(chars):
        if chars is None:
            return c_isspace
        cs = chars_of(chars)
        if all(isinstance(x, int) for x in cs):
            s = ''.join(map(chr, cs))
            return lambda ch: c_in(ch, s)
        return lambda ch: zor([ceq(ch, x) for x in cs])

    def lstrip(self, chars=None):
        p = self._strip_pred(chars); i = 0
        while i < len(self.c) and decide(p(self.c[i])): i += 1
        return mkstr(self.c[i:])

    def rstrip(self, chars=None):
        p = self._strip_pred(chars); j = len(self.c)
        while j > 0 and decide(p(self.c[j - 1])): j -= 1
        return mkstr(self.c[:j])

    def strip(self, chars=None):
        r = self.lstrip(chars)
        if isinstance(r, str) and isinstance(chars, SymStr): r = SymStr(chars_of(r))
        return r.rstrip(chars)

    def removeprefix(self, p):
        if decide(bt_any(self.startswith(p))): return mkstr(self.c[len(p):])
        return self

    def removesuffix(self, p):
        if len(p) and decide(bt_any(self.endswith(p))): return mkstr(self.c[:len(self.c) - len(p)])
        return self

    def split(self, sep=None, maxsplit=-1):
        out = []
        L = len(self.c)
        if sep is None:
            i = 0; n = 0
            while True:
                while i < L and decide(c_isspace(self.c[i])): i += 1
                if i >= L: break
                if maxsplit >= 0 and n >= maxsplit:
                    rest = mkstr(self.c[i:])
                    out.append(rest.rstrip() if isinstance(rest, SymStr) else rest.rstrip())
                    break
                j = i
                while j < L and not decide(c_isspace(self.c[j])): j += 1
                out.append(mkstr(self.c[i:j])); n += 1; i = j
            return out
        sc = chars_of(sep)
        if not sc: raise ValueError('empty separator')
        cur = []; i = 0; n = 0
        while i < L:
            if (maxsplit < 0 or n < maxsplit) and decide(self._match_at(i, sc)):
                out.append(mkstr(cur)); cur = []; i += len(sc); n += 1
            else:
                cur.append(self.c[i]); i += 1
        out.append(mkstr(cur))
        return out

    def rsplit(self, sep=None, maxsplit=-1):
        if maxsplit < 0: return self.split(sep)
        if sep is None: raise Unsupported('rsplit(None, n)')
        sc = chars_of(sep); L = len(self.c)
        out = []; end = L; i = L - len(sc); n = 0
        while i >= 0 and n < maxsplit:
            if decide(self._match_at(i, sc)):
                out.append(mkstr(self.c[i + len(sc):end])); end = i; i -= len(sc); n += 1
            else:
                i -= 1
        out.append(mkstr(self.c[:end]))
        out.reverse()
        return out

    def splitlines(self, keepends=False):
        out = []; cur = []; i = 0; L = len(self.c)
        while i < L:
            ch = self.c[i]
            if decide(zor([cin_range(ch, 10, 13), cin_range(ch, 28, 30), ceq(ch, 0x85), ceq(ch, 0x2028), ceq(ch, 0x2029)])):
                end = [ch]
                if i + 1 < L and decide(ceq(ch, 13)) and decide(ceq(self.c[i + 1], 10)):
                    end.append(self.c[i + 1]); i += 1
                out.append(mkstr(cur + end if keepends else cur)); cur = []
            else:
                cur.append(ch)
            i += 1
        if cur: out.append(mkstr(cur))
        return out

    def partition(self, sep):
        i = self.find(sep)
        if i < 0: return (self, '', '')
        return (mkstr(self.c[:i]), sep, mkstr(self.c[i + len(sep):]))

    def rpartition(self, sep):
        i = self.rfind(sep)
        if i < 0: return ('', '', self)
        return (mkstr(self.c[:i]), sep, mkstr(self.c[i + len(sep):]))

    def upper(self):
        for ch in self.c: _ascii_only(ch, 'upper()')
        return mkstr([(ch - 32 if 97 <= ch <= 122 else ch) if isinstance(ch, int) else T.iite(cin_range(ch, 97, 122), T.iadd(ch, -32), ch) for ch in self.c])

    def lower(self):
        for ch in self.c: _ascii_only(ch, 'lower()')
        return mkstr([(ch + 32 if 65 <= ch <= 90 else ch) if isinstance(ch, int) else T.iite(cin_range(ch, 65, 90), T.iadd(ch, 32), ch) for ch in self.c])

    def casefold(self): return self.lower()

    def _all(self, p):
        if not self.c: return False
        return mkbool(zand([p(ch) for ch in self.c]))

    def isspace(self): return self._all(u_isspace)
    def isdigit(self): return self._all(u_isdigit)
    def isdecimal(self): return self._all(u_isdecimal)
    def isnumeric(self): return self._all(u_isnumeric)
    def isalpha(self): return self._all(u_isalpha)
    def isalnum(self): return self._all(u_isalnum)
    def isupper(self):
        if not self.c: return False
        return mkbool(T.band([zand([znot(u_islower(ch)) for ch in self.c]), zor([u_isupper(ch) for ch in self.c])]))
    def islower(self):
        if not self.c: return False
        return mkbool(T.band([zand([znot(u_isupper(ch)) for ch in self.c]), zor([u_islower(ch) for ch in self.c])]))
    def isascii(self): return self._all(lambda ch: cin_range(ch, 0, 127)) if self.c else True

    def isidentifier(self):
        if not self.c: return False
        first = zor([c_isalpha(self.c[0]), ceq(self.c[0], 95)])
        return mkbool(T.band([first] + [c_isword(ch) for ch in self.c[1:]]))

    def translate(self, table):
        out = []
        for ch in self.c:
            done = False
            for k, v in table.items():
                if decide(ceq(ch, k)):
                    if v is None: pass
                    elif isinstance(v, int): out.append(v)
                    else: out.extend(chars_of(v))
                    done = True; break
            if not done: out.append(ch)
        return mkstr(out)

    def join(self, items):
        out = []
        for n, it_ in enumerate(items):
            if n: out.extend(self.c)
            oc = chars_of(it_)
            if oc is None: raise TypeError('sequence item %d: expected str instance' % n)
            out.extend(oc)
        return mkstr(out)

    def format(self, *a, **k): raise Unsupported('symbolic format string')
    def encode(self, *a, **k): return SymBytes(self)
    def expandtabs(self, *a): raise Unsupported('expandtabs')
    def zfill(self, n): raise Unsupported('zfill')

    def ljust(self, n, fill=' '):
        return mkstr(self.c + [ord(fill)] * max(0, n - len(self.c)))

    def rjust(self, n, fill=' '):
        return mkstr([ord(fill)] * max(0, n - len(self.c)) + self.c)

    def title(self): raise Unsupported('title')
    def capitalize(self): raise Unsupported('capitalize')


class SymBytes:
    """result of SymStr.encode(): only good for being decoded again"""
    __slots__ = ('s',)
    def __init__(self, s): self.s = s
    def decode(self, *a, **k): return self.s
    def __len__(self): return len(self.s)


def _hexval(c):
    return T.iite(cin_range(c, 48, 57), T.iadd(c, -48), T.iite(cin_range(c, 97, 102), T.iadd(c, -87), T.iadd(c, -55)))


_SHORT_NAMES = {}


def _short_unicode_names(k):
    """every Unicode character name or alias of exactly k <= 3 characters, by asking unicodedata.lookup for every candidate spelling"""
    if not _SHORT_NAMES:
        import unicodedata, itertools
        al = 'ABCDEFGHIJKLMNOPQRSTUVWXYZ0123456789 -'
        for kk in (1, 2, 3):
            lst = []
            for t in itertools.product(al, repeat=kk):
                nm = ''.join(t)
                try: r = unicodedata.lookup(nm)
                except KeyError: continue
                if len(r) == 1: lst.append((nm, ord(r)))
            _SHORT_NAMES[kk] = lst
    return _SHORT_NAMES[k]


def unicode_escape_decode(s):
    """codecs.decode(bytes, unicode_escape) for ASCII input: single-character escapes, octal, hex 2/4/8 digits"""
    cs = chars_of(s); out = []; i = 0; n = len(cs)
    while i < n:
        c = cs[i]
        if not decide(ceq(c, 92)) or i + 1 >= n:
            out.append(c); i += 1; continue
        d = cs[i + 1]
        if decide(c_in(d, "\\'\"abfnrtv")):
            r = d
            for ch, v in (('a', 7), ('b', 8), ('f', 12), ('n', 10), ('r', 13), ('t', 9), ('v', 11)):
                r = T.iite(ceq(d, ord(ch)), v, r) if not isinstance(d, int) else (v if d == ord(ch) else r)
            out.append(r); i += 2; continue
        if decide(cin_range(d, 48, 55)):
            j = i + 1; v = 0
            while j < n and j < i + 4 and decide(cin_range(cs[j], 48, 55)):
                v = T.iadd(T.imulc(v, 8), T.iadd(cs[j], -48)); j += 1
            out.append(v); i = j; continue
        k = 0
        for ch, w in (('x', 2), ('u', 4), ('U', 8)):
            if decide(ceq(d, ord(ch))): k = w
        if k:
            if i + 2 + k > n: raise UnicodeDecodeError('unicodeescape', b'', i, n, 'truncated escape')
            v = 0
            for j in range(i + 2, i + 2 + k):
                if not decide(zor([cin_range(cs[j], 48, 57), cin_range(cs[j], 97, 102), cin_range(cs[j], 65, 70)])):
                    raise UnicodeDecodeError('unicodeescape', b'', i, n, 'truncated escape')
                v = T.iadd(T.imulc(v, 16), _hexval(cs[j]))
            if k == 8 and decide(T.ilt(0x10FFFF, v)):
                raise UnicodeDecodeError('unicodeescape', b'', i, n, 'illegal Unicode character')
            out.append(v); i += 2 + k; continue
        if decide(ceq(d, ord('N'))):
            # \N{name}: the name runs to the next '}' (CPython: "malformed \N character escape" without braces / with an empty name,
            # "unknown Unicode character name" otherwise). Names of up to 3 characters are modelled exactly (table computed from
            # unicodedata itself, aliases included, case-insensitive); a longer symbolic name is unsupported, a concrete one is looked up.
            if i + 2 >= n or not decide(ceq(cs[i + 2], 123)):
                raise UnicodeDecodeError('unicodeescape', b'', i, n, 'malformed \\N character escape')
            j = i + 3
            while j < n and not decide(ceq(cs[j], 125)): j += 1
            if j >= n or j == i + 3:
                raise UnicodeDecodeError('unicodeescape', b'', i, n, 'malformed \\N character escape')
            name = cs[i + 3:j]
            if all(isinstance(x, int) for x in name):
                import unicodedata
                try: cp = ord(unicodedata.lookup(''.join(map(chr, name))))
                except KeyError: raise UnicodeDecodeError('unicodeescape', b'', i, n, 'unknown Unicode character name')
                out.append(cp); i = j + 1; continue
            if len(name) > 3: raise Unsupported('\\N{...} escape with a symbolic name longer than 3 characters')
            hit = None
            for cand, cp in _short_unicode_names(len(name)):
                if decide(zand([zor([ceq(x, ord(ch)), ceq(x, ord(ch.lower()))]) for x, ch in zip(name, cand)])):
                    hit = cp; break
            if hit is None: raise UnicodeDecodeError('unicodeescape', b'', i, n, 'unknown Unicode character name')
            out.append(hit); i = j + 1; continue
        out.append(c); i += 1       # unknown escape: the backslash stays
    return mkstr(out)


class OpaqueStr:
    """a string whose content the engine does not model (repr() of a symbolic string, used for messages);
    it may be concatenated and passed around, but any attempt to look inside makes the path inconclusive"""
    __slots__ = ('why',)

    def __init__(self, why): self.why = why
    def __add__(self, o): return self
    def __radd__(self, o): return self
    def __mul__(self, n): return self
    __rmul__ = __mul__
    def __mod__(self, a): return self
    def _bad(self, *a, **k): raise Unsupported('content of an unmodelled string inspected (%s)' % self.why)
    __len__ = __eq__ = __ne__ = __lt__ = __gt__ = __le__ = __ge__ = __iter__ = __getitem__ = __contains__ = __bool__ = _bad
    __hash__ = None
    def __str__(self): return '\ufffd'
    def __repr__(self): return 'OpaqueStr(%s)' % self.why
    def __format__(self, spec): return '\ufffd'
    def __deepcopy__(self, memo): return self
    def strip(self, *a): return self
    lstrip = rstrip = lower = upper = replace = format = join = strip


def bt_any(x):
    if isinstance(x, SymBool): return x.t
    if x is True or x is False: return x
    if isinstance(x, T.Term): return x
    return bool(x)


def mkbool_any(x):
    if isinstance(x, bool): return x
    return mkbool(x)


# ------------------------------------------------------------------ conversions
def sym_int_of_str(s, base=10):
    """int(str[, base]) following CPython's grammar for ASCII input; s may be SymStr"""
    if isinstance(s, str):
        return int(s, base)
    cs = list(s.c)
    i, j = 0, len(cs)
    while i < j and decide(c_isspace(cs[i])): i += 1
    while j > i and decide(c_isspace(cs[j - 1])): j -= 1
    cs = cs[i:j]
    neg = False
    if cs and decide(ceq(cs[0], 45)): neg = True; cs = cs[1:]
    elif cs and decide(ceq(cs[0], 43)): cs = cs[1:]
    prefixed = False
    if len(cs) >= 2 and base in (0, 2, 8, 16) and decide(ceq(cs[0], 48)):
        cands = {16: (120, 88), 8: (111, 79), 2: (98, 66)}
        for b, (lo, up) in cands.items():
            if base in (0, b) and decide(zor([ceq(cs[1], lo), ceq(cs[1], up)])):
                base, cs, prefixed = b, cs[2:], True
                break
        else:
            if base == 0:
                # '0' followed by something else: only zeros (and single underscores) are legal
                base = 10
                for ch in cs:
                    if not decide(zor([ceq(ch, 48), ceq(ch, 95)])):
                        raise ValueError('invalid literal for int() with base 0')
    if base == 0: base = 10
    if not cs:
        raise ValueError('invalid literal for int()')
    t = 0
    prev_us = not prefixed   # a leading underscore is illegal unless it follows a base prefix
    ndig = 0
    for k, ch in enumerate(cs):
        if decide(ceq(ch, 95)):
            if prev_us or k == len(cs) - 1: raise ValueError('invalid literal for int()')
            prev_us = True
            continue
        prev_us = False
        if decide(c_isdigit(ch)):
            d = T.iadd(ch, -48)
            if base < 10 and not decide(T.ilt(d, base) if not isinstance(d, int) else d < base):
                raise ValueError('invalid literal for int()')
        elif base > 10 and decide(cin_range(ch, 97, 96 + base - 10)):
            d = T.iadd(ch, -87)
        elif base > 10 and decide(cin_range(ch, 65, 64 + base - 10)):
            d = T.iadd(ch, -55)
        else:
            raise ValueError('invalid literal for int()')
        t = T.iadd(T.imulc(t, base), d)
        ndig += 1
    return mkint(T.ineg(t) if neg else t)


MAXDIGITS = 3


def sym_str_of_int(n, maxdigits=None):
    if isinstance(n, SymBool):
        n = mkint(it(n))
    if not isinstance(n, SymInt):
        return str(n)
    maxdigits = maxdigits or MAXDIGITS
    c = core.ctx()
    neg = branch(T.ilt(n.t, 0))
    a = T.ineg(n.t) if neg else n.t
    for k in range(1, maxdigits + 1):
        lo = 0 if k == 1 else 10 ** (k - 1)
        if branch(T.band([T.ile(lo, a), T.ilt(a, 10 ** k)])):
            ds = [c.new_ivar('d') for _ in range(k)]
            acc = 0
            for i, d in enumerate(ds):
                core.constrain(T.ile(0, d)); core.constrain(T.ile(d, 9))
                acc = T.iadd(acc, T.imulc(d, 10 ** (k - 1 - i)))
            core.constrain(T.ieq(a, acc))
            chars = [T.iadd(d, 48) for d in ds]
            return mkstr(([45] if neg else []) + chars)
    raise PathAbort('str(int): more than %d digits is outside the stated bound' % maxdigits)


# ------------------------------------------------------------------ enum
class SymEnum:
    """a symbolic choice among a concrete list of distinct strings; tests against constants become
    index constraints, so code that only *tests* the value forks two ways, not len(values) ways"""
    __slots__ = ('vals', 'i')

    def __init__(self, vals, i):
        self.vals = list(vals); self.i = i     # i: SymInt or int

    def _idx_of(self, s):
        try: return self.vals.index(s)
        except ValueError: return None

    def concretize(self):
        if isinstance(self.i, int): return self.vals[self.i]
        return self.vals[concretize_int(self.i)]

    def __eq__(self, o):
        if isinstance(o, SymEnum):
            if o.vals == self.vals: return self.i == o.i
            return self.concretize() == o
        if isinstance(o, str):
            k = self._idx_of(o)
            if k is None: return False
            return self.i == k
        if isinstance(o, SymStr): return self.concretize() == o
        return False

    def __ne__(self, o): return sym_not(self.__eq__(o))
    def __hash__(self): raise Unsupported('hash(SymEnum)')
    def __repr__(self): return 'SymEnum(%r)' % (self.vals,)
    def __len__(self): return len(self.concretize())
    def __bool__(self):
        r = sym_or(*[self.i == k for k, v in enumerate(self.vals) if v])
        return decide(bt_any(r))
    def __deepcopy__(self, memo): return self
    def __copy__(self): return self

    def pred(self, f):
        """SymBool: f(value) for the chosen value, f a concrete predicate on str"""
        ks = [k for k, v in enumerate(self.vals) if f(v)]
        if len(ks) == len(self.vals): return True
        return sym_or(*[self.i == k for k in ks])

    # protocol used by the instrumentation shims
    def __sx_in__(self, c):
        if isinstance(c, (str, SymStr)):
            return self.concretize() in c
        try:
            return decide(bt_any(self.pred(lambda v: v in c)))
        except TypeError:
            return self.concretize() in c

    def __sx_contains__(self, x):
        if isinstance(x, str):
            return decide(bt_any(self.pred(lambda v: x in v)))
        return x in self.concretize()

    def __sx_key__(self, o):
        return o[self.concretize()]

    def __sx_isinstance__(self, Tp):
        return Tp is str or Tp is object

    def __sx_str__(self):
        return self.concretize()

    def __getattr__(self, name):
        # any str method: concretize (forks over the feasible values)
        if name.startswith('__'): raise AttributeError(name)
        return getattr(self.concretize(), name)

    def __add__(self, o): return self.concretize() + o
    def __radd__(self, o): return o + self.concretize()
    def __getitem__(self, i): return self.concretize()[i]
    def __iter__(self): return iter(self.concretize())
    def __lt__(self, o): return self.concretize() < (o.concretize() if isinstance(o, SymEnum) else o)
    def __gt__(self, o): return self.concretize() > (o.concretize() if isinstance(o, SymEnum) else o)
    def __le__(self, o): return self.concretize() <= (o.concretize() if isinstance(o, SymEnum) else o)
    def __ge__(self, o): return self.concretize() >= (o.concretize() if isinstance(o, SymEnum) else o)


# ------------------------------------------------------------------ input constructors
def sym_int(name='i', lo=None, hi=None):
    c = core.ctx()
    if c.concrete:
        return c.next_input('int', name)
    default = 0
    if lo is not None and default < lo: default = lo
    if hi is not None and default > hi: default = hi
    v = c.new_ivar(name, default)
    if lo is not None: c.add(T.ile(lo, v))
    if hi is not None: c.add(T.ile(v, hi))
    c.inputs.append(('int', name, v))
    return SymInt(v)


def sym_bool(name='b'):
    c = core.ctx()
    if c.concrete:
        return c.next_input('bool', name)
    v = c.new_bvar(name)
    c.inputs.append(('bool', name, v))
    return SymBool(v)


def sym_str(n, name='s', lo=1, hi=126, alphabet=None, exclude=''):
    """a string of exactly n characters, each in lo..hi or in `alphabet`, none in `exclude`"""
    c = core.ctx()
    if c.concrete:
        return c.next_input('str', name)
    chars = []
    if alphabet is not None:
        codes = sorted(set(ord(a) for a in alphabet) - set(ord(a) for a in exclude))
    else:
        codes = None
        ex = sorted(set(ord(a) for a in exclude if lo <= ord(a) <= hi))
        default = lo
        while default in ex: default += 1
    for i in range(n):
        if codes is not None:
            v = c.new_ivar(name, codes[0])
            c.add(c_in(v, ''.join(map(chr, codes))))
        else:
            v = c.new_ivar(name, default)
            c.add(T.ile(lo, v)); c.add(T.ile(v, hi))
            for e in ex: c.add(T.bnot(T.ieq(v, e)))
        chars.append(v)
    c.inputs.append(('str', name, chars))
    return SymStr(chars) if n else ''


def sym_enum(vals, name='e'):
    c = core.ctx()
    vals = list(vals)
    if c.concrete:
        return c.next_input('enum', name)
    if len(vals) == 1:
        c.inputs.append(('enum', name, (vals, 0)))
        return vals[0]
    v = c.new_ivar(name, 0)
    c.add(T.ile(0, v)); c.add(T.ile(v, len(vals) - 1))
    c.inputs.append(('enum', name, (vals, v)))
    return SymEnum(vals, SymInt(v))


def concrete_of(x, m):
    """evaluate a (possibly symbolic / nested) value under a model"""
    if isinstance(x, SymStr): return ''.join(chr(T.ev(ch, m)) for ch in x.c)
    if isinstance(x, SymInt): return T.ev(x.t, m)
    if isinstance(x, SymBool): return bool(T.ev(x.t, m))
    if isinstance(x, SymEnum): return x.vals[T.ev(it(x.i), m)]
    if isinstance(x, (list, tuple)): return [concrete_of(y, m) for y in x]
    if isinstance(x, dict): return {str(concrete_of(k, m)): concrete_of(v, m) for k, v in x.items()}
    if hasattr(x, '_items') and hasattr(x, 'add'): return [concrete_of(y, m) for y in x._items]
    if isinstance(x, (str, int, bool, type(None))): return x
    return repr(x)
