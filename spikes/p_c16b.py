import sys, time, re
sys.path.insert(0, __import__('os').path.dirname(__import__('os').path.abspath(__file__))); sys.path.insert(0, '/repo')
from p_c16 import *
from mesonbuild.ast.visitor import AstVisitor

PROGS2 = [
 "x = '''a\\b'''\n",
 "x = '''it's'''\n",
 "x = f'''@a@'''\n",
 "f(a, # c1\n  b) # c2\n",
 "x = [ # c\n]\n",
 "if a # c\n  b = 1 # d\nelse # e\n  b = 2\nendif # f\n",
 "x = a \\\n  + b\n",
 "x = (a and\n b)\n",
 "foo = files('b.c', 'a.c', 'sub/c.c')\n",
 "x = {'a' : 1, # k\n 'b':2}\n",
 "f(a,\n\n\n  b)\n# tail",
 "x = 1 # c\n\n\n\ny = 2\n",
 "x = a.b( c ).d( e : [ 1 , 2 ] , )\n",
 "foreach i , j : d\n continue\nendforeach\n",
 "x = a ? b : c # t\n",
 "x='a'+'''b'''  +  f'c'\n",
]

def comments(text):
    # comment tokens via the real lexer on concrete text only
    from mesonbuild import mparser
    if not isinstance(text, str): return None
    return [t.value for t in mparser.Lexer(text).lex('f') if t.tid == 'comment']

def harness2(src):
    def h():
        cfg = FormatterConfig(
            max_line_length=sym_int('mll', 0, 40),
            indent_by=' ' * (1 + choose(3, 'ind')),
            space_array=sym_bool('sa'), kwargs_force_multiline=sym_bool('kfm'), wide_colon=sym_bool('wc'),
            no_single_comma_function=sym_bool('nscf'), end_of_line='lf', indent_before_comments=' ',
            simplify_string_literals=sym_bool('ssl'), insert_final_newline=sym_bool('ifn'), tab_width=sym_int('tw', 1, 8),
            sort_files=sym_bool('sf'), group_arg_value=sym_bool('gav'), use_editor_config=False)
        f = object.__new__(Formatter)
        f.use_editor_config = False; f.fetch_subdirs = False; f.config = cfg
        out = f.format(src, Path('/x/meson.build'))
        try:
            out2 = f.format(out, Path('/x/meson.build'))
        except MesonException as e:
            check(False, 'formatted output does not parse'); return
        check(out == out2, 'idempotent')
        c1, c2 = comments(src), comments(out)
        if c1 is not None and c2 is not None:
            check([c.strip() for c in c1] == [c.strip() for c in c2], 'comments preserved')
        cover('done')
    return h

if __name__ == '__main__':
    for i, src in enumerate(PROGS2):
        try:
            st = core.explore(harness2(src), max_paths=4000)
        except Exception as e:
            print(i, repr(src), 'EXC', type(e).__name__, e, flush=True); continue
        print(i, repr(src), 'paths', st['paths'], 'viol', len(st['violations']), 'errors', len(st['errors']), 'time %.1f' % st['time'], st.get('truncated'), flush=True)
        for e in st['errors'][:2]: print('   ', e[:2])
        seen = set()
        for v in st['violations']:
            if v[0] in seen: continue
            seen.add(v[0]); print('   V', v[0], str(v[1]).replace('\n', ' ')[:300])
