"""helpers shared by harnesses"""


def quiet_mlog():
    import mesonbuild.mlog as mlog
    noop = lambda *a, **k: None
    for n in ('log', 'debug', 'warning', 'error', 'deprecation', 'notice', 'log_once', 'cmd_ci_include'):
        if hasattr(mlog, n):
            setattr(mlog, n, noop)
    return mlog
