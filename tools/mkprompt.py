import json, sys
pid, tag = sys.argv[1], sys.argv[2]
for l in open('/verif/properties.jsonl'):
    d = json.loads(l)
    if d['id'] == pid: break
wt = '/tmp/wt/%s%s' % (pid, tag)
hint = sys.argv[3] if len(sys.argv) > 3 else ''
print(f"""You are helping evaluate a verification effort by seeding a realistic bug into the Meson build system (Python).

You have your own scratch git worktree of the repository at {wt} (a checkout of mesonbuild/meson at a pinned commit). Work ONLY inside {wt} and {wt}-out (create the latter). Never read or touch /repo, /verif or any other /tmp/wt/* directory.

Here is a semantic property of Meson that is supposed to hold:

TITLE: {d['title']}

STATEMENT: {d['statement']}

QUANTIFIED OVER: {d['quantifier']['text']}

Relevant files (anchors): {', '.join(d['anchors']['files'])}
Mechanisms: {json.dumps(d['anchors'].get('mechanism', []))}

YOUR TASK: make ONE small, realistic change to the mesonbuild/ source in the worktree (the kind of slip a maintainer could plausibly commit in a refactoring or "optimisation") that BREAKS this property, while:
 1. the code still imports/compiles, and
 2. the existing pinned test suite still passes: run  `cd {wt} && /venv/bin/python -m pytest -q -p no:cacheprovider --timeout=900 --continue-on-collection-errors unittests/cargotests.py unittests/optiontests.py unittests/taptests.py unittests/versiontests.py`  (expect 107 passed; other test modules fail to import in this sandbox, ignore them), and
 3. the breakage needs something SPECIFIC to manifest - an unusual input, a particular character/position/length, a multi-step sequence of operations, a particular combination of options/flags, or two cooperating sites that each look fine alone - NOT something that ordinary use would expose at once.
{hint}
Then write a demonstration: a small stand-alone Python script `demo.py` (run as `cd <tree> && /venv/bin/python demo.py` with the tree root on sys.path; it should insert its own cwd into sys.path) that exits 0 on the ORIGINAL tree and exits non-zero (assertion failure) on the CHANGED tree, exercising real meson functions (no mocks of the function under test).

Deliver in {wt}-out/ :
  - patch.diff  (output of `git -C {wt} diff` - the source change only, NOT the demo)
  - demo.py
  - notes.md  (3-8 lines: what the change is, which part of the property it breaks, exactly what is needed for it to manifest, and the output of the test-suite run and of demo.py with and without the change)

Verify all of this yourself before finishing: run the tests with the change, run demo.py with the change (must fail), revert the change with `git diff > ../NAME-out/patch.diff && git apply -R ../NAME-out/patch.diff` (do NOT use git stash: the stash is shared between worktrees) and run demo.py again (must pass), then re-apply with git apply. Leave the worktree with the change applied. There is no network. Do not install anything. Keep the change minimal (a few lines). Report back the content of notes.md.""")
