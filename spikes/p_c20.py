import sys, time
sys.path.insert(0, __import__('os').path.dirname(__import__('os').path.abspath(__file__))); sys.path.insert(0, '/repo')
from sx import instr, core
from sx.values import *
from sx.core import choose, check, cover
instr.install()
from mesonbuild.cargo.version import cargo_parse, SemVer
from mesonbuild.cargo import cfg as ccfg
from mesonbuild.mesonlib import MesonException
import z3

OPS = ['', '^', '~', '=', '<', '<=', '>', '>=']
def ver(name, ncomp):
    comps = [sym_int(name + str(i), 0, 99) for i in range(ncomp)]
    s = ''
    for i, c in enumerate(comps):
        if i: s = s + '.'
        s = s + sym_str_of_int(c, 2)
    return comps, s

def lt3(a, b):
    # lexicographic a < b on 3-tuples of SymInt/int -> SymBool
    return (a[0] < b[0]) | ((a[0] == b[0]) & ((a[1] < b[1]) | ((a[1] == b[1]) & (a[2] < b[2]))))
def le3(a, b): return lt3(a, b) | eq3(a, b)
def eq3(a, b): return (a[0] == b[0]) & (a[1] == b[1]) & (a[2] == b[2])

def ref(op, rc, v):
    n = len(rc)
    r = list(rc) + [0] * (3 - n)
    T = True
    if op in ('', '^'):
        # bump leftmost nonzero *specified* ... meson-pinned: all-zero -> <1.0.0
        lo = r
        # upper bound depends on symbolic zero-ness: build by cases
        z0 = (r[0] == 0); z1 = (r[1] == 0) if n > 1 else True; z2 = (r[2] == 0) if n > 2 else True
        up_major = [r[0] + 1, 0, 0]; up_minor = [r[0], r[1] + 1, 0]; up_patch = [r[0], r[1], r[2] + 1]
        c_major = sym_not(z0) if not isinstance(z0, bool) else (not z0)
        res_major = lt3(v, up_major)
        res_minor = lt3(v, up_minor)
        res_patch = lt3(v, up_patch)
        allzero = z0 & z1 & z2 if not isinstance(z0, bool) else (z0 and z1 and z2)
        # if r0 != 0: major; elif r1 != 0: minor; elif r2 != 0: patch; else (<1.0.0): major bump of 0
        if bool(r[0] != 0): ub = res_major
        elif n > 1 and bool(r[1] != 0): ub = res_minor
        elif n > 2 and bool(r[2] != 0): ub = res_patch
        else: ub = lt3(v, [1, 0, 0])
        return le3(lo, v) & ub
    if op == '~':
        ub = lt3(v, [r[0], r[1] + 1, 0]) if n >= 2 else lt3(v, [r[0] + 1, 0, 0])
        return le3(r, v) & ub
    if op == '=': return eq3(v, r)
    if op == '<': return lt3(v, r)
    if op == '>': return lt3(r, v)
    if op == '>=': return le3(r, v)
    if op == '<=':
        b = list(r); b[n - 1] = b[n - 1] + 1
        return lt3(v, b)

def harness(opi, nr, nv):
    def h():
        rc, rs = ver('r', nr)
        vc, vs = ver('v', nv)
        sp = ' ' if choose(2) else ''
        req = OPS[opi] + sp + rs
        got = cargo_parse.__wrapped__(req)(vs) if hasattr(cargo_parse, '__wrapped__') else cargo_parse(req)(vs)
        v3 = list(vc) + [0] * (3 - nv)
        exp = ref(OPS[opi], rc, v3)
        check(got == exp if not isinstance(exp, bool) else got == exp, 'accept')
        cover('done')
    return h

if __name__ == '__main__':
    tot = 0; t0 = time.time(); bad = 0
    for opi in range(len(OPS)):
        for nr in (1, 2, 3):
            st = core.explore(harness(opi, nr, 3), max_paths=20000)
            tot += st['paths']
            if st['violations'] or st['errors']:
                bad += 1
                print(OPS[opi], nr, 'paths', st['paths'], 'viol', len(st['violations']), 'errors', len(st['errors']), flush=True)
                for e in st['errors'][:1]: print('   ', e[:2])
                for v in st['violations'][:1]: print('   V', v[0], v[1])
    print('total paths', tot, 'time %.1f' % (time.time() - t0), 'bad', bad)
